"""C10 — session histories: term identity.

A case is a *session*: a sequence of creations (Term, Factor, FactorTerm, formula arithmetic on the
objects created so far, Factor.stratify / get_term) interleaved with designs of those objects on typed
record arrays.  Names and levels are drawn so that printed names collide (`Factor('g', [1, 2])` /
`Factor('g', ['1', '2'])`, `('a', 'b_c')` / `('a_b', 'c')`, `Term('g_1')` / `FactorTerm('g', 1)`, byte
strings, empty strings, negative ints).

Model line: `session <datasets> <events>`; the Lean machine (Model/C10S.lean) answers one item per event
(`o <nterms> <F|f>` for a creation, the columns / `error…` for a design).

Oracle (real code only):
  * every design of an object equals, as a multiset of columns, the exact evaluation of what the object
    denotes (value semantics of the term algebra over term *identities*: class, printed name, factor name,
    level and level kind), whatever else was created before or after;
  * the indicator columns of each Factor with distinct levels partition the observations (0/1 entries, at most
    one per observation, exactly one when the observed value is one of the levels);
  * a design never raises, except for a missing field or a formula without terms.
"""
from __future__ import annotations

from fractions import Fraction

import numpy as np

from harness.util import all_close, errname, fr

INT_LEVELS = [1, 2, 3, -1, 10, 0]
STR_LEVELS = ["1", "2", "b", "c", "b_c", "a", "1_2", "", "3", "-1", "c_d", "_", "x"]
NAMES = ["g", "a", "a_b", "f", "g_1", "a_b_c", "x", "g_1_2"]

# families of creations whose printed names collide
FAMILIES = [
    [("factor", "g", "int", [1, 2]), ("factor", "g", "str", ["1", "2"]), ("factor", "g", "bytes", ["1", "2"]),
     ("term", "g_1"), ("fterm", "g", "int", 1), ("fterm", "g", "str", "1")],
    [("factor", "a", "str", ["b_c", "x"]), ("factor", "a_b", "str", ["c", "x"]), ("term", "a_b_c"),
     ("fterm", "a", "str", "b_c"), ("fterm", "a_b", "str", "c")],
    [("factor", "g", "str", ["1_2", "1"]), ("factor", "g_1", "str", ["2", "x"]), ("factor", "g", "int", [1, 2, 3]),
     ("term", "g_1_2"), ("factor", "g_1", "int", [2, 3])],
    [("factor", "f", "int", [-1, 1, 10]), ("factor", "f", "str", ["-1", "1"]), ("factor", "f", "str", ["", "_", "a"]),
     ("term", "f_"), ("factor", "f", "bytes", ["a", "b"])],
    [("factor", "x", "int", [0, 1]), ("term", "x"), ("term", "x_0"), ("factor", "x", "str", ["0", "1"])],
]


def _ident(kind, name, level=None, lkind=None):
    if kind == "T":
        return ("T", name)
    return ("F", name, lkind != "int", str(level))


def _matches(lkind, level, dkind, value):
    """`x == t.level` for an element of the data column (bytes columns are converted to str)"""
    if lkind == "int":
        return dkind in ("int", "float") and Fraction(value) == level
    return dkind in ("str", "bytes") and value == level


# ---------------------------------------------------------------------------------------------
# generation
# ---------------------------------------------------------------------------------------------
def _rand_creation(rng):
    r = rng.random()
    name = rng.choice(NAMES)
    if r < 0.2:
        return ("term", name)
    lkind = rng.choice(["int", "str", "str", "bytes"])
    pool = INT_LEVELS if lkind == "int" else [s for s in STR_LEVELS if lkind == "str" or s != ""]
    if r < 0.3:
        return ("fterm", name, "int" if lkind == "int" else "str", rng.choice(pool if lkind != "bytes" else STR_LEVELS))
    nl = rng.choice([1, 2, 2, 3, 4])
    levels = rng.sample(pool, min(nl, len(pool)))
    if rng.random() < 0.08 and len(levels) > 1:
        levels[-1] = levels[0]          # a repeated level: two equal terms (excluded from the partition clause)
    return ("factor", name, lkind, levels)


def gen_session(rng, big=False):
    ncre = rng.choice([2, 3, 3, 4, 5] + ([6, 8] if big else []))
    if rng.random() < 0.75:
        fam = rng.choice(FAMILIES)
        cre = rng.sample(fam, min(ncre, len(fam)))
        if rng.random() < 0.4:
            cre.append(_rand_creation(rng))
    else:
        cre = [_rand_creation(rng) for _ in range(ncre)]
    if rng.random() < 0.2:
        cre.insert(rng.randrange(len(cre) + 1), ("intercept",))
    rng.shuffle(cre)
    # which record fields are needed, and of which kind
    numeric, fkinds = set(), {}
    for c in cre:
        if c[0] == "term":
            numeric.add(c[1])
            fkinds.setdefault(c[1], [])
        elif c[0] in ("factor", "fterm"):
            lv = c[3] if c[0] == "factor" else [c[3]]
            fkinds.setdefault(c[1], []).append((c[2], lv))
    fields = sorted(fkinds)
    datasets = []
    for _ in range(rng.choice([1, 1, 2])):
        fl, cols = [], []
        n = rng.choice([1, 2, 3, 4, 4, 6])
        for name in fields:
            kinds = [k for k, _ in fkinds[name]]
            if name in numeric or not kinds:
                dk = rng.choice(["int", "float"])
            else:
                want = rng.choice(kinds)
                dk = {"int": rng.choice(["int", "int", "float"]), "str": rng.choice(["str", "str", "bytes"]),
                      "bytes": rng.choice(["bytes", "str"])}[want]
                if rng.random() < 0.15:
                    dk = rng.choice(["int", "str"])
            texts = [str(l) for _, lv in fkinds[name] for l in lv]
            if dk in ("int", "float"):
                pool = []
                for t in texts:
                    try:
                        pool.append(int(t))
                    except ValueError:
                        pass
                pool = pool + [7] if pool else [1, 2, 7]
                col = [rng.choice(pool) for _ in range(n)]
                if dk == "float":
                    col = [float(v) + (0.5 if rng.random() < 0.15 else 0.0) for v in col]
            else:
                pool = [t for t in texts if dk == "str" or t != ""] + ["zz"]
                col = [rng.choice(pool) for _ in range(n)]
            fl.append([name, dk])
            cols.append(col)
        if fl and rng.random() < 0.04:
            k = rng.randrange(len(fl))      # a missing field: the design must refuse
            fl.pop(k); cols.pop(k)
        datasets.append({"fields": fl, "rows": [[c[i] for c in cols] for i in range(n)]})
    # events: creations in order, arithmetic and designs in between
    events, cev, nterms, isfac = [], [], [], []
    bad_g = set()

    def add(ev, nt, fac):
        events.append(ev)
        cev.append(ev)
        nterms.append(nt)
        isfac.append(fac)

    def some_designs(p):
        while cev and rng.random() < p:
            i = rng.randrange(len(cev)) if rng.random() < 0.5 else len(cev) - 1
            d = rng.randrange(len(datasets))
            if isfac[i] and nterms[i] >= 2 and rng.random() < 0.15:
                events.append(["M", i, d])
            else:
                events.append(["D", i, d, rng.random() < 0.3])
    for c in cre:
        if c[0] == "intercept":
            add(["I"], 1, False)
        elif c[0] == "term":
            add(["T", c[1]], 1, False)
        elif c[0] == "fterm":
            add(["L", c[1], c[2], c[3]], 1, False)
        else:
            add(["F", c[1], c[2], list(c[3])], len(c[3]), len(set(c[3])) == len(c[3]))
        some_designs(0.45)
        if len(cev) >= 2 and rng.random() < 0.5:
            for _ in range(rng.choice([1, 1, 2])):
                i, j = rng.randrange(len(cev)), rng.randrange(len(cev))
                op = rng.choice("++*-*")
                nt = nterms[i] + nterms[j] if op == "+" else (nterms[i] if op == "-" else nterms[i] * nterms[j])
                if nt <= 12:
                    add(["O", op, i, j], nt, False)
        singles = [i for i in range(len(cev)) if cev[i][0] in ("T", "L", "G") and i not in bad_g]
        if singles and rng.random() < 0.2:
            i = rng.choice(singles)
            j = i if rng.random() < 0.5 else rng.choice(singles)
            add(["P", i, j], 1, False)
        if rng.random() < 0.12:
            d = rng.randrange(len(datasets))
            if datasets[d]["fields"]:
                nm = rng.choice(datasets[d]["fields"])[0]
                cl = _col_levels(datasets[d], nm)
                add(["C", nm, d], len(cl[1]) if cl else 0, cl is not None)
        if rng.random() < 0.06:
            d = rng.randrange(len(datasets))
            if datasets[d]["fields"]:
                add(["R", d], 1, False)
        facs = [i for i in range(len(cev)) if isfac[i]]
        if facs and rng.random() < 0.2:
            i = rng.choice(facs)
            add(["S", i], nterms[i], False)
        facs = [i for i in facs if cev[i][0] == "F"]
        if facs and rng.random() < 0.2:
            i = rng.choice(facs)
            fe = cev[i]
            if rng.random() < 0.85:
                lv, lk = rng.choice(fe[3]), ("int" if fe[2] == "int" else "str")
            else:
                lv = rng.choice(INT_LEVELS + STR_LEVELS)
                lk = "int" if isinstance(lv, int) else "str"
            add(["G", i, lk, lv], 1, False)
            if not (lv in fe[3] and lk == ("int" if fe[2] == "int" else "str")):
                bad_g.add(len(cev) - 1)
    some_designs(0.9)
    some_designs(0.6)
    # every factor designed at the very end once more (after everything else was created)
    for i in range(len(cev)):
        if cev[i][0] == "F" and rng.random() < 0.8:
            events.append(["D", i, rng.randrange(len(datasets)), False])
    return {"kind": "session", "datasets": datasets, "events": events}


# ---------------------------------------------------------------------------------------------
# model line
# ---------------------------------------------------------------------------------------------
def _lv_tok(lk, lv):
    return f"i{int(lv)}" if lk == "int" else f"s{lv}"


def session_line(c):
    toks = ["session", str(len(c["datasets"]))]
    for ds in c["datasets"]:
        toks.append(str(len(ds["fields"])))
        for n, dk in ds["fields"]:
            toks += ["=" + n, "1" if dk in ("str", "bytes") else "0"]
        toks.append(str(len(ds["rows"])))
        for r in ds["rows"]:
            for (n, dk), v in zip(ds["fields"], r):
                toks.append("n" + fr(v) if dk in ("int", "float") else "s" + v)
    toks.append(str(len(c["events"])))
    for e in c["events"]:
        k = e[0]
        if k == "I":
            toks.append("I")
        elif k == "T":
            toks += ["T", "=" + e[1]]
        elif k == "F":
            toks += ["F", "=" + e[1], str(len(e[3]))] + [_lv_tok(e[2], l) for l in e[3]]
        elif k == "L":
            toks += ["L", "=" + e[1], _lv_tok(e[2], e[3])]
        elif k == "O":
            toks += ["O", str("+-*".index(e[1])), str(e[2]), str(e[3])]
        elif k == "S":
            toks += ["S", str(e[1])]
        elif k == "G":
            toks += ["G", str(e[1]), _lv_tok(e[2], e[3])]
        elif k == "P":
            toks += ["P", str(e[1]), str(e[2])]
        elif k == "C":
            toks += ["C", "=" + e[1], str(e[2])]
        elif k == "R":
            toks += ["R", str(e[1])]
        elif k == "D":
            toks += ["D", str(e[1]), str(e[2])]
        elif k == "M":
            toks += ["M", str(e[1]), str(e[2])]
    return " ".join(toks)


# ---------------------------------------------------------------------------------------------
# what the objects denote (value semantics over identities)
# ---------------------------------------------------------------------------------------------
class _Den:
    def __init__(self, terms, is_factor=False, fac=None, ordered=True):
        self.terms = terms              # [(Fraction, tuple(sorted identities))]
        self.is_factor = is_factor
        self.fac = fac                  # (name, lkind, levels)
        self.ordered = ordered          # False: the order of the terms is sympy's (default_sort_key), not modelled


class OrderDependent(Exception):
    """`Factor * formula` where only sympy's term order decides whether the Factor shortcut applies"""


def _col_levels(ds, name):
    """(level kind, sorted distinct values) of a column, or None when Factor refuses the values"""
    names = [n for n, _ in ds["fields"]]
    k = names.index(name)
    dk = ds["fields"][k][1]
    vals = [r[k] for r in ds["rows"]]
    if dk in ("int", "float"):
        if any(float(v) != int(v) for v in vals):
            return None
        return "int", sorted({int(v) for v in vals})
    return "str", sorted(set(vals))


def _den_event(e, objs, datasets=None):
    k = e[0]
    one = Fraction(1)
    if k == "C":
        cl = _col_levels(datasets[e[2]], e[1])
        if cl is None:
            return None
        return _Den([(one, (_ident("F", e[1], l, cl[0]),)) for l in cl[1]], True, (e[1], cl[0], cl[1]))
    if k == "R":
        ds = datasets[e[1]]
        terms = []
        for n, dk in ds["fields"]:
            if dk in ("str", "bytes"):
                lk, lv = _col_levels(ds, n)
                terms += [(one, (_ident("F", n, l, lk),)) for l in lv]
            else:
                terms.append((one, (_ident("T", n),)))
        return _Den(terms)
    if k == "P":
        if len(objs[e[1]].terms) != 1 or len(objs[e[2]].terms) != 1:
            return None
        (ca, ia), (cb, ib) = objs[e[1]].terms[0], objs[e[2]].terms[0]
        if ia[0][0] == "F" and ia == ib:
            return _Den([(one, ia)])
        return _Den([(one, tuple(sorted(ia + ib)))])
    if k == "I":
        return _Den([(one, ())])
    if k == "T":
        return _Den([(one, (_ident("T", e[1]),))])
    if k == "L":
        return _Den([(one, (_ident("F", e[1], e[3], e[2]),))])
    if k == "F":
        lk = "str" if e[2] == "bytes" else e[2]
        return _Den([(one, (_ident("F", e[1], l, lk),)) for l in e[3]], True, (e[1], lk, list(e[3])))
    if k == "S":
        return _Den(list(objs[e[1]].terms), ordered=objs[e[1]].ordered)
    if k == "G":
        a = objs[e[1]]
        name, lk, levels = a.fac
        if e[2] != lk or e[3] not in levels:
            return None
        return _Den([(one, (_ident("F", name, e[3], lk),))])
    if k == "O":
        a, b = objs[e[2]], objs[e[3]]
        if e[1] == "+":
            return _Den(a.terms + b.terms, ordered=a.ordered and b.ordered)
        if e[1] == "-":
            return _Den([t for t in a.terms if t not in set(b.terms)], ordered=a.ordered)
        if a.is_factor and not b.ordered and sorted(a.terms) == sorted(b.terms):
            raise OrderDependent()
        if a.is_factor and a.terms == b.terms:
            return a
        prods = {(x[0] * y[0], tuple(sorted(x[1] + y[1]))) for x in a.terms for y in b.terms}
        return _Den(sorted(prods), ordered=len(prods) <= 1)
    raise ValueError(k)


def _ident_value(idn, ds, row):
    names = [n for n, _ in ds["fields"]]
    if idn[0] == "T":
        return Fraction(row[names.index(idn[1])])
    k = names.index(idn[1])
    dk = ds["fields"][k][1]
    lk = "str" if idn[2] else "int"
    level = idn[3] if idn[2] else int(idn[3])
    return Fraction(1 if _matches(lk, level, dk, row[k]) else 0)


def _den_columns(den, ds):
    cols = []
    for c, ids in den.terms:
        col = []
        for row in ds["rows"]:
            v = c
            for i in ids:
                v *= _ident_value(i, ds, row)
            col.append(v)
        cols.append(col)
    return cols


def _den_fields(den):
    return {i[1] for _, ids in den.terms for i in ids}


def match_cols(got, want, tol=1e-9):
    if len(got) != len(want):
        return f"{len(got)} columns for {len(want)} terms"
    used = [False] * len(got)
    for j, w in enumerate(want):
        hit = None
        for i, g in enumerate(got):
            if not used[i] and all_close(g, w, tol, tol):
                hit = i
                break
        if hit is None:
            return f"no column equals term #{j} evaluated on the data {[float(x) for x in w]}"
        used[hit] = True
    return None


def _cols_of(D, n):
    D = np.asarray(D, dtype=float)
    if D.ndim == 0:
        return [[float(D)]]
    if D.ndim == 1:
        return [[float(v)] for v in D] if n == 1 else [D.tolist()]
    return D.T.tolist()


def _describe(e):
    k = e[0]
    if k == "F":
        lv = [l.encode() for l in e[3]] if e[2] == "bytes" else e[3]
        return f"Factor({e[1]!r}, {lv!r})"
    if k == "T":
        return f"Term({e[1]!r})"
    if k == "L":
        return f"FactorTerm({e[1]!r}, {e[3]!r})"
    if k == "I":
        return "I"
    if k == "O":
        return f"obj{e[2]} {e[1]} obj{e[3]}"
    if k == "S":
        return f"obj{e[1]}.stratify('th')"
    if k == "G":
        return f"obj{e[1]}.get_term({e[3]!r})"
    if k == "P":
        return f"Formula([obj{e[1]}.terms[0] * obj{e[2]}.terms[0]])"
    if k == "C":
        return f"Factor.fromcol(data{e[2]}[{e[1]!r}], {e[1]!r})"
    if k == "R":
        return f"Formula.fromrec(data{e[1]})"
    return str(e)


# ---------------------------------------------------------------------------------------------
# the real code
# ---------------------------------------------------------------------------------------------
def _in_domain(c):
    """drop the designs in which a plain (numeric) Term would read a string field (not a numeric term)"""
    dens, keep = [], []
    for e in c["events"]:
        if e[0] in ("D", "M"):
            den, ds = dens[e[1]], c["datasets"][e[2]]
            kinds = dict((n, dk) for n, dk in ds["fields"])
            if den is not None and any(i[0] == "T" and kinds.get(i[1]) in ("str", "bytes")
                                       for _, ids in den.terms for i in ids):
                continue
            keep.append(e)
            continue
        ok = all(dens[j] is not None for j in _refs(e))
        den = _den_event(e, dens, c["datasets"]) if ok else None
        dens.append(den if den is not None else _Den([]))
        keep.append(e)
    return dict(c, events=keep)


def run_session(c):
    from nipy.algorithms.statistics.formula import formulae as F
    try:
        c = _in_domain(c)
    except OrderDependent:
        return {"lines": [], "impl": [], "oracle": None, "nontrivial": False,
                "tags": ["session", "term-order-dependent-skipped"], "mutated": None}
    tags = ["session"]
    datas = []
    for ds in c["datasets"]:
        dt = [(n, {"int": int, "float": float, "str": "U8", "bytes": "S8"}[dk]) for n, dk in ds["fields"]]
        recs = [tuple((v.encode("latin1") if dk == "bytes" else v) for (n, dk), v in zip(ds["fields"], r))
                for r in ds["rows"]]
        datas.append(np.array(recs, dtype=dt))
    objs, dens, creators = [], [], []
    obs, fail = [], None
    history = []

    def note(msg):
        nonlocal fail
        if fail is None:
            fail = msg + "; session: " + "; ".join(history)
    for e in c["events"]:
        k = e[0]
        if k in ("D", "M"):
            i, d = e[1], e[2]
            obj, den, ds = objs[i], dens[i], c["datasets"][d]
            n = len(ds["rows"])
            what = f"design(obj{i} = {creators[i]}, data{d})" if k == "D" else f"design(obj{i}.main_effect, data{d})"
            history.append(what)
            missing = den is not None and not _den_fields(den) <= {nm for nm, _ in ds["fields"]}
            try:
                target = obj if k == "D" else obj.main_effect
                D = target.design(datas[d], return_float=True)
                cols = _cols_of(D, n)
                obs.append(("cols", cols))
            except Exception as ex:
                obs.append(("err", errname(ex)))
                empty = den is None or len(den.terms) == 0 or (k == "M" and len(den.terms) <= 1)
                if not (missing or empty):
                    tags.append("design-raised")
                    note(f"{what} raised {type(ex).__name__}: {str(ex)[:160]}")
                continue
            if den is None:
                continue
            want = _den_columns(den, ds) if not missing else None
            if want is not None and k == "M":
                want = [[a - b for a, b in zip(col, want[-1])] for col in want[:-1]]
            if want is not None:
                dd = match_cols(cols, want)
                if dd is not None:
                    note(f"{what}: {dd}; columns are {cols} but the terms evaluated on the data are "
                         f"{[[float(x) for x in w] for w in want]}")
            # the factor clause, from the implementation's output alone
            if k == "D" and den.is_factor and den.fac is not None and not missing:
                name, lk, levels = den.fac
                if len(set(levels)) == len(levels):
                    ind = np.asarray(cols, dtype=float).T.reshape(n, -1)
                    kcol = [nm for nm, _ in ds["fields"]].index(name)
                    dk = ds["fields"][kcol][1]
                    for r in range(n):
                        v = ds["rows"][r][kcol]
                        inlev = any(_matches(lk, l, dk, v) for l in levels)
                        row = ind[r]
                        if not np.all((row == 0) | (row == 1)) or row.sum() > 1 or (inlev and row.sum() != 1):
                            note(f"{what}: the indicator columns of Factor({name!r}, {levels!r}) do not partition the "
                                 f"observations: observation {r} ({name}={v!r}) has indicators {row.tolist()}")
                            break
                    tags.append("factor-partition-history")
            if k == "D" and len(e) > 3 and e[3] and fail is None:
                names = [str(t) for t in obj.terms]
                if len(set(names)) == len(names) and list(obj.terms) != [1]:
                    tags.append("session-recarray")
                    try:
                        R = obj.design(datas[d])
                        if sorted(R.dtype.names) != sorted(names):
                            note(f"{what}: recarray fields {list(R.dtype.names)} are not the term names {names}")
                        else:
                            got = [np.asarray(R[nm], dtype=float).reshape(-1).tolist() for nm in R.dtype.names]
                            dd = match_cols(got, want) if want is not None else None
                            if dd is not None:
                                note(f"{what} (recarray): {dd}")
                    except Exception as ex:
                        note(f"{what} (recarray) raised {type(ex).__name__}: {str(ex)[:160]}")
            continue
        # creations
        history.append(f"obj{len(objs)} = {_describe(e)}")
        creators.append(_describe(e))
        den = _den_event(e, dens, c["datasets"]) if all(dens[j] is not None for j in _refs(e)) else None
        try:
            if k == "I":
                o = F.I
            elif k == "T":
                o = F.Term(e[1]).formula
            elif k == "L":
                o = F.Formula([F.FactorTerm(e[1], e[3])])
            elif k == "F":
                lv = [l.encode("latin1") for l in e[3]] if e[2] == "bytes" else list(e[3])
                o = F.Factor(e[1], lv)
            elif k == "S":
                o = objs[e[1]].stratify("th")
            elif k == "G":
                o = F.Formula([objs[e[1]].get_term(e[3])])
            elif k == "P":
                o = F.Formula([objs[e[1]].terms[0] * objs[e[2]].terms[0]])
            elif k == "C":
                o = F.Factor.fromcol(datas[e[2]][e[1]], e[1])
            elif k == "R":
                o = F.Formula.fromrec(datas[e[1]])
            else:
                a, b = objs[e[2]], objs[e[3]]
                o = a + b if e[1] == "+" else (a - b if e[1] == "-" else a * b)
            objs.append(o)
            dens.append(den)
            obs.append(("o", len(o.terms), bool(F.is_factor(o))))
            if den is not None and (len(o.terms) != len(den.terms) or bool(F.is_factor(o)) != den.is_factor):
                note(f"obj{len(objs) - 1} = {_describe(e)} has {len(o.terms)} terms {list(o.terms)} "
                     f"(is_factor={bool(F.is_factor(o))}); it denotes {len(den.terms)} distinct terms")
            elif den is None:
                note(f"{_describe(e)} returned {list(o.terms)}: a refusal (ValueError) was expected")
        except Exception as ex:
            objs.append(F.Formula([]))
            dens.append(_Den([]))
            obs.append(("err", errname(ex)))
            if den is not None:
                tags.append("creation-raised")
                note(f"obj{len(objs) - 1} = {_describe(e)} raised {type(ex).__name__}: {str(ex)[:160]}")
    names_seen = {}
    for e in c["events"]:
        if e[0] == "F":
            for l in e[3]:
                names_seen.setdefault(f"{e[1]}_{l}", set()).add((e[1], e[2] != "int", str(l)))
        elif e[0] == "L":
            names_seen.setdefault(f"{e[1]}_{e[3]}", set()).add((e[1], e[2] != "int", str(e[3])))
        elif e[0] == "T":
            names_seen.setdefault(e[1], set()).add(("T",))
    if any(len(v) > 1 for v in names_seen.values()):
        tags.append("printed-name-collision")
    if any(e[0] == "M" for e in c["events"]):
        tags.append("main-effect")
    if any(e[0] == "S" for e in c["events"]):
        tags.append("stratify")
    if any(e[0] == "G" for e in c["events"]):
        tags.append("get-term")
    for kk, tg in (("P", "term-product"), ("C", "fromcol"), ("R", "fromrec")):
        if any(e[0] == kk for e in c["events"]):
            tags.append(tg)
    nd = sum(1 for e in c["events"] if e[0] in ("D", "M"))
    return {"lines": [session_line(c)], "impl": [("session", obs)], "oracle": fail,
            "nontrivial": nd >= 1 and len(objs) >= 2, "tags": tags, "mutated": None}


def _refs(e):
    k = e[0]
    if k == "O":
        return [e[2], e[3]]
    if k == "P":
        return [e[1], e[2]]
    if k in ("S", "G", "D", "M"):
        return [e[1]]
    return []


def compare_session(obs, model_out):
    if model_out.startswith("bad-op"):
        return f"model says {model_out}"
    parts = [s.strip() for s in model_out.split(" ; ")]
    if len(parts) != len(obs):
        return f"{len(obs)} events observed, model answered {len(parts)}"
    for k, (o, m) in enumerate(zip(obs, parts)):
        if o[0] == "err":
            if not m.startswith("error"):
                return f"event {k}: impl raised {o[1]}, model says {m[:100]}"
        elif m.startswith("error"):
            return f"event {k}: impl returned {o}, model says {m}"
        elif o[0] == "o":
            want = f"o {o[1]} {'F' if o[2] else 'f'}"
            if m != want:
                return f"event {k}: impl object '{want}', model '{m}'"
        else:
            mcols = [[Fraction(t) for t in s.split()] for s in m.split(" | ")] if m.strip() else []
            d = match_cols(o[1], mcols)
            if d is not None:
                return f"event {k}: {d}; impl columns {o[1]}"
    return None


# ---------------------------------------------------------------------------------------------
# shrinking
# ---------------------------------------------------------------------------------------------
def _drop_event(c, k):
    """the session without event k (and, for a creation, without everything built from it)"""
    events = c["events"]
    creates = [e[0] not in ("D", "M") for e in events]
    oid, n = {}, 0
    for i, e in enumerate(events):
        if creates[i]:
            oid[i] = n
            n += 1
    dead = set()
    if creates[k]:
        dead.add(oid[k])
    keep = []
    for i, e in enumerate(events):
        if i == k:
            continue
        if any(r in dead for r in _refs(e)):
            if creates[i]:
                dead.add(oid[i])
            continue
        keep.append(i)
    remap, m = {}, 0
    for i in keep:
        if creates[i]:
            remap[oid[i]] = m
            m += 1
    out = []
    for i in keep:
        e = list(events[i])
        if e[0] == "O":
            e[2], e[3] = remap[e[2]], remap[e[3]]
        elif e[0] == "P":
            e[1], e[2] = remap[e[1]], remap[e[2]]
        elif e[0] in ("S", "G", "D", "M"):
            e[1] = remap[e[1]]
        out.append(e)
    return dict(c, events=out)


def shrink_session(c):
    ev = c["events"]
    for k in range(len(ev)):
        if len(ev) > 1:
            yield _drop_event(c, k)
    for d, ds in enumerate(c["datasets"]):
        if len(ds["rows"]) > 1:
            for r in range(len(ds["rows"])):
                nd = dict(ds, rows=[ds["rows"][r]])
                yield dict(c, datasets=[nd if i == d else x for i, x in enumerate(c["datasets"])])
    for k, e in enumerate(ev):
        if e[0] == "F" and len(e[3]) > 1:
            for j in range(len(e[3])):
                ne = [e[0], e[1], e[2], e[3][:j] + e[3][j + 1:]]
                yield dict(c, events=[ne if i == k else x for i, x in enumerate(ev)])
