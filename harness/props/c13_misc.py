"""C13, remaining API: exact cores of the divergence helpers (`K dkl*`, `K dirlog`, `K wishlog`),
operation histories of GMM (`gmmh`), of the gamma-Gaussian mixtures (`ggh`) and of the von Mises-Fisher
mixture (`vmfh`).  Transcendental values (gammaln, psi, log det, inverses, norms) are parameters of the
model: the harness passes what it / the implementation evaluated."""
from __future__ import annotations

import contextlib
import io
import math

import numpy as np

from harness.util import Snapshot, fr, frs

TINY = 1.e-15


def _dy(rng, lo, hi, den=4):
    return rng.randint(int(lo * den), int(hi * den)) / den


def _mat(a):
    return " ".join(fr(v) for v in np.asarray(a, dtype=float).ravel().tolist())


def _simplex_fail(name, z, atol=1e-9):
    z = np.asarray(z, dtype=float)
    if z.size == 0:
        return None
    if not np.all(np.isfinite(z)):
        return f"{name}: non-finite membership"
    if z.min() < 0:
        return f"{name}: negative membership {z.min()}"
    s = z.sum(-1)
    j = int(np.argmax(np.abs(s - 1)))
    if abs(s.ravel()[j] - 1) > atol:
        return f"{name}: memberships of row {j} sum to {float(s.ravel()[j])!r}, not 1"
    return None


class MiscMixin:
    # ------------------------------------------------------------------ divergence helpers (lines added to `bayes`)
    def kl_lines(self, c, bgmm, m1, P1, m2, P2, Wm, a1, a2, al1, al2, w):
        """correspondence lines + algebraic oracles for the divergence / density helpers"""
        from scipy.linalg import eigvalsh, inv
        from scipy.special import gammaln, psi
        d = m1.size
        lines, impl, fail = [], [], None
        # dkl_dirichlet with the gammaln / psi values as a table
        args_lg = list(al1) + list(al2) + [float(np.sum(al1)), float(np.sum(al2))]
        args_ps = list(al1) + [float(np.sum(al1))]
        lgT = {fr(v): float(gammaln(v)) for v in args_lg}
        psT = {fr(v): float(psi(v)) for v in args_ps}
        lines.append(f"K dkld {len(al1)} {frs(al1)} {frs(al2)} {len(lgT)} " + " ".join(f"{k} {fr(v)}" for k, v in lgT.items())
                     + f" {len(psT)} " + " ".join(f"{k} {fr(v)}" for k, v in psT.items()))
        impl.append(("rats", [float(bgmm.dkl_dirichlet(al1, al2))], 1e-9, 1e-9))
        # dkl_gaussian
        ld1 = float(np.sum(np.log(eigvalsh(P1)))); ld2 = float(np.sum(np.log(eigvalsh(P2))))
        Q1 = inv(P1)
        lines.append(f"K dklg {d} {fr(ld1)} {fr(ld2)} {_mat(P2)} {_mat(Q1)} {_mat(m1)} {_mat(m2)}")
        impl.append(("rats", [float(bgmm.dkl_gaussian(m1, P1, m2, P2))], 1e-8, 1e-8 * (1 + abs(ld1) + abs(ld2))))
        zero = float(bgmm.dkl_gaussian(m1, P1, m1, P1))
        if abs(zero) > 1e-7 * (1 + abs(ld1)):
            fail = f"dkl_gaussian(m, P, m, P) = {zero!r}, not 0"
        t = np.array(c["m2"], dtype=float) * 3 + 1
        g0 = float(bgmm.dkl_gaussian(m1, P1, m2, P2)); g1 = float(bgmm.dkl_gaussian(m1 + t, P1, m2 + t, P2))
        if fail is None and abs(g1 - g0) > 1e-8 * (1 + abs(g0)):
            fail = "dkl_gaussian is not invariant under a common translation of the two means"
        # dkl_wishart
        B1, B2 = P2, Wm
        aq, ap = a1 + 1, a2 + 1
        d1 = bgmm.detsh(B1); d2 = bgmm.detsh(B2)
        lgc = d * (d - 1) * math.log(np.pi) / 4
        lg1 = lgc; lg2 = lgc
        lw1 = - math.log(d1) + d * math.log(2)
        for i in range(d):
            lg1 += gammaln((aq - i) / 2); lg2 += gammaln((ap - i) / 2); lw1 += psi((aq - i) / 2)
        lz1 = 0.5 * aq * d * math.log(2) - 0.5 * aq * math.log(d1) + lg1
        lz2 = 0.5 * ap * d * math.log(2) - 0.5 * ap * math.log(d2) + lg2
        QB = inv(B1)
        lines.append(f"K dklw {d} {fr(aq)} {fr(ap)} {fr(float(lw1))} {fr(float(lz1))} {fr(float(lz2))} {_mat(B2)} {_mat(QB)}")
        impl.append(("rats", [float(bgmm.dkl_wishart(aq, B1, ap, B2))], 1e-8, 1e-8 * (1 + abs(lz1) + abs(lz2))))
        zero = float(bgmm.dkl_wishart(aq, B1, aq, B1))
        if fail is None and abs(zero) > 1e-7 * (1 + abs(lz1)):
            fail = f"dkl_wishart(a, B, a, B) = {zero!r}, not 0"
        # dirichlet_eval exponent, label invariance
        lw = np.log(w)
        logb = float(np.sum(gammaln(al1)) - gammaln(al1.sum()))
        lines.append(f"K dirlog {len(w)} {frs(al1)} {frs(lw)} {fr(logb)}")
        de = float(bgmm.dirichlet_eval(w, al1))
        impl.append(("explog", [de]))
        p = list(range(len(w)))[::-1]
        if fail is None and abs(float(bgmm.dirichlet_eval(w[p], al1[p])) - de) > 1e-9 * de:
            fail = "dirichlet_eval is not invariant under relabelling"
        # wishart_eval exponent
        n_w = a1 + 1
        piV = inv(P2)
        lg = math.log(math.pi) * d * (d - 1) / 4 + float(gammaln(np.arange(n_w - d + 1, n_w + 1).astype(np.float64) / 2).sum())
        lines.append(f"K wishlog {d} {fr(n_w)} {fr(math.log(bgmm.detsh(Wm)))} {fr(math.log(bgmm.detsh(P2)))} "
                     f"{fr(math.log(2))} {fr(lg)} {_mat(piV)} {_mat(Wm)}")
        impl.append(("explog", [float(bgmm.wishart_eval(n_w, P2, Wm))]))
        return lines, impl, fail

    # ------------------------------------------------------------------ generation
    def _gen_gmmh(self, rng):
        d = rng.choice([1, 2, 2, 3]); k = rng.choice([1, 2, 3])
        n = rng.choice([8, 12, 20])
        cents = [[_dy(rng, -6, 6, 2) for _ in range(d)] for _ in range(k)]
        xs = [[rng.choice(cents)[j] + _dy(rng, -2, 2, 8) for j in range(d)] for _ in range(n)]
        for j in range(d):
            if len({r[j] for r in xs}) < 3:
                xs[0][j] += 1.0; xs[1][j] -= 0.5
        ops = []
        for _ in range(rng.choice([2, 3, 5])):
            ops.append(rng.choice(["initialize", "estimate", "update", "train", "initialize_and_estimate", "plugin",
                                   "guess_regularizing", "test", "average_log_like", "evidence", "bic", "map_label",
                                   "_Estep",
                                   # the caller edits the parameter arrays of the object in place (rescaling an
                                   # axis, moving a component, replacing one precision): the reported likelihood is
                                   # the density of the CURRENT parameters
                                   "rescale_inplace", "shift_inplace", "prec_item", "weights_inplace"]))
        return {"kind": "gmmh", "d": d, "k": k, "full": rng.random() < 0.6, "x": xs, "ops": ops,
                "niter": rng.choice([1, 2, 5]), "delta": rng.choice([1e-4, 0.0, 0.05]), "ninit": rng.choice([1, 2]),
                "seed": rng.randrange(10 ** 6)}

    def _gen_ggh(self, rng):
        n = rng.choice([12, 20, 30])
        xs = []
        for _ in range(n):
            r = rng.random()
            if r < 0.5:
                xs.append(_dy(rng, -3, 3, 8))
            elif r < 0.8:
                xs.append(_dy(rng, 1, 12, 8) + 0.125)
            else:
                xs.append(-_dy(rng, 1, 10, 8) - 0.125)
        if rng.random() < 0.1:
            xs = [-abs(v) - 0.125 for v in xs]             # no positive sample
        z2 = [[rng.choice([0, 1, 2, 3, 5]) / 8 for _ in range(2)] for _ in range(n)]
        z3 = [[rng.choice([0, 1, 2, 3, 5]) / 8 for _ in range(3)] for _ in range(n)]
        if rng.random() < 0.15:
            for r in z3:
                r[1] = 0.0                                  # empty Gaussian class
        return {"kind": "ggh", "x": xs, "z2": z2, "z3": z3, "a": rng.choice([0.5, 2.0, 4.0, 0.25]),
                "niter": rng.choice([1, 3, 6]), "bias": rng.choice([0, 0, 0.5]), "gmix": rng.choice([0, 0, 0.3]),
                "dof": rng.choice([-1, -1, 5]), "t": _dy(rng, -4, 4, 2)}

    def _gen_vmfh(self, rng):
        k = rng.choice([1, 2, 3, 4])
        n = rng.choice([6, 10, 16])

        def unit():
            while True:
                v = [_dy(rng, -2, 2, 4) for _ in range(3)]
                nrm = math.sqrt(sum(t * t for t in v))
                if nrm > 0.2:
                    return [t / nrm for t in v]
        null = rng.random() < 0.4
        K = k + (1 if null else 0)
        z = [[rng.choice([0, 1, 1, 2, 3, 5]) / 8 for _ in range(K)] for _ in range(n)]
        for r in z:
            if sum(r) == 0:
                r[rng.randrange(K)] = 0.5
        return {"kind": "vmfh", "k": k, "null": null, "precision": rng.choice([1.0, 3.0, 10.0, 30.0]),
                "x": [unit() for _ in range(n)], "z": z, "bias": [rng.choice([0.25, 0.5, 0.75]) for _ in range(n)] if null and rng.random() < 0.5 else None,
                "maxiter": rng.choice([1, 2, 5]), "perm": rng.sample(range(k), k), "seed": rng.randrange(10 ** 6),
                "select": rng.random() < 0.25}

    # ------------------------------------------------------------------ GMM histories
    def _run_gmmh(self, c):
        from scipy import stats
        from nipy.algorithms.clustering import gmm as G
        d, k, full = c["d"], c["k"], c["full"]
        pt = "full" if full else "diag"
        x = np.array(c["x"], dtype=float).reshape(-1, d); n = x.shape[0]
        snap = Snapshot(x=x)
        np.random.seed(c["seed"])
        g = G.GMM(k, d, pt)
        g.guess_regularizing(x)
        lines, impl, fail = [], [], None
        tags = ["gmmh", pt]

        def density(obj):
            prec = np.asarray(obj.precisions, dtype=float)
            cov = [np.linalg.inv(prec[j]) if full else np.diag(1.0 / prec[j]) for j in range(k)]
            return np.array([stats.multivariate_normal(obj.means[j], cov[j], allow_singular=True).pdf(x).reshape(n)
                             for j in range(k)]).T * np.asarray(obj.weights, dtype=float)

        def check_like(obj, what):
            lk = obj.likelihood(x)
            try:
                ref = density(obj)
            except (np.linalg.LinAlgError, ValueError):
                return None                                  # fitted precision is singular: no density
            if not np.allclose(lk, ref, rtol=1e-6, atol=1e-280):
                return f"GMM.likelihood after {what} is not the mixture density of the current parameters"
            return None

        for op in c["ops"]:
            if fail:
                break
            if op == "estimate":
                avs, nm = [], [0]
                oe, om = g._Estep, g._Mstep

                def est(xx):
                    l = oe(xx)
                    avs.append(float(np.mean(np.log(np.maximum(np.sum(l, 1), TINY)))))
                    return l

                def mst(xx, l):
                    nm[0] += 1
                    return om(xx, l)
                g._Estep, g._Mstep = est, mst
                try:
                    b = g.estimate(x, niter=c["niter"], delta=c["delta"])
                finally:
                    del g._Estep, g._Mstep
                lines.append(f"K em {fr(c['delta'])} {len(avs)} {frs(avs)}")
                impl.append(("int", nm[0]))
                if c["delta"] >= 0 and any(b2 < a2 for a2, b2 in zip(avs[:nm[0]], avs[1:nm[0]])):
                    fail = "GMM.estimate accepted an E-step that decreased the average log-likelihood"
                if math.isfinite(b) is False:
                    fail = fail or f"GMM.estimate returned bic = {b!r}"
            elif op == "initialize":
                g.initialize(x)
            elif op == "update":
                l = g._Estep(x)
                g.update(x, l)
                g2 = G.GMM(k, d, pt); g2.guess_regularizing(x); g2._Mstep(x, l)
                if not (np.allclose(g2.means, g.means) and np.allclose(g2.precisions, g.precisions)):
                    fail = "GMM.update differs from _Mstep"
            elif op in ("train", "initialize_and_estimate"):
                best = getattr(g, op)(x, niter=c["niter"], delta=c["delta"], ninit=c["ninit"])
                fail = fail or check_like(best, op + " (returned model)")
                if fail is None and c["ninit"] == 1 and not (np.array_equal(best.means, g.means) and np.array_equal(best.weights, g.weights)):
                    fail = f"{op}(ninit=1) does not return the fitted parameters"
            elif op == "plugin":
                g.plugin(np.array(g.means) + 0.5, np.array(g.precisions) * 2.0, np.ones(k) / k)
            elif op == "guess_regularizing":
                g.guess_regularizing(x)
            elif op == "test":
                tv = g.test(x)
                if not np.allclose(tv, np.log(np.maximum(g.mixture_likelihood(x), TINY))):
                    fail = "GMM.test is not log max(mixture_likelihood, tiny)"
            elif op == "average_log_like":
                av = g.average_log_like(x)
                if abs(av - float(np.mean(g.test(x)))) > 1e-12 * (1 + abs(av)):
                    fail = "GMM.average_log_like is not the mean of GMM.test"
            elif op in ("evidence", "bic"):
                lk = g.likelihood(x)
                bv = float(g.bic(lk)) if op == "bic" else float(g.evidence(x))
                L = float(np.sum(np.log(np.maximum(np.sum(lk, 1), TINY))))
                lines.append(f"K bic {pt} {k} {d} {fr(L)} {fr(float(np.log(n)))}")
                impl.append(("rats", [bv], 1e-12, 1e-12))
            elif op == "map_label":
                z = g.map_label(x)
                lk = g.likelihood(x)
                if np.any(lk[np.arange(n), z] < lk.max(1)):
                    fail = "GMM.map_label is not the arg-max"
            elif op == "_Estep":
                if not np.array_equal(g._Estep(x), g.likelihood(x)):
                    fail = "GMM._Estep differs from likelihood"
            elif op == "rescale_inplace":
                sc = np.array([[2.0, 0.5, 4.0, 0.25][(c["seed"] + j) % 4] for j in range(d)])
                P = np.asarray(g.precisions)
                if full:
                    P /= np.outer(sc, sc)
                else:
                    P /= sc ** 2
                M = np.asarray(g.means); M *= sc
            elif op == "shift_inplace":
                M = np.asarray(g.means); M += 0.75
            elif op == "prec_item":
                P = np.asarray(g.precisions)
                P[0] = (np.eye(d) if full else np.ones(d)) * [0.5, 2.0, 3.0][c["seed"] % 3]
            elif op == "weights_inplace":
                W = np.asarray(g.weights); W[:] = W[::-1].copy()
            if fail is None and np.all(np.isfinite(np.asarray(g.precisions, dtype=float))):
                fail = check_like(g, op)
                w = np.asarray(g.weights, dtype=float)
                if fail is None and (w.min() < 0 or abs(w.sum() - 1) > 1e-9):
                    fail = f"GMM weights {w.tolist()} left the simplex after {op}"
            tags.append("op=" + op)
        return {"lines": lines, "impl": impl, "oracle": fail, "nontrivial": k >= 2 or d >= 2, "tags": sorted(set(tags)),
                "mutated": snap.changed()}

    # ------------------------------------------------------------------ gamma-Gaussian histories
    def _run_ggh(self, c):
        from nipy.algorithms.clustering import ggmixture as gg
        x = np.array(c["x"], dtype=float); n = x.size
        z2 = np.array(c["z2"], dtype=float); z3 = np.array(c["z3"], dtype=float)
        a = float(c["a"])
        snap = Snapshot(x=x, z2=z2, z3=z3)
        lines, impl, fail = [], [], None
        tags = ["ggh"]
        haspos = bool((x > 0).any())
        with np.errstate(all="ignore"), contextlib.redirect_stdout(io.StringIO()) as out:
            # --- M-steps for given memberships
            G = gg.GGM()
            G.Mstep(x, z2)
            lines.append(f"K ggm {n} {fr(TINY)} {fr(float(G.shape))} {_mat(x)} {_mat(z2)}")
            impl.append(("rats", [float(G.mean), float(G.var), float(G.mixt), float(G.scale)], 1e-9, 1e-12))
            Ga = gg.GGM(); Ga.Mstep(a * x, z2)
            if not (np.isclose(Ga.mean, a * G.mean, rtol=1e-9, atol=1e-12) and np.isclose(Ga.var, a * a * G.var, rtol=1e-9)
                    and np.isclose(Ga.mixt, G.mixt) and np.isclose(Ga.shape, G.shape, rtol=1e-4)
                    and np.isclose(Ga.scale, (a * G.scale) if (haspos and z2[x > 0, 0].sum() > 0) else G.scale, rtol=1e-4)):
                fail = f"GGM.Mstep is not equivariant under the rescaling x -> {a}·x"
            G3 = gg.GGGM()
            G3.Mstep(x, z3)
            lines.append(f"K gggm {n} {fr(TINY)} {fr(float(G3.shape_n))} {fr(float(G3.shape_p))} {_mat(x)} {_mat(z3)}")
            impl.append(("rats", [float(v) for v in G3.mixt] + [float(G3.mean), float(G3.var), float(G3.scale_n), float(G3.scale_p)],
                         1e-9, 1e-12))
            m3 = np.asarray(G3.mixt, dtype=float)
            if fail is None and (m3.min() < 0 or abs(m3.sum() - 1) > 1e-12):
                fail = f"GGGM.Mstep: mixing proportions {m3.tolist()} are not on the simplex"
            if fail is None and z3[:, 1].sum() >= TINY:
                Gt = gg.GGGM(); Gt.Mstep(x + c["t"], z3)
                if not (np.isclose(Gt.mean, G3.mean + c["t"], rtol=1e-9, atol=1e-9) and np.isclose(Gt.var, G3.var, rtol=1e-7, atol=1e-12)):
                    fail = "GGGM.Mstep: the Gaussian component does not follow a translation of the data"
            # --- estimation histories on one object
            if fail is None and haspos:
                E = gg.GGM()
                L = E.estimate(x, niter=c["niter"])
                E.parameters()
                if np.isfinite(E.var) and E.var > 1e-6 and np.isfinite(E.scale) and E.scale > 0:
                    z, _ = E.Estep(x)
                    fail = _simplex_fail("GGM.Estep after estimate", z)
                    p = np.array(E.posterior(x)).T
                    if fail is None and not np.allclose(p[:, ::-1], z, atol=1e-9):
                        fail = "GGM.posterior and Estep disagree after estimate"
                else:
                    tags.append("gg-degenerate")
            if fail is None and not haspos:
                E = gg.GGM()
                E.estimate(x)
                if E.mixt != 0 or not np.isclose(E.mean, x.mean()):
                    fail = "GGM.estimate on all-negative data is not the Gaussian fit"
                tags.append("all-negative")
            if fail is None and haspos and (x < 0).any():
                E3 = gg.GGGM()
                E3.init(x, mixt=np.array([1.0, 2.0, 1.0]))
                if abs(np.sum(E3.mixt) - 1) > 1e-12:
                    fail = "GGGM.init: mixing proportions do not sum to one"
                z = E3.estimate(x, niter=c["niter"], bias=c["bias"], gaussian_mix=c["gmix"])
                E3.parameters()
                ok = all(np.isfinite(v) and v > 1e-9 for v in (E3.var, E3.scale_n, E3.scale_p, E3.shape_n, E3.shape_p))
                if ok:
                    fail = fail or _simplex_fail("GGGM.estimate memberships", z)
                    mm = np.asarray(E3.mixt, dtype=float)
                    if fail is None and (mm.min() < -1e-12 or abs(mm.sum() - 1) > 1e-9):
                        fail = f"GGGM.estimate: mixing proportions {mm.tolist()} are not on the simplex"
                    pz = np.array(E3.posterior(x)).T
                    if fail is None and not np.allclose(pz, E3.Estep(x)[0], atol=1e-9):
                        fail = "GGGM.posterior and Estep disagree after estimate"
                else:
                    tags.append("gg-degenerate")
                F = gg.GGGM(mixt=np.array([1.0, 1.0, 1.0]) / 3)
                F.init_fdr(x, dof=c["dof"])
                mm = np.asarray(F.mixt, dtype=float)
                if fail is None and abs(mm.sum() - 1) > 1e-9:
                    fail = f"GGGM.init_fdr: mixing proportions {mm.tolist()} do not sum to one"
                tags.append("init_fdr")
            if fail is None and haspos:
                xp = x[x > 0]
                Gm = gg.Gamma()
                Gm.estimate(xp)
                Gm.parameters()
                Gm2 = gg.Gamma(); Gm2.estimate(a * xp)
                if not (np.isclose(Gm2.shape, Gm.shape, rtol=1e-4) and np.isclose(Gm2.scale, a * Gm.scale, rtol=1e-4)):
                    fail = "Gamma.estimate is not scale equivariant"
                if not np.isclose(Gm.shape * Gm.scale, xp.mean(), rtol=1e-9):
                    fail = fail or "Gamma.estimate: shape·scale is not the sample mean"
                try:
                    Gm.check(x)
                    refused = False
                except ValueError:
                    refused = True
                if refused != bool(x.min() < 0):
                    fail = fail or "Gamma.check does not refuse exactly the data with negative values"
        return {"lines": lines, "impl": impl, "oracle": fail, "nontrivial": True, "tags": tags, "mutated": snap.changed()}

    # ------------------------------------------------------------------ von Mises-Fisher histories
    def _run_vmfh(self, c):
        from nipy.algorithms.clustering import von_mises_fisher_mixture as V
        k, null, kap = c["k"], c["null"], float(c["precision"])
        x = np.array(c["x"], dtype=float); n = x.shape[0]
        z = np.array(c["z"], dtype=float); K = z.shape[1]
        snap = Snapshot(x=x, z=z)
        lines, impl, fail = [], [], None
        tags = ["vmfh"] + (["null"] if null else [])
        vm = V.VonMisesMixture(k, kap, null_class=null)
        vm.estimate_weights(z)
        lines.append(f"K vmfw {n} {K} {_mat(z)}")
        impl.append(("rats", np.asarray(vm.weights, dtype=float).tolist(), 1e-12, 0.0))
        w = np.asarray(vm.weights, dtype=float)
        if w.min() < 0 or abs(w.sum() - 1) > 1e-12:
            fail = f"estimate_weights: {w.tolist()} not on the simplex"
        zc = z[:, 1:] if null else z
        raw = zc.T @ x
        nrm = np.sqrt(np.sum(raw ** 2, 1))
        if nrm.min() > 1e-9:
            vm.estimate_means(x, zc)
            lines.append(f"K vmfm {n} {k} {_mat(zc)} {_mat(x)}")
            impl.append(("rats", (vm.means * nrm[:, None]).ravel().tolist(), 1e-9, 1e-12))
            if fail is None and not np.allclose(np.sum(vm.means ** 2, 1), 1, atol=1e-12):
                fail = "estimate_means: means are not on the unit sphere"
            p = list(c["perm"])
            v2 = V.VonMisesMixture(k, kap, null_class=null)
            v2.estimate_means(x, zc[:, p])
            if fail is None and not np.allclose(v2.means, vm.means[p], atol=1e-12):
                fail = "estimate_means: relabelling does not permute the means"
            if c["bias"] is not None:
                b = float(c["bias"][0])
                r = z[0]
                lines.append(f"K bias {K} {fr(b)} {frs(r.tolist())}")
                zz = r.copy(); zz[0] *= (1 - b); zz[1:] *= b; zz /= zz.sum()
                impl.append(("rats", zz.tolist(), 1e-12, 0.0))
            # estimation history on one object
            np.random.seed(c["seed"])
            e = V.VonMisesMixture(k, kap, null_class=null)
            bias = None if c["bias"] is None else np.array(c["bias"], dtype=float)
            try:
                ll = e.estimate(x, maxiter=c["maxiter"], bias=bias)
                ok = True
            except AssertionError:
                ok = False
                tags.append("vmf-nan-assert")
            if ok:
                r = e.responsibilities(x)
                fail = fail or _simplex_fail("VonMisesMixture.responsibilities after estimate", r)
                ww = np.asarray(e.weights, dtype=float)
                if fail is None and (ww.min() < 0 or abs(ww.sum() - 1) > 1e-9):
                    fail = f"estimate: weights {ww.tolist()} left the simplex"
                if fail is None and not np.allclose(np.sum(e.means ** 2, 1), 1, atol=1e-9):
                    fail = "estimate: means left the unit sphere"
                if fail is None and not math.isfinite(float(ll)):
                    fail = "estimate: returned average log-density is not finite"
            if c["select"] and ok and n >= 6:
                np.random.seed(c["seed"])
                best = V.select_vmm([1, 2], kap, null, x, ninit=2, bias=bias, maxiter=3)
                r = best.responsibilities(x)
                fail = fail or _simplex_fail("select_vmm: responsibilities of the selected model", r)
                cv = np.arange(n) % 2
                best2 = V.select_vmm_cv([1, 2], kap, x, null, cv, ninit=2, maxiter=3, bias=bias)
                fail = fail or _simplex_fail("select_vmm_cv: responsibilities of the selected model", best2.responsibilities(x))
                s, area = V.sphere_density(8)
                if fail is None and not np.allclose(np.sum(s ** 2, 1), 1):
                    fail = "sphere_density: points are not on the unit sphere"
                tags.append("select")
        else:
            tags.append("zero-resultant")
        return {"lines": lines, "impl": impl, "oracle": fail, "nontrivial": k >= 2, "tags": tags, "mutated": snap.changed()}
