"""C13 translators: tables regenerated from /repo's *text* into lean/NipyVerif/Gen/C13Tables.lean.

  * `methods`: for the Bayesian mixture classes (BGMM, VBGMM, IMM) and every method of their API
    (resolved through the MRO, calls `self.m(...)` / `Base.m(self, ...)` inlined in source order):
    does it write `self.precisions` / `self.prior_scale`, and is the last thing it does to the cached
    determinant `_detp` (resp. `_dets`, `_inv_prior_scale`) a re-computation from that source?
  * `segPpmCopied`: does `Segmentation.__init__` copy the caller's `ppm`?
  * `mapDefaultMaskAllTrue`: is the default mask of `map_from_ppm` the all-true spatial mask?
  * `ngb6`, `ngb26`: neighbourhood tables of mrf.c.

The theorems of Props/C13B.lean / C13S.lean about cache coherence, aliasing and the default mask are
stated over these generated definitions, so they are re-checked against what the code says now.
"""
from __future__ import annotations

import ast
import os
import re

from harness.core import REPO, TieBroken

CLUST = "nipy/algorithms/clustering"
SEG = "nipy/algorithms/segmentation"

#: GMM readers + `plugin` that belong to the API of every Bayesian class even when inherited
INHERITED_API = ["plugin", "check", "check_x", "likelihood", "unweighted_likelihood", "unweighted_likelihood_",
                 "mixture_likelihood", "map_label", "average_log_like", "test", "bic"]
BAYES = {"BGMM": ["BGMM", "GMM"], "VBGMM": ["VBGMM", "BGMM", "GMM"], "IMM": ["IMM", "BGMM", "GMM"]}
SOURCES = {"precisions": "_detp", "prior_scale": "_dets"}


def _parse(rel):
    p = os.path.join(REPO, rel)
    try:
        return ast.parse(open(p).read())
    except Exception as e:                               # noqa: BLE001
        raise TieBroken(f"{rel} does not parse: {e}")


def _classes():
    out = {}
    for rel in (f"{CLUST}/gmm.py", f"{CLUST}/bgmm.py", f"{CLUST}/imm.py"):
        for node in _parse(rel).body:
            if isinstance(node, ast.ClassDef):
                out[node.name] = {f.name: f for f in node.body if isinstance(f, ast.FunctionDef)}
    for c in ("GMM", "BGMM", "VBGMM", "IMM"):
        if c not in out:
            raise TieBroken(f"class {c} not found")
    return out


def _self_attr(node):
    """name X if node is `self.X` or a subscript chain of it"""
    while isinstance(node, ast.Subscript):
        node = node.value
    if isinstance(node, ast.Attribute) and isinstance(node.value, ast.Name) and node.value.id == "self":
        return node.attr
    return None


def _mentions(expr, fn, attr=None):
    has_fn = any(isinstance(n, ast.Call) and ((isinstance(n.func, ast.Name) and n.func.id == fn) or
                                               (isinstance(n.func, ast.Attribute) and n.func.attr == fn))
                 for n in ast.walk(expr))
    has_attr = attr is None or any(_self_attr(n) == attr for n in ast.walk(expr) if isinstance(n, ast.Attribute))
    return has_fn and has_attr


class _Events(ast.NodeVisitor):
    """events of one method body in source order, calls on self inlined"""

    def __init__(self, classes, receiver, stack):
        self.classes, self.receiver, self.stack = classes, receiver, stack
        self.ev = []

    def _resolve(self, chain, name):
        for c in chain:
            if name in self.classes.get(c, {}):
                return c, self.classes[c][name]
        return None, None

    def _inline(self, chain, name):
        c, fn = self._resolve(chain, name)
        if fn is None or (c, name) in self.stack or len(self.stack) > 12:
            return
        sub = _Events(self.classes, self.receiver, self.stack + [(c, name)])
        for st in fn.body:
            sub.visit(st)
        self.ev += sub.ev

    def _target(self, tgt, value):
        if isinstance(tgt, (ast.Tuple, ast.List)):
            for t in tgt.elts:
                self._target(t, value)
            return
        a = _self_attr(tgt)
        if a is None:
            return
        if a in SOURCES:
            self.ev.append(("w", a))
        elif a == "_detp":
            self.ev.append(("c+" if value is not None and _mentions(value, "detsh", "precisions") else "c-", a))
        elif a == "_dets":
            self.ev.append(("c+" if value is not None and _mentions(value, "detsh") else "c-", a))
        elif a == "_inv_prior_scale":
            self.ev.append(("c+" if value is not None and _mentions(value, "inv") else "c-", a))

    def visit_Assign(self, node):
        self.visit(node.value)
        for t in node.targets:
            self._target(t, node.value)

    def visit_AugAssign(self, node):
        self.visit(node.value)
        self._target(node.target, None)

    def visit_AnnAssign(self, node):
        if node.value is not None:
            self.visit(node.value)
            self._target(node.target, node.value)

    def visit_Call(self, node):
        for a in node.args:
            self.visit(a)
        for k in node.keywords:
            self.visit(k.value)
        f = node.func
        if isinstance(f, ast.Attribute) and isinstance(f.value, ast.Name):
            if f.value.id == "self":
                self._inline(BAYES[self.receiver], f.attr)
            elif f.value.id in self.classes and node.args and isinstance(node.args[0], ast.Name) \
                    and node.args[0].id == "self":
                chain = BAYES[self.receiver]
                if f.value.id in chain:
                    self._inline(chain[chain.index(f.value.id):], f.attr)

    def visit_FunctionDef(self, node):       # nested defs / lambdas are not executed here
        return

    visit_Lambda = visit_FunctionDef


def method_table():
    classes = _classes()
    rows = []
    for cls, chain in BAYES.items():
        names = set(INHERITED_API)
        for c in chain[:-1]:
            names |= set(classes[c])
        for name in sorted(names):
            ev = _Events(classes, cls, [])
            c, fn = ev._resolve(chain, name)
            if fn is None:
                continue
            ev.stack = [(c, name)]
            for st in fn.body:
                ev.visit(st)

            def last_fresh(src, cache):
                rel = [e for e in ev.ev if e == ("w", src) or e[1] == cache]
                return bool(rel) and rel[-1][0] == "c+"
            rows.append(dict(cls=cls, name=name, owner=c,
                             wPrec=("w", "precisions") in ev.ev, rDetp=last_fresh("precisions", "_detp"),
                             wPScale=("w", "prior_scale") in ev.ev, rDets=last_fresh("prior_scale", "_dets"),
                             rIps=last_fresh("prior_scale", "_inv_prior_scale")))
    if not any(r["cls"] == "BGMM" and r["name"] == "plugin" for r in rows):
        raise TieBroken("no `plugin` reachable on BGMM")
    return rows


def seg_flags():
    tree = _parse(f"{SEG}/segmentation.py")
    cls = next((n for n in tree.body if isinstance(n, ast.ClassDef) and n.name == "Segmentation"), None)
    init = next((f for f in (cls.body if cls else []) if isinstance(f, ast.FunctionDef) and f.name == "__init__"), None)
    if init is None:
        raise TieBroken("Segmentation.__init__ not found")
    copied = None
    for node in ast.walk(init):
        if isinstance(node, ast.If) and ast.unparse(node.test) == "mu is None":
            for st in node.body:
                if isinstance(st, ast.Assign) and _self_attr(st.targets[0]) == "ppm":
                    v = st.value
                    if isinstance(v, ast.Call) and isinstance(v.func, ast.Attribute):
                        nocopy = any(k.arg == "copy" and ast.unparse(k.value) in ("False", "None") for k in v.keywords)
                        if v.func.attr in ("array", "copy") and not nocopy:
                            copied = True
                        elif v.func.attr in ("asarray", "ascontiguousarray", "asanyarray", "array", "reshape", "view"):
                            copied = False
                    elif isinstance(v, ast.Name):
                        copied = False
    if copied is None:
        raise TieBroken("Segmentation.__init__: the `mu is None` branch does not assign self.ppm in a known shape")
    fn = next((n for n in tree.body if isinstance(n, ast.FunctionDef) and n.name == "map_from_ppm"), None)
    if fn is None:
        raise TieBroken("map_from_ppm not found")
    alltrue = False
    found = False
    for node in ast.walk(fn):
        if isinstance(node, ast.If) and ast.unparse(node.test) == "mask is None":
            for st in node.body:
                if isinstance(st, ast.Assign) and isinstance(st.targets[0], ast.Name) and st.targets[0].id == "mask":
                    found = True
                    txt = ast.unparse(st.value).replace(" ", "")
                    alltrue = txt in ("np.ones(ppm.shape[0:-1],dtype=bool)", "np.ones(ppm.shape[:-1],dtype=bool)",
                                      "np.ones(ppm.shape[0:-1],dtype='bool')", "np.ones(x.shape,dtype=bool)")
    if not found:
        raise TieBroken("map_from_ppm: default mask assignment not found")
    body = [ast.unparse(s).replace(" ", "") for s in fn.body]
    if not any(b == "x[mask]=ppm[mask].argmax(-1)+1" for b in body) or \
            not any(b.startswith("x=np.zeros(ppm.shape[0:-1],dtype='uint8')") for b in body):
        raise TieBroken("map_from_ppm: body is not `x = zeros(uint8); x[mask] = ppm[mask].argmax(-1) + 1`")
    return copied, alltrue


def ngb_tables(expected):
    try:
        src = open(os.path.join(REPO, f"{SEG}/mrf.c")).read()
    except OSError as e:
        raise TieBroken(f"cannot read mrf.c: {e}")
    out = {}
    for name, ref in expected.items():
        m = re.search(r"int\s+" + name + r"\s*\[\]\s*=\s*\{([^}]*)\}", src)
        if not m:
            raise TieBroken(f"mrf.c: table {name} not found")
        vals = [int(t) for t in re.findall(r"-?\d+", m.group(1))]
        if len(vals) % 3:
            raise TieBroken(f"mrf.c: table {name} is not a list of triples")
        out[name] = [tuple(vals[i:i + 3]) for i in range(0, len(vals), 3)]
        if out[name] != list(ref):
            raise TieBroken(f"mrf.c: table {name} differs from the model's table")
    if not re.search(r"if\s*\(\(pos\s*<\s*0\)\s*\|\|\s*\(pos\s*>=\s*u0\)\)\s*continue;", src):
        raise TieBroken("mrf.c make_edges: the neighbour test is not `(pos < 0) || (pos >= u0)`")
    if not re.search(r"if\s*\(\(pos\s*<\s*0\)\s*\|\|\s*\(pos\s*>\s*posmax\)\)\s*continue;", src):
        raise TieBroken("mrf.c _ngb_integrate: the neighbour test is not `(pos < 0) || (pos > posmax)`")
    return out


def lean_text(expected_ngb):
    rows = method_table()
    copied, alltrue = seg_flags()
    ngb = ngb_tables(expected_ngb)
    b = lambda v: "true" if v else "false"
    lines = ["/- GENERATED by harness/props/c13_tables.py from nipy/algorithms/clustering/{gmm,bgmm,imm}.py,",
             "   nipy/algorithms/segmentation/{segmentation.py,mrf.c}.  Do not edit. -/",
             "namespace NipyVerif.Gen.C13",
             "/-- one API method of a Bayesian mixture class: which parameter it writes and whether the cache",
             "    derived from that parameter is re-computed afterwards -/",
             "structure Meth where",
             "  cls : String", "  name : String", "  core : Bool", "  wPrec : Bool", "  rDetp : Bool", "  wPScale : Bool",
             "  rDets : Bool", "  rIps : Bool",
             "def methods : List Meth := ["]
    lines.append(",\n".join(
        f'  ⟨"{r["cls"]}", "{r["name"]}", {b(r["cls"] in ("BGMM", "VBGMM"))}, {b(r["wPrec"])}, {b(r["rDetp"])}, {b(r["wPScale"])}, {b(r["rDets"])}, {b(r["rIps"])}⟩'
        for r in rows) + "]")
    lines.append(f"def segPpmCopied : Bool := {b(copied)}")
    lines.append(f"def mapDefaultMaskAllTrue : Bool := {b(alltrue)}")
    for name, tab in ngb.items():
        lines.append(f"def {name} : List (Int × Int × Int) := [" + ", ".join(f"({x}, {y}, {z})" for x, y, z in tab) + "]")
    lines.append("end NipyVerif.Gen.C13")
    return "\n".join(lines) + "\n"


if __name__ == "__main__":
    for r in method_table():
        print(r)
    print(seg_flags())
