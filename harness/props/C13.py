"""C13 — mixture-model densities and posteriors are exact and equivariant.

Correspondence (Lean model `NipyVerif.Model.C13`, exact rationals):
  * exponents of `GMM.unweighted_likelihood_`, `unweighted_likelihood` (full / diag) and of
    `bgmm.normal_eval` (log 2π and log det B are parameters: the floats the code computed);
  * `likelihood` weighting, `mixture_likelihood`, `pop`, `map_label`, memberships of
    GGM/GGGM `Estep` and `VonMisesMixture.responsibilities`;
  * `guess_regularizing` + `_Mstep` (full and diagonal): weights, means, covariances;
  * `ve_step` of mrf.c (re-compiled from the tree under test), the exponential transform as a table
    whose consistency with the model's own neighbourhood energies is checked in `compare`;
  * `map_from_ppm`.
Oracle (property clauses on the real code): densities vs independent formulas (scipy.stats,
closed forms, quadrature), "integrates to one", simplex of every membership array incl. far
outliers, arg-max, label / translation / per-axis scale equivariance of the parameter updates.
"""
from __future__ import annotations

import ctypes
import math
import os
import re
import warnings

import numpy as np

from harness.core import REPO, PropertyCheck, TieBroken
from harness.props import c13_expr, c13_tables
from harness.props.c13_bayes import BayesMixin
from harness.props.c13_misc import MiscMixin
from harness.props.c13_seg import SegMixin, c_ve_step, ve_sim   # noqa: F401  (C glue on the rebuilt mrf.c)
from harness.util import Snapshot, close, fr, frs, parse_rats

TINY_GMM = 1.e-15
NGB6 = [(1, 0, 0), (-1, 0, 0), (0, 1, 0), (0, -1, 0), (0, 0, 1), (0, 0, -1)]
NGB26 = [(1, 0, 0), (-1, 0, 0), (0, 1, 0), (0, -1, 0), (1, 1, 0), (-1, -1, 0), (1, -1, 0), (-1, 1, 0),
         (1, 0, 1), (-1, 0, 1), (0, 1, 1), (0, -1, 1), (1, 1, 1), (-1, -1, 1), (1, -1, 1), (-1, 1, 1),
         (1, 0, -1), (-1, 0, -1), (0, 1, -1), (0, -1, -1), (1, 1, -1), (-1, -1, -1), (1, -1, -1),
         (-1, 1, -1), (0, 0, 1), (0, 0, -1)]
NGB = {6: NGB6, 26: NGB26}
VE_TINY = 1e-300


def _dy(rng, lo, hi, den=4):
    """dyadic number in [lo, hi] with denominator `den`"""
    return rng.randint(int(lo * den), int(hi * den)) / den


def _simplex(rng, k):
    w = [rng.choice([1, 1, 2, 3, 5, 8]) for _ in range(k)]
    s = sum(w)
    return [x / s for x in w]


def _spd(rng, d):
    """L Lᵀ · s with a dyadic lower-triangular L (positive diagonal): exactly representable SPD"""
    L = np.zeros((d, d))
    for i in range(d):
        for j in range(i):
            L[i, j] = _dy(rng, -1, 1, 4)
        L[i, i] = rng.choice([0.5, 1.0, 1.5, 2.0])
    return (L @ L.T) * rng.choice([0.25, 1.0, 1.0, 4.0])


def _mat(a):
    return " ".join(fr(v) for v in np.asarray(a, dtype=float).ravel().tolist())


def _relerr(a, b):
    a = np.asarray(a, dtype=float); b = np.asarray(b, dtype=float)
    if a.shape != b.shape:
        return np.inf
    if not (np.all(np.isfinite(a)) and np.all(np.isfinite(b))):
        return np.inf
    if a.size == 0:
        return 0.0
    return float(np.max(np.abs(a - b) / (1e-300 + np.maximum(np.abs(a), np.abs(b)))))


def _abs_scaled(a, b, floor=0.0):
    """max abs difference relative to the largest magnitude of the arrays (or `floor`, the size of
    the terms whose cancellation produced them)"""
    a = np.asarray(a, dtype=float); b = np.asarray(b, dtype=float)
    if a.shape != b.shape or not (np.all(np.isfinite(a)) and np.all(np.isfinite(b))):
        return np.inf
    if a.size == 0:
        return 0.0
    return float(np.max(np.abs(a - b)) / max(1e-300, floor, float(np.max(np.abs(a))), float(np.max(np.abs(b)))))


def _cov_err(C, Cexp, full):
    """error of covariance entries relative to sqrt(C_ii C_jj) (full) or to the entry (diag)"""
    C = np.asarray(C, dtype=float); Cexp = np.asarray(Cexp, dtype=float)
    if C.shape != Cexp.shape or not (np.all(np.isfinite(C)) and np.all(np.isfinite(Cexp))):
        return np.inf, (0,)
    if full:
        dg = np.sqrt(np.abs(np.einsum("kii->ki", Cexp)))
        sc = dg[:, :, None] * dg[:, None, :] + 1e-300
    else:
        sc = np.abs(Cexp) + 1e-300
    e = np.abs(C - Cexp) / sc
    j = np.unravel_index(np.argmax(e), e.shape)
    return float(e[j]), tuple(int(v) for v in j)


INT_RANGES = {"int8": (-128, 127), "uint8": (0, 255), "int16": (-2 ** 15, 2 ** 15 - 1), "uint16": (0, 2 ** 16 - 1),
              "int32": (-2 ** 31, 2 ** 31 - 1), "uint32": (0, 2 ** 32 - 1), "int64": (-2 ** 63, 2 ** 63 - 1)}
LAYOUTS = ["C", "F", "strided", "neg", "readonly", "T"]


def _pick_presentation(rng, xs, allow_f32):
    """the same numbers in another dtype / memory layout: returns (rows, dtype, layout); integer dtypes
    round the rows to integers first and are chosen among those that hold every value"""
    if rng.random() < 0.55:
        return xs, "float64", "C"
    layout = rng.choice(LAYOUTS)
    r = rng.random()
    if r < 0.3:
        return xs, "float64", layout if layout != "C" else "F"
    if r < 0.45 and allow_f32:
        return xs, "float32", layout
    xi = [[float(round(v)) for v in row] for row in xs]
    if rng.random() < 0.3:
        xi = [[abs(v) for v in row] for row in xi]        # non-negative data: unsigned dtypes become eligible
    lo = min(min(row) for row in xi); hi = max(max(row) for row in xi)
    fits = [dt for dt, (a, b) in INT_RANGES.items() if a <= lo and hi <= b]
    return xi, rng.choice(fits), layout


def _present(x, dtype="float64", layout="C"):
    """array with the values of the float64 matrix `x`, stored as `dtype` in `layout`"""
    a = np.array(x, dtype=dtype)
    if not np.array_equal(a.astype(float), x):
        raise ValueError(f"presentation {dtype} does not hold the values exactly")
    if layout == "F":
        a = np.asfortranarray(a)
    elif layout == "strided":
        big = np.full((2 * a.shape[0] + 1, 2 * a.shape[1] + 1), 77, dtype=a.dtype)
        big[1::2, 1::2] = a
        a = big[1::2, 1::2]
    elif layout == "neg":
        a = a[::-1, ::-1].copy()[::-1, ::-1]
    elif layout == "T":
        a = np.ascontiguousarray(a.T).T
    elif layout == "readonly":
        a = a.copy()
        a.setflags(write=False)
    return a


def _simplex_fail(name, z, atol=1e-9):
    z = np.asarray(z, dtype=float)
    if not np.all(np.isfinite(z)):
        i = int(np.argwhere(~np.isfinite(z))[0][0])
        return f"{name}: non-finite membership in row {i}: {z[i].tolist()}"
    if z.min() < 0:
        return f"{name}: negative membership {z.min()}"
    s = z.sum(-1)
    j = int(np.argmax(np.abs(s - 1)))
    if abs(s.ravel()[j] - 1) > atol:
        return f"{name}: memberships of row {j} sum to {float(s.ravel()[j])!r}, not 1 (row {z.reshape(-1, z.shape[-1])[j].tolist()})"
    return None


class C13(PropertyCheck, BayesMixin, SegMixin, MiscMixin):
    id = "C13"
    title = "Mixture-model densities and posteriors are exact and equivariant"
    lean_modules = ["NipyVerif.Props.C13", "NipyVerif.Props.C13B", "NipyVerif.Props.C13S",
                    "NipyVerif.Props.C13K", "NipyVerif.Props.C13G", "NipyVerif.Props.C13E",
                    "NipyVerif.Props.C13D"]
    driver = "Drivers/C13.lean"
    rule = ("cases are (model family, parameters, data) tuples from a seeded PRNG: dims 1..4, 1..6 components, "
            "dyadic means/data, exactly representable SPD or positive diagonal precisions, simplex weights, "
            "far outliers, zero likelihood rows, empty components / empty classes of a hard labelling, explicit or "
            "guessed normal-Wishart priors, the same data as float32 / signed and unsigned integers / Fortran, strided, "
            "negative-stride, transposed and read-only arrays (gmm, mstep, gg cases), masks with border voxels, every grid shape up to 4x4x2 for make_edges "
            "(thorough), operation histories on ONE object (BGMM / VBGMM / IMM / MixedIMM / GMM / GGM / GGGM / "
            "VonMisesMixture / Segmentation / BrainT1Segmentation) with an observation after every call; "
            "non-trivial = at least 2 components or 2 dimensions, a non-uniform initial map, a history of >= 2 calls, "
            "or a grid with at least one neighbour pair; distinct by full JSON")
    assumptions = [
        "log 2π, log det B (eigvalsh / log of the diagonal) and k^(2/d) are parameters of the model: the floats "
        "the implementation computed are passed as exact dyadic rationals; exp is applied by the harness",
        "normalising constants, 'integrates to one', gamma and von Mises-Fisher densities are transcendental: "
        "checked numerically by the oracle against scipy.stats, closed forms and quadrature (rtol 1e-7 / 1e-6); of the "
        "Wishart / Dirichlet / KL helpers the algebraic skeleton is modelled (gammaln, psi, log det and matrix "
        "inverses enter as tables / parameters evaluated by the harness with the same scipy functions)",
        "the exponential transform of ve_step is a table parameter of the model; compare() checks every entry "
        "against exp(-2β·energy) with the model's own exact neighbourhood energy",
        "final pinv / reciprocal of the fitted covariance of GMM._Mstep is inverted back numerically; for the "
        "Bayesian updates the matrix handed to `inv` is captured, so the posterior inverse scale is compared exactly",
        "M-step / vm_step equivariance theorems for soft memberships assume each class population is at least the "
        "regulariser (np.maximum(pop, tiny), nonzero(P.sum())); for hard labellings (Gibbs update) there is no such "
        "hypothesis: empty classes are covered",
        "random draws of BGMM.update_* (Dirichlet / Wishart / normal) are outside the model: the parameters of the "
        "conditional posterior they are drawn from are captured by wrapping generate_Wishart / generate_normals / "
        "np.random.dirichlet; an un-patched run with a fixed seed checks equivariance of the actual draws",
        "the cache state machine abstracts determinants and inverses as uninterpreted functions; its transition "
        "table (which API method writes precisions / prior_scale and recomputes _detp / _dets / _inv_prior_scale "
        "afterwards) is regenerated from the text of gmm.py / bgmm.py / imm.py on every run; inherited EM entry "
        "points of GMM on a BGMM (_Mstep, estimate, train) are outside that API table",
        "the Cython glue _segmentation.pyx cannot be rebuilt: its argument checks are replicated in Python and the C "
        "functions of mrf.c (ve_step, make_edges, interaction_energy) are called through ctypes on the re-compiled source",
        "source expressions are regenerated for a generic element (component k, axis j, sample i): np.reshape / .T / "
        "subscripts are read as layout only, the listed np.dot / np.sum shapes as finite sums, `x[z == k]` sums as sums "
        "weighted by the 0/1 membership; np.log / np.exp / gammaln are named leaves (Rat terms) or Mathlib's functions "
        "(real terms); a statement shape the translator does not know is a broken tie",
        "results are functions of the numbers, not of their presentation: data handed over as float32 / (u)int8..64, "
        "Fortran / strided / negative-stride / transposed / read-only arrays must give what C-contiguous float64 gives "
        "(oracle; float32 data are not presented to guess_regularizing, which averages in the data's own precision)",
        "gamma shape estimates (_psi_solve), vMF mean normalisation (sqrt) and the digamma terms of VBGMM._Estep are "
        "parameters; kmeans initialisations are run with a fixed NumPy seed",
    ]
    level_note = ("proved: agreement of the quadratic-form implementations, simplex of memberships (mixtures, both "
                  "ve_step branches, vMF, gamma-Gaussian, IMM weights, converted tissue maps), arg-max (map_label, "
                  "map_from_ppm with both mask options, binarize_ppm), label/translation/scale equivariance of _Mstep, of "
                  "the conjugate normal-Wishart update for every hard labelling, of VBGMM._Mstep and of vm_step, cache "
                  "coherence after any operation history, make_edges memory safety and completeness, ownership of the "
                  "caller's ppm, KL(p||p) = 0; diagonal-precision component and mixture densities: the expression of "
                  "unweighted_likelihood_ (regenerated from the source) is a product of Mathlib normal densities and "
                  "integrates to one over R^d for every d (Props/C13G; full precision only for d = 1); gamma-Gaussian "
                  "mixtures: _gaus_dens / _gam_dens / GGM.posterior regenerated from the source as real terms ARE Mathlib's "
                  "normal and gamma densities, each integrates to one and so does the two-class mixture, posterior "
                  "memberships sum to one (Props/C13D; np.log / np.exp / np.sqrt / gammaln read as the mathematical "
                  "functions); *_from_source (Props/C13E): pop, _Mstep (weights, means, both covariance branches), "
                  "guess_regularizing, bic, BGMM.update_weights / update_means / update_precisions, normal_eval, "
                  "dirichlet_eval, dkl_gaussian, IMM.update_weights, GGM / GGGM Mstep and the right-hand side of the gamma "
                  "shape equation are regenerated statement by statement from the source as Lean terms and proved equal "
                  "to the model's definitions; numeric only: Wishart / Dirichlet / von Mises-Fisher normalising "
                  "constants, full-precision Gaussian integral for d >= 2, special-function values, GGGM three-class integral")
    finding_keys = {}

    # ---- tie (a): constants transcribed from mrf.c -------------------------
    def translators(self):
        p = os.path.join(REPO, "nipy/algorithms/segmentation/mrf.c")
        try:
            src = open(p).read()
        except OSError as e:
            raise TieBroken(f"cannot read mrf.c: {e}")
        m = re.search(r"#define\s+TINY\s+(\S+)", src)
        if not m or float(m.group(1)) != VE_TINY:
            raise TieBroken("mrf.c: TINY differs from the model parameter 1e-300")
        txt = c13_tables.lean_text({"ngb6": NGB6, "ngb26": NGB26})
        from harness import cshim
        cshim.build("segmentation")      # once, in the parent: workers then only dlopen the cached library
        return [("NipyVerif/Gen/C13Tables.lean", txt), ("NipyVerif/Gen/C13Like.lean", self._like_source()),
                ("NipyVerif/Gen/C13Expr.lean", c13_expr.lean_text()),
                ("NipyVerif/Gen/C13Dens.lean", c13_expr.dens_text())]

    @staticmethod
    def _like_source():
        """the statements of `GMM.unweighted_likelihood_` (per-component loop body), as source text: the
        real-analysis theorems of Props/C13G.lean are about exactly these expressions"""
        import ast
        path = os.path.join(REPO, "nipy/algorithms/clustering/gmm.py")
        try:
            tree = ast.parse(open(path).read())
        except Exception as e:        # noqa: BLE001
            raise TieBroken(f"gmm.py does not parse: {e}")
        fn = next((n for n in ast.walk(tree) if isinstance(n, ast.FunctionDef) and n.name == "unweighted_likelihood_"), None)
        if fn is None:
            raise TieBroken("GMM.unweighted_likelihood_ not found")
        loop = next((n for n in fn.body if isinstance(n, ast.For)), None)
        if loop is None or ast.unparse(loop.iter) != "range(self.k)":
            raise TieBroken("unweighted_likelihood_: the loop over components is not `for k in range(self.k)`")
        stmts = []

        def walk(body, ctx):
            for st in body:
                if isinstance(st, ast.If):
                    walk(st.body, ctx + [ast.unparse(st.test)])
                    walk(st.orelse, ctx + ["not (" + ast.unparse(st.test) + ")"])
                elif isinstance(st, ast.Expr) and isinstance(st.value, ast.Constant):
                    continue
                else:
                    stmts.append((" and ".join(ctx), ast.unparse(st)))
        walk(loop.body, [])

        def q(x):
            return '"' + x.replace("\\", "\\\\").replace('"', '\\"') + '"'
        return ("/- GENERATED by harness/props/C13.py from nipy/algorithms/clustering/gmm.py\n"
                "   (`GMM.unweighted_likelihood_`, body of the loop over components).  Do not edit. -/\n"
                "namespace NipyVerif.Gen.C13\n"
                "/-- (branch condition, statement) in source order -/\n"
                "def likeLoop : List (String × String) :=\n  [" +
                ",\n   ".join(f"({q(c)}, {q(t)})" for c, t in stmts) + "]\n"
                "end NipyVerif.Gen.C13\n")

    # ---- generation ---------------------------------------------------------
    def generate(self, rng, tier):
        q = tier == "quick"
        n_gmm, n_ms, n_bayes, n_gg, n_vmf, n_ve, n_seg = \
            (300, 300, 120, 120, 60, 200, 30) if q else (4000, 4000, 1200, 1200, 600, 2500, 300)
        n_bconj, n_bvb, n_bhist, n_imm, n_edges, n_map, n_segh, n_brain = \
            (150, 100, 120, 40, 200, 150, 100, 30) if q else (2000, 1200, 1500, 400, 3000, 2000, 1200, 300)
        n_gmmh, n_ggh, n_vmfh = (60, 60, 60) if q else (600, 600, 600)
        cases = []
        for i in range(n_gmm):
            d = rng.choice([1, 1, 2, 2, 3, 4]); k = rng.choice([1, 2, 2, 3, 4, 6])
            if not q and i < 24:                       # exhaustive small domain: every (d, k)
                d, k = 1 + i // 6, 1 + i % 6
            cases.append(self._gen_gmm(rng, d, k))
        for i in range(n_ms):
            d = rng.choice([1, 2, 2, 3, 4]); k = rng.choice([1, 2, 3, 3, 4, 6])
            if not q and i < 24:
                d, k = 1 + i // 6, 1 + i % 6
            cases.append(self._gen_mstep(rng, d, k))
        for _ in range(n_bayes):
            cases.append(self._gen_bayes(rng))
        for _ in range(n_gg):
            cases.append(self._gen_gg(rng))
        for _ in range(n_vmf):
            cases.append(self._gen_vmf(rng))
        for _ in range(n_ve):
            cases.append(self._gen_ve(rng))
        for _ in range(n_seg):
            cases.append(self._gen_seg(rng))
        for i in range(n_bconj):
            if not q and i < 24:                       # exhaustive small domain: every (d, k)
                cases.append(self._gen_bconj(rng, 1 + i // 6, 1 + i % 6))
            else:
                cases.append(self._gen_bconj(rng))
        for _ in range(n_bvb):
            cases.append(self._gen_bvb(rng))
        for _ in range(n_bhist):
            cases.append(self._gen_bhist(rng))
        for _ in range(n_imm):
            cases.append(self._gen_imm(rng))
        for i in range(n_edges):
            if not q and i < 128:                      # every grid shape up to 4x4x2, both systems
                dims = (1 + i % 4, 1 + (i // 4) % 4, 1 + (i // 16) % 2)
                c = self._gen_edges(rng, dims); c["ngb"] = (6, 26)[(i // 32) % 2]; c["layout"] = "C"
                cases.append(c)
            else:
                cases.append(self._gen_edges(rng))
        for _ in range(n_map):
            cases.append(self._gen_mapppm(rng))
        for _ in range(n_segh):
            cases.append(self._gen_segh(rng))
        for _ in range(n_brain):
            cases.append(self._gen_brain(rng))
        for _ in range(n_gmmh):
            cases.append(self._gen_gmmh(rng))
        for _ in range(n_ggh):
            cases.append(self._gen_ggh(rng))
        for _ in range(n_vmfh):
            cases.append(self._gen_vmfh(rng))
        for _ in range(40 if q else 400):
            cases.append(self._gen_binar(rng))
        return cases

    def _gen_gmm(self, rng, d, k):
        full = rng.random() < 0.6
        means = [[_dy(rng, -4, 4, 2) for _ in range(d)] for _ in range(k)]
        if k > 1 and rng.random() < 0.15:
            means[1] = list(means[0])                  # coincident components (ties in the arg-max)
        if full:
            prec = [_spd(rng, d).tolist() for _ in range(k)]
        else:
            prec = [[rng.choice([0.25, 0.5, 1.0, 2.0, 4.0, 16.0]) for _ in range(d)] for _ in range(k)]
        if k > 1 and rng.random() < 0.15:
            prec[1] = prec[0]
        n = rng.choice([1, 2, 3, 5, 8])
        xs = []
        for _ in range(n):
            r = rng.random()
            c = rng.choice(means)
            if r < 0.2:                                # far-away outlier: likelihood underflows
                s = rng.choice([12.0, 40.0, 64.0, 1024.0])
                xs.append([c[j] + rng.choice([-1, 1]) * s for j in range(d)])
            elif r < 0.3:
                xs.append(list(c))                     # exactly at a centre
            else:
                xs.append([c[j] + _dy(rng, -3, 3, 4) for j in range(d)])
        xs, xdt, xlay = _pick_presentation(rng, xs, True)
        return {"kind": "gmm", "d": d, "k": k, "full": full, "means": means, "prec": prec,
                "weights": _simplex(rng, k), "x": xs, "perm": rng.sample(range(k), k),
                "t": [_dy(rng, -8, 8, 2) for _ in range(d)], "grid": rng.random() < 0.35,
                "xdtype": xdt, "xlayout": xlay}

    def _gen_mstep(self, rng, d, k):
        n = rng.choice([max(3, d + 1), 6, 9, 14])
        xs = [[_dy(rng, -6, 6, 4) for _ in range(d)] for _ in range(n)]
        if rng.random() < 0.25:
            xs[rng.randrange(n)] = [rng.choice([-1, 1]) * rng.choice([64.0, 512.0]) for _ in range(d)]
        xs, xdt, xlay = _pick_presentation(rng, xs, False)   # float32 data: guess_regularizing works in float32
        for j in range(d):                             # no constant axis (vx_jj = 0 is outside valid data)
            if len({r[j] for r in xs}) == 1:
                xs[0][j] += 1.0
        mode = rng.choice(["random", "random", "hard", "zero-row", "tiny-row", "empty-comp"])
        like = [[rng.choice([0, 1, 1, 2, 3, 5, 8]) / 8 for _ in range(k)] for _ in range(n)]
        for r in like:
            if sum(r) == 0:
                r[rng.randrange(k)] = 0.5
        if mode == "hard":
            like = [[0.0] * k for _ in range(n)]
            for i in range(n):
                like[i][rng.randrange(k)] = 1.0
        if mode == "zero-row":
            like[rng.randrange(n)] = [0.0] * k         # every component underflowed for this sample
        if mode == "tiny-row":
            like[rng.randrange(n)] = [rng.choice([0.0, 2.0 ** -60, 2.0 ** -70]) for _ in range(k)]
        if mode == "empty-comp" and k > 1:
            j = rng.randrange(k)
            for r in like:
                r[j] = 0.0
                if sum(r) == 0:
                    r[(j + 1) % k] = 0.25
        return {"kind": "mstep", "d": d, "k": k, "full": rng.random() < 0.55, "x": xs, "like": like,
                "mode": mode, "perm": rng.sample(range(k), k), "xdtype": xdt, "xlayout": xlay,
                "llayout": rng.choice(["C", "C", "F", "strided", "readonly", "T"]),
                "t": [_dy(rng, -8, 8, 2) for _ in range(d)],
                "a": [rng.choice([0.25, 0.5, 2.0, 4.0, 3.0, -1.0, 1.0, 10.0]) for _ in range(d)]}

    def _gen_bayes(self, rng):
        d = rng.choice([1, 1, 2, 3, 4])
        return {"kind": "bayes", "d": d,
                "m1": [_dy(rng, -3, 3, 2) for _ in range(d)], "m2": [_dy(rng, -3, 3, 2) for _ in range(d)],
                "x": [_dy(rng, -4, 4, 4) for _ in range(d)],
                "P1": (_spd(rng, d) * rng.choice([1.0, 1.0, 1.0, 2.0 ** -12, 2.0 ** -14])).tolist(),
                "P2": _spd(rng, d).tolist(), "W": _spd(rng, d).tolist(),
                "a1": d + rng.choice([0, 1, 2, 5, 0.5, 3.25]), "a2": d + rng.choice([0, 1, 3, 7, 1.5]),
                "kdir": (kd := rng.choice([2, 2, 3, 5])),
                "alpha1": [rng.choice([0.5, 1.0, 1.5, 2.0, 4.0, 7.5]) for _ in range(kd)],
                "alpha2": [rng.choice([0.5, 1.0, 2.5, 3.0, 6.0]) for _ in range(kd)],
                "w": _simplex(rng, kd)}

    def _gen_gg(self, rng):
        n = rng.choice([2, 4, 7])
        xs = []
        for _ in range(n):
            r = rng.random()
            if r < 0.25:
                xs.append(rng.choice([-1, 1]) * rng.choice([40.0, 60.0, 900.0, 5000.0]))
            elif r < 0.3:
                xs.append(0.0)
            else:
                xs.append(_dy(rng, -6, 9, 8))
        xdt, xlay = "float64", "C"
        if rng.random() < 0.45:                        # the same numbers as float32 / integers / other 1-D layouts
            xlay = rng.choice(["C", "strided", "neg", "readonly"])
            r = rng.random()
            if r < 0.25:
                xdt = "float64" if xlay != "C" else "float32"
            elif r < 0.4:
                xdt = "float32"
            else:
                xs = [float(round(v)) for v in xs]
                if rng.random() < 0.4:
                    xs = [abs(v) for v in xs]
                fits = [dt for dt, (a, b) in INT_RANGES.items() if a <= min(xs) and max(xs) <= b]
                xdt = rng.choice(fits)
        return {"kind": "gg", "x": xs, "xdtype": xdt, "xlayout": xlay,
                "shape": rng.choice([1.0, 1.5, 2.0, 3.0, 5.5, 8.0]), "scale": rng.choice([0.25, 0.5, 1.0, 2.0, 3.0]),
                "shape_n": rng.choice([1.0, 1.25, 2.0, 4.0]), "scale_n": rng.choice([0.5, 1.0, 1.5]),
                "mean": _dy(rng, -2, 2, 4), "var": rng.choice([0.25, 0.5, 1.0, 2.0, 4.0]),
                "mixt": rng.choice([0.125, 0.25, 0.5, 0.75]), "mixt3": _simplex(rng, 3)}

    def _gen_vmf(self, rng):
        k = rng.choice([1, 2, 3, 4, 6])

        def unit():
            while True:
                v = [_dy(rng, -2, 2, 4) for _ in range(3)]
                nrm = math.sqrt(sum(t * t for t in v))
                if nrm > 0.2:
                    return [t / nrm for t in v]
        null = rng.random() < 0.4
        return {"kind": "vmf", "k": k, "precision": rng.choice([0.5, 1.0, 3.0, 10.0, 30.0, 100.0]),
                "means": [unit() for _ in range(k)], "weights": _simplex(rng, k + (1 if null else 0)),
                "null": null, "x": [unit() for _ in range(rng.choice([1, 3, 6]))],
                "perm": rng.sample(range(k), k)}

    def _gen_ve(self, rng):
        X, Y, Z = (rng.choice([1, 2, 3, 3, 4]) for _ in range(3))
        K = rng.choice([1, 2, 2, 3, 4])
        nvox = X * Y * Z
        mask = [1 if rng.random() < rng.choice([1.0, 0.7, 0.4]) else 0 for _ in range(nvox)]
        if not any(mask):
            mask[rng.randrange(nvox)] = 1
        init = rng.choice(["uniform", "uniform", "simplex", "free"])
        ppm = []
        for v in range(nvox):
            if init == "uniform":
                ppm += [1.0 / K if mask[v] else 0.0] * K
            elif init == "simplex":
                ppm += _simplex(rng, K) if (mask[v] or rng.random() < 0.3) else [0.0] * K
            else:
                ppm += [rng.choice([0, 0.25, 0.5, 1.0, 2.0]) for _ in range(K)]
        nm = sum(mask)
        refmode = rng.choice(["simplex", "simplex", "zeros", "free"])
        ref = []
        for _ in range(nm):
            r = rng.random()
            if refmode == "zeros" and r < 0.4:
                ref.append([0.0] * K)                  # TINY branch
            elif refmode == "free":
                ref.append([rng.choice([0, 0.125, 0.5, 1.0, 3.0]) for _ in range(K)])
            else:
                ref.append(_simplex(rng, K))
        if rng.random() < 0.6:
            U = [[0.0 if i == j else 1.0 for j in range(K)] for i in range(K)]
        else:
            U = [[rng.choice([0, 0.5, 1.0, 2.0, 0.25]) for _ in range(K)] for _ in range(K)]
        return {"kind": "ve", "shape": [X, Y, Z], "K": K, "mask": mask, "ppm": ppm, "ref": ref, "U": U,
                "ngb": rng.choice([6, 26]), "beta": rng.choice([0.1, 0.1, 0.5, 1.0, 2.5, 300.0, 1e4]),
                "init": init}

    def _gen_seg(self, rng):
        X, Y, Z = (rng.choice([2, 3, 4]) for _ in range(3))
        K = rng.choice([2, 3, 4]); nch = rng.choice([1, 1, 2])
        nvox = X * Y * Z
        mask = [1 if rng.random() < 0.8 else 0 for _ in range(nvox)]
        if sum(mask) < 2:
            mask = [1] * nvox
        data = [[rng.choice([_dy(rng, 0, 16, 4), _dy(rng, 0, 16, 4), 4096.0, -900.0]) if rng.random() < 0.1
                 else _dy(rng, 0, 16, 4) for _ in range(nch)] for _ in range(nvox)]
        mu = [[_dy(rng, 0, 16, 2) for _ in range(nch)] for _ in range(K)]
        sig = [(_spd(rng, nch) * 2).tolist() for _ in range(K)]
        return {"kind": "seg", "shape": [X, Y, Z], "K": K, "nch": nch, "mask": mask, "data": data, "mu": mu,
                "sigma": sig, "beta": rng.choice([0.0, 0.1, 0.5, 2.0]), "ngb": rng.choice([6, 26]),
                "niters": rng.choice([1, 2, 3])}

    # ---- per case -----------------------------------------------------------
    def run_case(self, case):
        warnings.filterwarnings("ignore")
        np.seterr(all="ignore")
        try:
            return getattr(self, "_run_" + case["kind"])(case)
        except Exception as e:                           # noqa: BLE001
            import traceback
            tb = traceback.extract_tb(e.__traceback__)
            from harness.props.c13_seg import GlueRefusal
            if tb and ("/nipy/" in tb[-1].filename or isinstance(e, GlueRefusal)):   # raised inside the code under test
                return {"lines": [], "impl": [], "nontrivial": True, "tags": [case["kind"], "raised"],
                        "mutated": None,
                        "oracle": f"{case['kind']}: nipy raised {type(e).__name__}: {e} "
                                  f"({os.path.basename(tb[-1].filename)}:{tb[-1].lineno}) on a valid input"}
            raise

    # .... Gaussian mixtures: likelihoods, weighting, memberships, arg-max ....
    def _run_gmm(self, c):
        from scipy import stats
        from nipy.algorithms.clustering.gmm import GMM
        d, k, full = c["d"], c["k"], c["full"]
        means = np.array(c["means"], dtype=float).reshape(k, d)
        prec = np.array(c["prec"], dtype=float).reshape((k, d, d) if full else (k, d))
        w = np.array(c["weights"], dtype=float)
        x64 = np.array(c["x"], dtype=float).reshape(-1, d)
        pres = (c.get("xdtype", "float64"), c.get("xlayout", "C"))
        x = _present(x64, *pres)                        # the same numbers, other dtype / layout
        n = x.shape[0]
        g = GMM(k, d, "full" if full else "diag", means.copy(), prec.copy(), w.copy())
        snap = Snapshot(x=x, means=g.means, prec=g.precisions, w=g.weights)
        lA = g.unweighted_likelihood_(x)
        lB = g.unweighted_likelihood(x)
        wl = g.likelihood(x)
        mix = g.mixture_likelihood(x)
        popv = g.pop(wl)
        z = g.map_label(x)
        mut = snap.changed()
        pres_fail = None
        if pres != ("float64", "C"):                    # the results are a function of the numbers alone
            gr = GMM(k, d, g.prec_type, means.copy(), prec.copy(), w.copy())
            for nm, got, ref_ in (("unweighted_likelihood_", lA, gr.unweighted_likelihood_(x64)),
                                  ("unweighted_likelihood", lB, gr.unweighted_likelihood(x64)),
                                  ("likelihood", wl, gr.likelihood(x64)),
                                  ("mixture_likelihood", mix, gr.mixture_likelihood(x64))):
                if pres_fail is None and not (np.shape(got) == np.shape(ref_) and
                                              np.allclose(got, ref_, rtol=1e-10, atol=1e-300)):
                    pres_fail = (f"GMM.{nm}: data given as {pres[0]} / layout {pres[1]} gives {np.asarray(got).ravel().tolist()}, "
                                 f"the same numbers as C-contiguous float64 give {np.asarray(ref_).ravel().tolist()}")
        x = x64 if pres[0] != "float64" else x          # float64 values for the model lines and derived data
        # model lines
        from scipy.linalg import eigvalsh
        l2 = float(np.log(2 * np.pi))
        comps = []
        for j in range(k):
            ld = float(np.log(eigvalsh(prec[j])).sum()) if full else float(np.sum(np.log(prec[j])))
            comps.append(f"{fr(ld)} {_mat(means[j])} {_mat(prec[j])}")
        body = f"{d} {fr(l2)} {k} {' '.join(comps)} {n} {_mat(x)}"
        lines, impl = [], []
        if full:
            lines += ["ll A " + body, "ll B " + body]
            impl += [("explog", lA.ravel().tolist()), ("explog", lB.ravel().tolist())]
        else:
            lines += ["ll D " + body, "ll D " + body]
            impl += [("explog", lA.ravel().tolist()), ("explog", lB.ravel().tolist())]
        lines.append(f"weight {n} {k} {_mat(lB)} {_mat(w)}")
        impl.append(("rats", wl.ravel().tolist(), 1e-12, 0.0))
        lines.append(f"post {n} {k} {fr(TINY_GMM)} {_mat(wl)}")
        impl.append(("post", mix.tolist(), None, z.tolist(), popv.tolist()))
        # ---- oracle
        fail = pres_fail
        cov = np.array([np.linalg.inv(prec[j]) if full else np.diag(1.0 / prec[j]) for j in range(k)])
        ref = np.array([stats.multivariate_normal(means[j], cov[j], allow_singular=False).pdf(x).reshape(n)
                        for j in range(k)]).T
        for name, l in (("unweighted_likelihood_", lA), ("unweighted_likelihood", lB)):
            if fail is None and not np.allclose(l, ref, rtol=1e-7, atol=1e-290):
                i, j = np.unravel_index(np.argmax(np.abs(l - ref) / (np.abs(ref) + 1e-290)), ref.shape)
                fail = (f"GMM.{name} ({'full' if full else 'diag'}) component {j} at sample {x[i].tolist()}: "
                        f"{l[i, j]!r} but the Gaussian density is {ref[i, j]!r}")
        if fail is None and not np.allclose(lA, lB, rtol=1e-9, atol=1e-300):
            fail = "unweighted_likelihood_ and unweighted_likelihood disagree"
        if fail is None and not np.allclose(mix, (ref * w).sum(1), rtol=1e-7, atol=1e-290):
            fail = f"mixture_likelihood {mix.tolist()} is not Σ w_k N_k = {(ref * w).sum(1).tolist()}"
        if fail is None:
            zmax = wl[np.arange(n), z]
            if np.any(zmax < wl.max(1)):
                fail = f"map_label {z.tolist()} is not the arg-max of the likelihood rows"
        if fail is None:
            if popv.min() < 0 or abs(popv.sum() - n) > 1e-9 * n:
                i = int(np.argmin(wl.sum(1)))
                fail = (f"GMM.pop: memberships of the {n} samples sum to {float(popv.sum())!r}, not {n} "
                        f"(sample {x[i].tolist()} has mixture likelihood {float(wl.sum(1)[i])!r})")
        if fail is None:                                # label equivariance of the density
            p = c["perm"]
            g2 = GMM(k, d, g.prec_type, means[p].copy(), prec[p].copy(), w[p].copy())
            if not np.array_equal(g2.likelihood(x), wl[:, p]):
                fail = "relabelling components does not permute the likelihood columns"
        if fail is None:                                # translation leaves likelihoods unchanged (exact: dyadic)
            t = np.array(c["t"])
            g3 = GMM(k, d, g.prec_type, means + t, prec.copy(), w.copy())
            if not np.allclose(g3.likelihood(x + t), wl, rtol=1e-9, atol=1e-300):
                fail = f"translating data and means by {t.tolist()} changes the likelihood"
        if fail is None and c.get("grid") and d <= 2:   # integrates to one
            sd = np.sqrt(np.array([np.diag(cov[j]) for j in range(k)]))
            lo = (means - 9 * sd).min(0); hi = (means + 9 * sd).max(0)
            m = 6001 if d == 1 else 321
            ax = [np.linspace(lo[j], hi[j], m) for j in range(d)]
            if d == 1:
                pts = ax[0].reshape(-1, 1); cell = (hi[0] - lo[0]) / (m - 1)
            else:
                gx, gy = np.meshgrid(ax[0], ax[1], indexing="ij")
                pts = np.stack([gx.ravel(), gy.ravel()], 1)
                cell = (hi[0] - lo[0]) * (hi[1] - lo[1]) / (m - 1) ** 2
            integral = float(g.mixture_likelihood(pts).sum() * cell)
            # step/σ_min bounded below keeps the Riemann sum of a smooth density accurate to ~1e-6
            smin = sd.min(); step = max((hi - lo) / (m - 1))
            if step < 0.45 * smin and abs(integral - 1) > 1e-5:
                fail = f"mixture density integrates to {integral!r} over ±9σ, not 1"
        tags = ["gmm", "full" if full else "diag", f"d={d}", "x:" + pres[0], "layout:" + pres[1]]
        if (wl.sum(1) < TINY_GMM).any():
            tags.append("underflow-row")
        return {"lines": lines, "impl": impl, "oracle": fail, "nontrivial": k >= 2 or d >= 2,
                "tags": tags, "mutated": mut}

    # .... guess_regularizing + _Mstep ....
    def _run_mstep(self, c):
        from nipy.algorithms.clustering.gmm import GMM
        d, k, full = c["d"], c["k"], c["full"]
        x64 = np.array(c["x"], dtype=float).reshape(-1, d)
        like64 = np.array(c["like"], dtype=float).reshape(-1, k)
        pres = (c.get("xdtype", "float64"), c.get("xlayout", "C"), c.get("llayout", "C"))
        x = _present(x64, pres[0], pres[1])             # the same numbers, other dtype / layout
        like = _present(like64, "float64", pres[2])
        n = x.shape[0]
        pt = "full" if full else "diag"

        def fit(xx, ll, cls=GMM):
            g = cls(k, d, pt) if cls is GMM else cls(k, d)
            if cls is GMM:
                g.guess_regularizing(xx)
            else:
                g.guess_priors(xx)
            g._Mstep(xx, ll)
            if cls is GMM:
                cov = np.array([np.linalg.inv(p) for p in g.precisions]) if full else 1.0 / g.precisions
            else:
                cov = np.array([np.linalg.inv(p) for p in g.scale])
            fitted.append(g)
            return g.weights.copy(), g.means.copy(), cov

        fitted = []
        snap = Snapshot(x=x, like=like)
        W, M, C = fit(x, like)
        g0 = fitted[-1]
        mut = snap.changed()
        cc = float(np.exp(2.0 / d * np.log(k)))
        line = (f"mstep {pt} {n} {d} {k} {fr(cc)} {fr(0.01)} {fr(TINY_GMM)} {_mat(x)} {_mat(like)}")
        # floors: the means / covariances are sums of terms of size |x| / |x|^2 that may cancel to (nearly) zero
        xm = float(np.abs(x64).max()) if x.size else 0.0
        impl = ("sections", [W.tolist(), M.ravel().tolist(), C.ravel().tolist()], 1e-6, [0.0, xm, xm * xm])
        fail = None
        if not (np.all(np.isfinite(W)) and np.all(np.isfinite(M)) and np.all(np.isfinite(C))):
            fail = "_Mstep produced non-finite parameters"
        if fail is None and (W.min() < 0 or abs(W.sum() - 1) > 1e-9):
            fail = f"_Mstep weights {W.tolist()} are not on the simplex"
        a = np.array(c["a"]); t = np.array(c["t"]); p = c["perm"]
        mag = float(np.abs(M).max() + np.abs(t).max()) if np.all(np.isfinite(M)) else 0.0
        if fail is None:
            W2, M2, C2 = fit(x, like[:, p])
            if max(_abs_scaled(W2, W[p]), _abs_scaled(M2, M[p], float(np.abs(x64).max())), _abs_scaled(C2, C[p])) > 1e-9:
                fail = f"_Mstep ({pt}): relabelling components by {p} does not permute the fitted parameters"
        # responsibilities of every sample are positive-summing here, populations >= tiny unless empty-comp
        if fail is None:
            W3, M3, C3 = fit(x + t, like)
            if max(_abs_scaled(W3, W), _abs_scaled(M3, M + t, mag)) > 1e-8 or _cov_err(C3, C, full)[0] > 1e-6:
                fail = (f"_Mstep ({pt}): translating the data by {t.tolist()} gives means {M3.tolist()} "
                        f"(expected {(M + t).tolist()}) / covariances changed by {_abs_scaled(C3, C):.2e}")
        if fail is None:
            W4, M4, C4 = fit(x * a, like)
            Cexp = C * (a[:, None] * a[None, :]) if full else C * a ** 2
            cerr, j = _cov_err(C4, Cexp, full)
            if max(_abs_scaled(W4, W), _abs_scaled(M4, M * a, float(np.abs(x * a).max()))) > 1e-8 or cerr > 1e-6:
                fail = (f"_Mstep ({pt}): rescaling the axes by {a.tolist()} does not rescale the fitted covariance "
                        f"accordingly: entry {j} is {float(C4[j])!r}, expected {float(Cexp[j])!r}")
        if fail is None:                                # memberships under the fitted parameters are unchanged
            l0 = g0.likelihood(x)
            g3, g4 = fitted[2], fitted[3]
            l3 = g3.likelihood(x + t)
            l4 = g4.likelihood(x * a) * float(np.abs(np.prod(a)))
            rows = l0.sum(1) > 1e-200
            for nm, l in (("translating", l3), ("rescaling", l4)):
                if fail is None and rows.any() and not np.allclose(l[rows], l0[rows], rtol=1e-5, atol=1e-280):
                    i = int(np.argmax(np.abs(l[rows] - l0[rows]).sum(1)))
                    fail = (f"_Mstep ({pt}): {nm} the data changes the component likelihoods of sample "
                            f"{x[rows][i].tolist()} under the fitted model: {l[rows][i].tolist()} vs {l0[rows][i].tolist()}")
        tags = ["mstep", pt, "mode=" + c["mode"], "x:" + pres[0], "layout:" + pres[1], "like-layout:" + pres[2]]
        if fail is None and pres != ("float64", "C", "C"):   # the fit is a function of the numbers alone
            Wr, Mr, Cr = fit(x64, like64)
            if max(_abs_scaled(Wr, W), _abs_scaled(Mr, M, xm), _abs_scaled(Cr, C, xm * xm)) > 1e-9:
                fail = (f"_Mstep ({pt}): data given as {pres[0]} / layout {pres[1]} (likelihood layout {pres[2]}) gives weights "
                        f"{W.tolist()}, means {M.tolist()}, covariances {C.ravel().tolist()}; the same numbers as "
                        f"C-contiguous float64 give {Wr.tolist()}, {Mr.tolist()}, {Cr.ravel().tolist()}")
        if fail is None and full:                       # VBGMM._Mstep (oracle only)
            from nipy.algorithms.clustering.bgmm import VBGMM
            sl = like.sum(1)
            if sl.min() > 0:
                r = (like.T / sl).T
                try:
                    Wv, Mv, Cv = fit(x, r, VBGMM)
                    Wv2, Mv2, Cv2 = fit(x * a + t, r, VBGMM)
                    Wv3, Mv3, Cv3 = fit(x, r[:, p], VBGMM)
                    if max(_abs_scaled(Wv2, Wv), _abs_scaled(Mv2, Mv * a + t, float(np.abs(Mv * a).max() + np.abs(t).max()))) > 1e-8 or \
                            _cov_err(Cv2, Cv * (a[:, None] * a[None, :]), True)[0] > 1e-6:
                        fail = "VBGMM._Mstep is not equivariant under per-axis affine maps of the data"
                    elif max(_abs_scaled(Wv3, Wv[p]), _abs_scaled(Mv3, Mv[p]), _abs_scaled(Cv3, Cv[p])) > 1e-9:
                        fail = "VBGMM._Mstep: relabelling components does not permute the fitted parameters"
                    tags.append("vbgmm")
                except np.linalg.LinAlgError:
                    tags.append("vbgmm-singular")
        return {"lines": [line], "impl": [impl], "oracle": fail, "nontrivial": k >= 2 or d >= 2,
                "tags": tags, "mutated": mut}

    # .... Normal / Wishart / Dirichlet densities and KL divergences ....
    def _run_bayes(self, c):
        from scipy import stats, special as sp, integrate
        from scipy.linalg import eigvalsh
        from nipy.algorithms.clustering import bgmm
        d = c["d"]
        m1 = np.array(c["m1"]); m2 = np.array(c["m2"]); x = np.array(c["x"])
        P1 = np.array(c["P1"]).reshape(d, d); P2 = np.array(c["P2"]).reshape(d, d)
        Wm = np.array(c["W"]).reshape(d, d)
        a1, a2 = float(c["a1"]), float(c["a2"])
        al1 = np.array(c["alpha1"]); al2 = np.array(c["alpha2"]); w = np.array(c["w"])
        snap = Snapshot(m1=m1, m2=m2, x=x, P1=P1, P2=P2, W=Wm, al1=al1, al2=al2, w=w)
        fail = None
        tags = ["bayes", f"d={d}"]
        # normal_eval: model line + scipy
        ne = bgmm.normal_eval(m2, P2, x)
        ld = float(math.log(bgmm.detsh(P2)))
        line = (f"ll N {d} {fr(float(math.log(2 * math.pi)))} 1 {fr(ld)} {_mat(m2)} {_mat(P2)} 1 {_mat(x)}")
        refn = float(stats.multivariate_normal(m2, np.linalg.inv(P2)).pdf(x))
        if not close(ne, refn, 1e-7, 1e-300):
            fail = f"normal_eval = {ne!r}, Gaussian density is {refn!r}"
        # wishart_eval
        n_w = a1 + 1                                    # dof > d - 1 with margin
        if fail is None:
            we = bgmm.wishart_eval(n_w, P2, Wm)
            refw = float(stats.wishart(df=n_w, scale=P2).pdf(Wm))
            if not close(we, refw, 1e-7, 1e-300):
                fail = f"wishart_eval(n={n_w}) = {we!r}, Wishart density is {refw!r}"
        # dirichlet_eval
        if fail is None:
            de = bgmm.dirichlet_eval(w, al1)
            refd = float(stats.dirichlet(al1).pdf(w))
            if not close(de, refd, 1e-7, 1e-300):
                fail = f"dirichlet_eval = {de!r}, Dirichlet density is {refd!r}"
        # dkl_gaussian: closed form with slogdet of the covariances
        if fail is None:
            S1 = np.linalg.inv(P1); S2 = np.linalg.inv(P2)
            ld1 = float(np.sum(np.log(eigvalsh(S1)))); ld2 = float(np.sum(np.log(eigvalsh(S2))))
            ref = 0.5 * (ld2 - ld1 - d + np.trace(P2 @ S1) + (m1 - m2) @ P2 @ (m1 - m2))
            got = float(bgmm.dkl_gaussian(m1, P1, m2, P2))
            if not close(got, ref, 1e-7, 1e-9):
                fail = (f"dkl_gaussian = {got!r} but KL(N(m1,P1^-1)||N(m2,P2^-1)) = {float(ref)!r} "
                        f"(det P1 = {float(np.linalg.det(P1))!r})")
            if np.linalg.det(P1) < 1e-15:
                tags.append("small-det")
        # dkl_dirichlet: quadrature for 2 classes, self-divergence and Gibbs' inequality otherwise
        if fail is None:
            got = float(bgmm.dkl_dirichlet(al1, al2))
            zero = float(bgmm.dkl_dirichlet(al1, al1))
            if abs(zero) > 1e-9:
                fail = f"dkl_dirichlet(a, a) = {zero!r}"
            elif got < -1e-9:
                fail = f"dkl_dirichlet = {got!r} is negative"
            elif len(al1) == 2 and min(al1.min(), al2.min()) >= 1.0:
                p = stats.beta(al1[0], al1[1]); q = stats.beta(al2[0], al2[1])
                ref, _ = integrate.quad(lambda u: p.pdf(u) * (p.logpdf(u) - q.logpdf(u)), 0, 1, limit=200)
                if not close(got, ref, 1e-6, 1e-7):
                    fail = f"dkl_dirichlet({al1.tolist()}, {al2.tolist()}) = {got!r}, quadrature gives {ref!r}"
        # dkl_wishart(a1, B1, a2, B2): density ∝ |Γ|^((a-d-1)/2) exp(-tr(BΓ)/2), i.e. Wishart(df=a, scale=B^-1)
        if fail is None:
            B1, B2 = P2, Wm
            got = float(bgmm.dkl_wishart(a1 + 1, B1, a2 + 1, B2))
            q = stats.wishart(df=a1 + 1, scale=np.linalg.inv(B1))
            aq, ap = a1 + 1, a2 + 1
            elog = float(np.sum(sp.psi((aq - np.arange(d)) / 2)) + d * math.log(2) - np.sum(np.log(eigvalsh(B1))))
            lzp = float(ap * d / 2 * math.log(2) - ap / 2 * np.sum(np.log(eigvalsh(B2)))
                        + d * (d - 1) / 4 * math.log(math.pi) + np.sum(sp.gammaln((ap - np.arange(d)) / 2)))
            e_logp = -lzp + (ap - d - 1) / 2 * elog - aq / 2 * float(np.trace(B2 @ np.linalg.inv(B1)))
            ref = -float(q.entropy()) - e_logp
            if not close(got, ref, 1e-6, 1e-7):
                fail = (f"dkl_wishart({aq}, B1, {ap}, B2) = {got!r} but KL = -H(q) - E_q[log p] = {ref!r}"
                        + (" (negative divergence)" if got < -1e-9 else ""))
        kl, ki, kfail = self.kl_lines(c, bgmm, m1, P1, m2, P2, Wm, a1, a2, al1, al2, w)
        fail = fail or kfail
        return {"lines": [line] + kl, "impl": [("explog", [ne])] + ki, "oracle": fail, "nontrivial": d >= 2,
                "tags": tags, "mutated": snap.changed()}

    # .... gamma-Gaussian mixtures ....
    def _run_gg(self, c):
        from scipy import stats, integrate
        from nipy.algorithms.clustering import ggmixture as gg
        x64 = np.array(c["x"], dtype=float)
        pres = (c.get("xdtype", "float64"), c.get("xlayout", "C"))
        x = _present(x64.reshape(-1, 1), *pres)[:, 0]    # the same numbers, other dtype / 1-D layout
        if pres[1] == "readonly":
            x.setflags(write=False)
        n = x.size
        fail = None
        G = gg.GGM(c["shape"], c["scale"], c["mean"], c["var"], c["mixt"])
        G3 = gg.GGGM(c["shape_n"], c["scale_n"], c["mean"], c["var"], c["shape"], c["scale"],
                     np.array(c["mixt3"]))
        snap = Snapshot(x=x)
        gd = gg._gam_dens(c["shape"], c["scale"], x)
        nd = gg._gaus_dens(c["mean"], c["var"], x)
        refg = stats.gamma(c["shape"], scale=c["scale"]).pdf(x64)
        refg[x64 <= 0] = 0.0
        refn = stats.norm(c["mean"], math.sqrt(c["var"])).pdf(x64)
        if not np.allclose(gd, refg, rtol=1e-7, atol=1e-290):
            fail = f"_gam_dens(shape={c['shape']}, scale={c['scale']}) = {gd.tolist()}, gamma density {refg.tolist()}"
        elif not np.allclose(nd, refn, rtol=1e-7, atol=1e-290):
            fail = f"_gaus_dens = {nd.tolist()}, normal density {refn.tolist()}"
        ng, y, pg = G3.component_likelihood(x)
        refng = stats.gamma(c["shape_n"], scale=c["scale_n"]).pdf(-x64); refng[x64 >= 0] = 0.0
        if fail is None and not (np.allclose(ng, refng, rtol=1e-7, atol=1e-290) and np.allclose(y, refn, rtol=1e-7, atol=1e-290)
                                 and np.allclose(pg, refg, rtol=1e-7, atol=1e-290)):
            fail = (f"GGGM.component_likelihood(x={x64.tolist()} as {pres[0]}) = {ng.tolist()}, {y.tolist()}, {pg.tolist()} differs "
                    f"from the negative-gamma / normal / gamma densities {refng.tolist()}, {refn.tolist()}, {refg.tolist()}")
        # integrates to one
        if fail is None:
            sd = math.sqrt(c["var"])
            f2 = lambda u: float(c["mixt"] * gg._gam_dens(c["shape"], c["scale"], np.array([u]))[0]
                                 + (1 - c["mixt"]) * gg._gaus_dens(c["mean"], c["var"], np.array([u]))[0])
            m3 = G3.mixt
            f3 = lambda u: float(sum(m * v[0] for m, v in zip(m3, G3.component_likelihood(np.array([u])))))
            hi = c["scale"] * (c["shape"] + 40 * math.sqrt(c["shape"]) + 40)
            lo = -c["scale_n"] * (c["shape_n"] + 40 * math.sqrt(c["shape_n"]) + 40)
            pts = sorted({0.0, c["mean"], c["mean"] - 3 * sd, c["mean"] + 3 * sd,
                          c["scale"] * max(c["shape"] - 1, 0), -c["scale_n"] * max(c["shape_n"] - 1, 0)})
            i2 = sum(integrate.quad(f2, a_, b_, limit=200)[0]
                     for a_, b_ in zip([min(lo, c["mean"] - 12 * sd)] + pts, pts + [max(hi, c["mean"] + 12 * sd)]))
            i3 = sum(integrate.quad(f3, a_, b_, limit=200)[0]
                     for a_, b_ in zip([min(lo, c["mean"] - 12 * sd)] + pts, pts + [max(hi, c["mean"] + 12 * sd)]))
            if abs(i2 - 1) > 1e-6:
                fail = f"GGM mixture density integrates to {i2!r}"
            elif abs(i3 - 1) > 1e-6:
                fail = f"GGGM mixture density integrates to {i3!r}"
        z2, _ = G.Estep(x)
        z3, _ = G3.Estep(x)
        p2 = np.array(G.posterior(x)).T                 # columns (gaussian, gamma)
        p3 = np.array(G3.posterior(x)).T
        mut = snap.changed()
        if fail is None:
            fail = (_simplex_fail(f"GGM.Estep(x={x.tolist()})", z2) or _simplex_fail(f"GGGM.Estep(x={x.tolist()})", z3)
                    or _simplex_fail(f"GGM.posterior(x={x.tolist()})", p2)
                    or _simplex_fail(f"GGGM.posterior(x={x.tolist()})", p3))
        if fail is None and not (np.allclose(p2[:, ::-1], z2, atol=1e-9) and np.allclose(p3, z3, atol=1e-9)):
            fail = "posterior() and Estep() memberships differ"
        if fail is None and pres != ("float64", "C"):   # the M-step is a function of the numbers alone
            def par(Gm, xx, zz):
                Gm.Mstep(xx, zz)
                names = ("shape", "scale", "mean", "var", "mixt") if isinstance(Gm, gg.GGM) else \
                    ("shape_n", "scale_n", "mean", "var", "shape_p", "scale_p", "mixt")
                return np.hstack([np.ravel(getattr(Gm, a_)) for a_ in names]).astype(float)
            for cls, args, zz in ((gg.GGM, (c["shape"], c["scale"], c["mean"], c["var"], c["mixt"]), z2),
                                  (gg.GGGM, (c["shape_n"], c["scale_n"], c["mean"], c["var"], c["shape"], c["scale"],
                                             np.array(c["mixt3"])), z3)):
                pa, pb = par(cls(*args), x, zz.copy()), par(cls(*args), x64, zz.copy())
                if fail is None and not np.allclose(pa, pb, rtol=1e-6, atol=1e-12):
                    fail = (f"{cls.__name__}.Mstep: data {x64.tolist()} given as {pres[0]} / layout {pres[1]} gives parameters "
                            f"{pa.tolist()}, the same numbers as float64 give {pb.tolist()}")
        wl2 = np.stack([gd * c["mixt"], nd * (1 - c["mixt"])], 1)
        wl3 = np.stack([ng, y, pg], 1) * np.array(c["mixt3"])
        lines = [f"post {n} 2 {fr(TINY_GMM)} {_mat(wl2)}", f"post {n} 3 {fr(TINY_GMM)} {_mat(wl3)}"]
        impl = [("post", None, z2.ravel().tolist(), None, None), ("post", None, z3.ravel().tolist(), None, None)]
        tags = ["gg", "x:" + pres[0], "layout:" + pres[1]] + (["underflow-row"] if (wl2.sum(1) < TINY_GMM).any() or (wl3.sum(1) < TINY_GMM).any() else [])
        return {"lines": lines, "impl": impl, "oracle": fail, "nontrivial": True, "tags": tags, "mutated": mut}

    # .... von Mises-Fisher mixture ....
    def _run_vmf(self, c):
        from nipy.algorithms.clustering.von_mises_fisher_mixture import VonMisesMixture
        k, kap = c["k"], float(c["precision"])
        means = np.array(c["means"]); w = np.array(c["weights"]); x = np.array(c["x"])
        n = x.shape[0]
        vm = VonMisesMixture(k, kap, means=means.copy(), weights=w.copy(), null_class=c["null"])
        snap = Snapshot(x=x, means=vm.means, w=vm.weights)
        dens = vm.density_per_component(x)
        resp = vm.responsibilities(x)
        mixd = vm.mixture_density(x)
        mut = snap.changed()
        fail = None
        ref = kap / (4 * math.pi * math.sinh(kap)) * np.exp(kap * (x @ means.T)) if kap < 500 else None
        if ref is not None:
            if c["null"]:
                ref = np.hstack([np.full((n, 1), 1 / (4 * math.pi)), ref])
            if not np.allclose(dens, ref, rtol=1e-7, atol=1e-300):
                fail = f"density_per_component differs from κ/(4π sinh κ)·exp(κ μ·x): {dens.tolist()} vs {ref.tolist()}"
        if fail is None:                                # integrates to one over the sphere
            u, wu = np.polynomial.legendre.leggauss(160)
            nphi = 320
            phi = (np.arange(nphi) + 0.5) * 2 * math.pi / nphi
            st = np.sqrt(1 - u ** 2)
            pts = np.stack([np.outer(st, np.cos(phi)).ravel(), np.outer(st, np.sin(phi)).ravel(),
                            np.repeat(u, nphi)], 1)
            wts = np.repeat(wu, nphi) * (2 * math.pi / nphi)
            comp = vm.density_per_component(pts)
            ints = (comp * wts[:, None]).sum(0)
            tol = 1e-6 if kap <= 30 else 1e-3
            if np.max(np.abs(ints - 1)) > tol:
                fail = f"von Mises-Fisher component densities integrate to {ints.tolist()} over the sphere"
            elif abs(float((vm.mixture_density(pts) * wts).sum()) - 1) > tol:
                fail = "von Mises-Fisher mixture density does not integrate to one"
        if fail is None:
            fail = _simplex_fail("VonMisesMixture.responsibilities", resp)
        wl = dens * w
        if fail is None and not np.allclose(resp, (wl.T / wl.sum(1)).T, rtol=1e-7, atol=1e-12):
            fail = "responsibilities are not the normalised weighted densities"
        if fail is None and not np.allclose(mixd, wl.sum(1), rtol=1e-12):
            fail = "mixture_density is not the sum of the weighted densities"
        if fail is None:
            p = c["perm"]
            pw = ([0] + [1 + j for j in p]) if c["null"] else p
            vm2 = VonMisesMixture(k, kap, means=means[p].copy(), weights=w[pw].copy(), null_class=c["null"])
            if not np.allclose(vm2.responsibilities(x), resp[:, pw], rtol=1e-9, atol=1e-15):
                fail = "relabelling components does not permute the responsibilities"
        K = wl.shape[1]
        lines = [f"post {n} {K} 0 {_mat(wl)}"]
        impl = [("post", mixd.tolist(), resp.ravel().tolist(), None, None)]
        if wl.sum(1).min() <= 0:
            lines, impl = [], []
        return {"lines": lines, "impl": impl, "oracle": fail, "nontrivial": k >= 2,
                "tags": ["vmf", f"kappa={c['precision']}"], "mutated": mut}

    # .... ve_step of mrf.c ....
    def _run_ve(self, c):
        from nipy.algorithms.segmentation.segmentation import map_from_ppm
        X, Y, Z = c["shape"]; K = c["K"]
        mask = np.array(c["mask"], dtype=bool).reshape(X, Y, Z)
        ppm0 = np.array(c["ppm"], dtype=float).reshape(X, Y, Z, K)
        xs, ys, zs = np.where(mask)
        XYZ = np.zeros((xs.shape[0], 3), dtype=np.intp)
        XYZ[:, 0], XYZ[:, 1], XYZ[:, 2] = xs, ys, zs
        ref = np.ascontiguousarray(np.array(c["ref"], dtype=float).reshape(-1, K))
        U = np.ascontiguousarray(np.array(c["U"], dtype=float).reshape(K, K))
        beta = float(c["beta"]); ngb = int(c["ngb"])
        E = ve_sim(ppm0, ref, XYZ, U, ngb, beta)
        ppm = np.ascontiguousarray(ppm0.copy())
        snap = Snapshot(ref=ref, XYZ=XYZ, U=U)
        c_ve_step(ppm, ref, XYZ, U, ngb, beta)
        mut = snap.changed()
        rows = ppm[mask]
        pts = " ".join(f"{int(XYZ[i, 0])} {int(XYZ[i, 1])} {int(XYZ[i, 2])} {frs(E[i])} {frs(ref[i].tolist())}"
                       for i in range(XYZ.shape[0]))
        line = (f"vestep {X} {Y} {Z} {K} {ngb} {fr(VE_TINY)} {_mat(U)} {_mat(ppm0)} {XYZ.shape[0]} {pts}")
        impl = ("ve", rows.ravel().tolist(), [v for e in E for v in e], beta)
        fail = _simplex_fail(f"ve_step (ngb={ngb}, beta={beta})", rows, atol=1e-12)
        if fail is None and not np.array_equal(ppm[~mask], ppm0[~mask]):
            fail = "ve_step modified voxels outside the mask"
        lines, impls = [line], [impl]
        if fail is None:
            lab = map_from_ppm(ppm, mask)
            want = np.zeros(mask.shape, dtype=int)
            want[mask] = rows.argmax(-1) + 1
            if not np.array_equal(lab, want):
                fail = "map_from_ppm is not 1 + arg-max inside the mask and 0 outside"
            i = 0
            lines.append(f"argmax 1 {K} {frs(rows[i].tolist())}")
            impls.append(("int", int(lab[tuple(XYZ[i])])))
            off = np.argwhere(~mask)
            if off.size:
                lines.append(f"argmax 0 {K} {frs(ppm[tuple(off[0])].tolist())}")
                impls.append(("int", int(lab[tuple(off[0])])))
        tags = ["ve", f"ngb={ngb}", "init=" + c["init"]]
        if any(sum(e[k] * ref[i, k] for k in range(K)) <= VE_TINY for i, e in enumerate(E)):
            tags.append("tiny-branch")
        if mask[0].any() or mask[-1].any():
            tags.append("border")
        return {"lines": lines, "impl": impls, "oracle": fail,
                "nontrivial": K >= 2 and (c["init"] != "uniform" or XYZ.shape[0] > 1), "tags": tags, "mutated": mut}

    # .... Segmentation class end to end (C kernel from the tree under test) ....
    def _run_seg(self, c):
        from nipy.algorithms.segmentation import segmentation as sm
        X, Y, Z = c["shape"]; K = c["K"]; nch = c["nch"]
        mask = np.array(c["mask"], dtype=bool).reshape(X, Y, Z)
        data = np.array(c["data"], dtype=float).reshape((X, Y, Z) if nch == 1 else (X, Y, Z, nch))
        mu = np.array(c["mu"], dtype=float).reshape(K, nch)
        sigma = np.array(c["sigma"], dtype=float).reshape(K, nch, nch)
        old = sm._ve_step
        sm._ve_step = c_ve_step
        fail = None
        try:
            S = sm.Segmentation(data, mask=mask, mu=mu, sigma=sigma, ngb_size=c["ngb"], beta=c["beta"])
            for it in range(c["niters"]):
                nef = S.normalized_external_field()
                fail = fail or _simplex_fail("normalized_external_field", nef, atol=1e-12)
                S.ve_step()
                fail = fail or _simplex_fail(f"Segmentation.ve_step (iteration {it})", S.ppm[mask], atol=1e-12)
                if fail:
                    break
                S.vm_step()
                if not (np.all(np.isfinite(S.mu)) and np.all(np.isfinite(S.sigma))):
                    break                                 # degenerate class: the next field is not defined
                ev = [np.linalg.eigvalsh((sg + sg.T) / 2) for sg in S.sigma]
                if any(e.min() <= 1e-8 * max(1.0, e.max()) for e in ev):
                    break                                 # fitted variance left the SPD domain (too few voxels)
            if fail is None:
                lab = S.map()
                want = np.zeros(mask.shape, dtype=int)
                want[mask] = S.ppm[mask].argmax(-1) + 1
                if not np.array_equal(lab, want):
                    fail = "Segmentation.map is not the arg-max labelling"
        except Exception as e:                           # noqa: BLE001
            fail = f"Segmentation raised {type(e).__name__}: {e}"
        finally:
            sm._ve_step = old
        return {"lines": [], "impl": [], "oracle": fail, "nontrivial": True,
                "tags": ["seg", f"beta={c['beta']}"], "mutated": None}

    # ---- comparison ---------------------------------------------------------
    def compare(self, case, impl_obs, model_out):
        kind = impl_obs[0]
        if model_out.startswith(("error", "bad-op")):
            return f"model says {model_out}"
        if kind == "int":
            return None if str(impl_obs[1]) == model_out.strip() else f"impl={impl_obs[1]} model={model_out}"
        if kind == "str":
            return None if impl_obs[1].strip() == model_out.strip() else \
                f"impl={impl_obs[1][:300]!r} model={model_out[:300]!r}"
        if kind == "hist1":                              # only the `_detp` flag of every step
            mo = " ".join(t[0] for t in model_out.split())
            return None if impl_obs[1].strip() == mo else f"impl={impl_obs[1]!r} model={mo!r}"
        if kind == "explog":
            ws = parse_rats(model_out)
            vals = impl_obs[1]
            if len(ws) != len(vals):
                return f"length impl={len(vals)} model={len(ws)}"
            for i, (v, w) in enumerate(zip(vals, ws)):
                wf = float(w)
                exp = math.exp(wf) if wf > -740 else 0.0
                if not close(v, exp, 1e-8, 1e-300):
                    return f"entry {i}: impl={v!r} exp(model)={exp!r} (exponent {wf!r})"
            return None
        if kind == "rats":
            _, vals, rt, at = impl_obs
            mv = parse_rats(model_out)
            if len(mv) != len(vals):
                return f"length impl={len(vals)} model={len(mv)}"
            for i, (a, b) in enumerate(zip(vals, mv)):
                if not close(a, b, rt, at):
                    return f"entry {i}: impl={a!r} model={float(b)!r}"
            return None
        secs = [parse_rats(s) for s in model_out.split("|")]
        if kind == "post":
            _, mix, resp, z, popv = impl_obs
            if len(secs) != 4:
                return "model output malformed"
            for name, iv, mv, rt, at in (("mixture", mix, secs[0], 1e-12, 0.0), ("memberships", resp, secs[1], 1e-9, 1e-12),
                                         ("pop", popv, secs[3], 1e-9, 1e-9)):
                if iv is None:
                    continue
                if len(iv) != len(mv):
                    return f"{name}: length impl={len(iv)} model={len(mv)}"
                for i, (a, b) in enumerate(zip(iv, mv)):
                    if not close(a, b, rt, at):
                        return f"{name}[{i}]: impl={a!r} model={float(b)!r}"
            if z is not None and [int(v) for v in secs[2]] != [int(v) for v in z]:
                return f"arg-max labels impl={z} model={[int(v) for v in secs[2]]}"
            return None
        if kind == "sections":
            ivs, tol = impl_obs[1], impl_obs[2]
            floors = impl_obs[3] if len(impl_obs) > 3 else [0.0] * len(ivs)   # size of cancelling terms
            if len(secs) != len(ivs):
                return "model output malformed"
            for s, (iv, mv) in enumerate(zip(ivs, secs)):
                if len(iv) != len(mv):
                    return f"section {s}: length impl={len(iv)} model={len(mv)}"
                scale = max([abs(float(v)) for v in mv] + [1e-300, floors[s]])
                for i, (a, b) in enumerate(zip(iv, mv)):
                    if not (math.isfinite(a) and abs(a - float(b)) <= tol * scale):
                        return f"section {s} entry {i}: impl={a!r} model={float(b)!r}"
            return None
        if kind == "ve":
            _, rows, E, beta = impl_obs
            if len(secs) != 2 or len(secs[0]) != len(rows) or len(secs[1]) != len(E):
                return "model output malformed"
            for i, (a, b) in enumerate(zip(rows, secs[0])):
                if not close(a, b, 1e-9, 1e-12):
                    return f"ppm entry {i}: impl={a!r} model={float(b)!r}"
            for i, (e, r) in enumerate(zip(E, secs[1])):
                arg = -2 * beta * float(r)
                want = math.exp(arg) if arg > -745 else 0.0
                if not close(e, want, 1e-9, 1e-320):
                    return f"exp table entry {i}: table={e!r} exp(-2β·energy)={want!r} (model energy {float(r)!r})"
            return None
        return "unknown observation kind"

    # ---- shrinking ----------------------------------------------------------
    def shrink(self, case):
        k = case["kind"]
        if k in ("bconj", "bvb", "bhist", "imm"):
            yield from self.shrink_bayes(case)
            return
        if k in ("edges", "mapppm", "segh", "brain", "binar"):
            yield from self.shrink_seg(case)
            return
        if k in ("gmm", "gg", "vmf") and len(case["x"]) > 1:
            for i in range(len(case["x"])):
                c = dict(case); c["x"] = case["x"][:i] + case["x"][i + 1:]
                yield c
        if k == "gmm" and case.get("grid"):
            c = dict(case); c["grid"] = False
            yield c
        if k == "mstep" and len(case["x"]) > case["d"] + 2:
            for i in range(len(case["x"])):
                c = dict(case)
                c["x"] = case["x"][:i] + case["x"][i + 1:]
                c["like"] = case["like"][:i] + case["like"][i + 1:]
                if all(len({r[j] for r in c["x"]}) > 1 for j in range(case["d"])):
                    yield c
        if k == "seg" and case["niters"] > 1:
            c = dict(case); c["niters"] = case["niters"] - 1
            yield c

    def classify(self, case, failure):
        return None


CHECK = C13()
