"""C05 helper: AR(p) machinery (`ARModel.whiten`, `yule_walker`, `ar_bias_corrector`,
`ar_bias_correct`, `AREstimator`, `ARModel.iterative_fit`), the `axis=` option of the labs GLM
engines on 3-D blocks, and the fMRI GLM classes (`GeneralLinearModel.contrast / get_beta /
get_logL` after an `'ar1'` fit, `data_scaling`, `FMRILinearModel`)."""
from __future__ import annotations

import numpy as np

from harness.util import Snapshot, errname, fr, frs, parse_rats, plist, pmat
from harness.props.c05_results import near, worst, parse_tensor


# ----------------------------------------------------------------------
# generators
# ----------------------------------------------------------------------
def gen_ar(rng, H, tier):
    n = rng.randint(5, 14) if rng.random() < 0.85 else rng.randint(15, 24)
    what = rng.choice(["whiten", "whiten", "yw", "yw", "bias", "iter"])
    p = rng.randint(1, min(3, n - 3))
    order = rng.choice([1, 1, 2, 3])
    order = min(order, n - p - 2) if what in ("bias", "iter") else min(order, n - 2)
    order = max(order, 1)
    X = H._design(rng, n, p, rng.choice(["int", "intercept", "dyadic"]))
    v = rng.choice([1, 2, 3])
    Y = H._data(rng, n, v, rng.choice(["int", "smooth", "smooth", "dyadic"]))
    case = {"kind": "ar", "what": what, "X": X, "Y": Y, "order": order}
    if what == "whiten":
        r = rng.random()
        if r < 0.15:
            case["rho"] = [0.0] * order
        elif r < 0.8:
            case["rho"] = H._pacf_to_ar([rng.randint(-15, 15) / 16.0 for _ in range(order)])
        else:       # outside the stationarity region: the filter is still a filter
            case["rho"] = [rng.randint(-24, 24) / 8.0 for _ in range(order)]
        case["rho_as"] = rng.choice(["list", "array", "int" if not any(case["rho"]) else "list",
                                     "scalar" if order == 1 else "array", "column"])
        case["ab"] = [rng.choice([2.0, -1.0, 0.5, 3.0]), rng.choice([1.0, -2.0, 0.25])]
        case["intdata"] = rng.random() < 0.2
    elif what == "yw":
        case["method"] = rng.choice(["unbiased", "unbiased", "mle", "MLE"])
        case["df"] = None if rng.random() < 0.5 else rng.randint(order + 1, n + 2)
        case["shift"] = float(rng.randint(-5, 5))
        case["intdata"] = rng.random() < 0.25
    elif what == "iter":
        # exact iterates grow fast (the model is exact): keep the problem small
        n = rng.randint(5, 9); p = min(p, 2); order = min(order, 2, n - p - 2)
        case["X"] = H._design(rng, n, p, rng.choice(["int", "intercept"]))
        case["Y"] = H._data(rng, n, v, rng.choice(["int", "smooth"]))
        case["order"] = max(order, 1)
        case["niter"] = rng.choice([1, 2, 2, 3]) if case["order"] == 1 else rng.choice([1, 2])
    case["sel"] = [rng.randrange(v) for _ in range(rng.randint(1, v + 1))]
    return case


def gen_labs3(rng, H, tier):
    n = rng.randint(4, 10)
    p = rng.randint(1, min(3, n - 2))
    axis = rng.choice([0, 1, 2])
    other = [rng.choice([1, 2, 3]), rng.choice([1, 2, 2, 3])]
    shape = other[:]
    shape.insert(axis, n)
    Y3 = np.array([float(rng.randint(-6, 6)) for _ in range(int(np.prod(shape)))]).reshape(shape)
    c = [float(rng.randint(-2, 2)) for _ in range(p)]
    if not any(c):
        c[rng.randrange(p)] = 1.0
    return {"kind": "labs3", "X": H._design(rng, n, p, rng.choice(["int", "intercept", "dyadic"])),
            "Y3": Y3.tolist(), "axis": axis, "c": c, "layout": rng.choice(["C", "C", "F", "moved"])}


def gen_fmri(rng, H, tier):
    n = rng.randint(5, 12)
    p = rng.randint(1, min(3, n - 3))
    v = rng.choice([1, 2, 3, 4, 6])
    Y = H._data(rng, n, v, rng.choice(["int", "smooth", "smooth"]))
    scale = rng.random() < 0.4
    if scale:                      # percent-of-baseline scaling needs non-zero voxel means
        Y = [[y + 64.0 for y in r] for r in Y]
    c = [float(rng.randint(-2, 2)) for _ in range(p)]
    if not any(c):
        c[rng.randrange(p)] = 1.0
    q = rng.randint(1, p)
    Cm = np.eye(p)[rng.sample(range(p), q)]
    grid = rng.choice([(v, 1, 1), (1, v, 1), (2, (v + 1) // 2, 1), (2, 2, (v + 3) // 4)])
    cells = int(np.prod(grid))
    pos = sorted(rng.sample(range(cells), v)) if cells >= v else list(range(v))
    if cells < v:
        grid = (v, 1, 1)
    perm = list(range(v)); rng.shuffle(perm)
    return {"kind": "fmri", "X": H._design(rng, n, p, rng.choice(["int", "intercept", "dyadic"])), "Y": Y,
            "steps": rng.choice([100, 100, 10, 7, 33]), "c": c, "C": Cm.tolist(), "grid": list(grid), "pos": pos,
            "scale": scale, "model": rng.choice(["ar1", "ar1", "ols"]), "perm": perm,
            "colidx": rng.choice([None, rng.randrange(p), [rng.randrange(p) for _ in range(rng.randint(1, p))]])}


# ----------------------------------------------------------------------
# AR(p)
# ----------------------------------------------------------------------
def _rho_arg(case):
    rho = case["rho"]; how = case.get("rho_as", "list")
    if how == "int":
        return int(len(rho))
    if how == "array":
        return np.array(rho, float)
    if how == "scalar":
        return float(rho[0])
    if how == "column":
        return np.array(rho, float)[:, None]
    return list(rho)


def run_ar(H, case):
    from nipy.algorithms.statistics.models import regression as reg
    X = np.array(case["X"], float); Y = np.array(case["Y"], float)
    n, p = X.shape; v = Y.shape[1]
    o = case["order"]; what = case["what"]
    tags = ["ar", "ar:" + what, f"order={o}"]
    ys = max(1.0, float(np.abs(Y).max()))
    snap = Snapshot(X=X, Y=Y)
    fail = None
    lines, impl = [], []

    def done():
        return {"lines": lines, "impl": impl, "oracle": fail, "tags": tags, "mutated": snap.changed(),
                "nontrivial": True}

    try:
        if what == "whiten":
            rho = np.array(case["rho"], float)
            m = reg.ARModel(X, _rho_arg(case))
            A = Y.astype(int) if case.get("intdata") else Y
            Asnap = Snapshot(A=A)
            W = np.asarray(m.whiten(A), float)
            if Asnap.changed():
                fail = "ARModel.whiten modified its argument"
            sc = ys * (1 + float(np.abs(rho).sum()))
            lines.append(f"arw {plist(rho.tolist())} {pmat(np.asarray(A, float))}")
            impl.append(("arw", (list(W.shape), W.ravel().tolist()), {"rtol": 1e-12, "scale": sc}))
            ind = H._whiten_independent({"kind": "ar", "rho": rho.tolist()}, np.asarray(A, float))
            if fail is None and not near(W, ind, 1e-12, sc):
                fail = f"AR({o}) whitening differs from the filter x_t - sum rho_i x_(t-i-1): {worst(W, ind)}"
            if fail is None and not near(m.wdesign, H._whiten_independent({"kind": "ar", "rho": rho.tolist()}, X),
                                         1e-12, max(1.0, float(np.abs(X).max())) * (1 + float(np.abs(rho).sum()))):
                fail = "ARModel.wdesign is not the whitened design"
            a, b = case["ab"]
            Y2 = Y[::-1].copy()
            lin = np.asarray(m.whiten(a * Y + b * Y2), float)
            if fail is None and not near(lin, a * m.whiten(Y) + b * m.whiten(Y2), 1e-11, sc * (abs(a) + abs(b))):
                fail = f"AR({o}) whitening is not linear: whiten({a} A + {b} B) != {a} whiten(A) + {b} whiten(B)"
            w1 = np.asarray(m.whiten(Y[:, 0]), float)
            if fail is None and not near(w1, np.asarray(m.whiten(Y), float)[:, 0], 1e-13, sc):
                fail = "whitening a 1-D series differs from whitening it as a column of a block"
            # invertibility: the whitened series determines the series (unit lower-triangular filter)
            rec = np.zeros_like(Y)
            Wy = np.asarray(m.whiten(Y), float)
            for t in range(n):
                rec[t] = Wy[t] + sum(rho[i] * rec[t - i - 1] for i in range(o) if t - i - 1 >= 0)
            grow = (1 + float(np.abs(rho).sum())) ** min(n, 12)
            if fail is None and not near(rec, Y, 1e-13 * grow, ys):
                fail = "the AR whitening is not inverted by the recursion x_t = w_t + sum rho_i x_(t-i-1)"
            if fail is None and not rho.any():
                r0 = reg.OLSModel(X).fit(Y); r1 = m.fit(Y)
                if not (near(r1.theta, r0.theta, 1e-12, ys) and near(r1.dispersion, r0.dispersion, 1e-12, ys * ys)
                        and near(r1.wresid, r0.wresid, 1e-12, ys) and r1.df_resid == r0.df_resid):
                    fail = f"ARModel of order {o} with zero coefficients does not reproduce OLSModel"
            return done()
        if what == "yw":
            x = Y[:, 0].astype(int) if case.get("intdata") else Y[:, 0].copy()
            xs = Snapshot(x=x)
            method, df = case["method"], case["df"]
            ub = method.lower() == "unbiased"
            xc = np.asarray(x, float) - np.asarray(x, float).mean()
            nE = df or n
            den = [(nE - k) if ub else nE for k in range(o + 1)]
            if any(d == 0 for d in den):
                tags.append("yw-zero-denominator"); return done()
            r = np.array([(xc[:n - k] * xc[k:]).sum() / den[k] for k in range(o + 1)])
            R = np.array([[r[abs(a - b)] for b in range(o)] for a in range(o)])
            if abs(r[0]) < 1e-12 or np.linalg.cond(R) > 1e7:
                tags.append("yw-singular-skipped"); return done()
            with np.errstate(all="ignore"):
                rho, sigma, Rinv = reg.yule_walker(x, o, method=method, df=df, inv=True)
                rho2, sigma2 = reg.yule_walker(x, order=o, method=method, df=df)
            if xs.changed():
                fail = "yule_walker modified its argument"
            cond = float(np.linalg.cond(R)); rt = max(1e-11, 1e-14 * cond)
            lines.append(f"yw {o} {1 if ub else 0} {-1 if df is None else df} {n} {frs(np.asarray(x, float).tolist())}")
            impl.append(("yw", {"rho": np.asarray(rho, float).tolist(), "sigma": float(sigma),
                                "Rinv": np.asarray(Rinv, float).ravel().tolist()},
                         {"rtol": rt, "r0": float(abs(r[0]))}))
            if fail is None and not (near(rho, rho2, 1e-13, 1.0) and (sigma == sigma2 or (np.isnan(sigma) and np.isnan(sigma2)))):
                fail = "yule_walker(inv=True) and yule_walker(inv=False) return different estimates"
            if fail is None and not near(R @ np.asarray(rho), r[1:], 10 * rt, float(np.abs(r).max())):
                fail = (f"yule_walker({method}, df={df}) does not solve the Yule-Walker equations R rho = r: "
                        f"{worst(R @ np.asarray(rho), r[1:])}")
            with np.errstate(all="ignore"):
                rs, ss = reg.yule_walker(np.asarray(x, float) + case["shift"], o, method=method, df=df)
                ra, sa = reg.yule_walker(np.asarray(x, float) * 4.0, o, method=method, df=df)
            if fail is None and not near(rs, rho, 100 * rt, max(1.0, float(np.abs(rho).max()))):
                fail = f"yule_walker changes when a constant is added to the series: {worst(np.asarray(rs), np.asarray(rho))}"
            if fail is None and not near(ra, rho, 100 * rt, max(1.0, float(np.abs(rho).max()))):
                fail = "yule_walker coefficients change when the series is rescaled"
            if fail is None and np.isfinite(sigma) and not near(sa, 4.0 * sigma, 1e4 * rt, float(abs(sigma)) + 1e-9 * ys):
                fail = "yule_walker sigma does not scale with the series"
            for bad, kw in (("2-D input", dict(X=Y)), ("unknown method", dict(X=x, method="ml2"))):
                try:
                    reg.yule_walker(kw.pop("X"), o, **kw)
                    if fail is None:
                        fail = f"yule_walker accepts {bad}"
                except ValueError:
                    pass
            return done()
        if what == "bias":
            res = reg.OLSModel(X).fit(Y)
            invM = np.asarray(reg.ar_bias_corrector(X, res.model.calc_beta, o), float)
            rh = np.asarray(reg.ar_bias_correct(res, o), float)
            rh2 = np.asarray(reg.ar_bias_correct(np.asarray(res.resid), o, invM), float)
            rh3 = np.asarray(reg.AREstimator(res.model, o)(res), float)
            condM = float(np.linalg.cond(invM)) * H._cond(X) ** 2
            rt = max(1e-10, 1e-13 * condM)
            R = np.asarray(res.resid, float)
            lines.append(f"arbias {o} {pmat(X)} {pmat(R)}")
            impl.append(("arbias", {"invM": invM.ravel().tolist(), "rho": rh.reshape(o, v).ravel().tolist()},
                         {"rtol": rt, "o": o, "v": v, "small": bool(np.any((R ** 2).sum(0) < 1e-9 * ys * ys))}))
            if rh.shape != ((o, v) if (o > 1 and v > 1) else ((v,) if o == 1 and v > 1 else ((o,) if v == 1 and o > 1 else ()))):
                fail = f"ar_bias_correct returned shape {rh.shape} for order {o} and {v} voxels"
            # independent evaluation of the bias correction (Worsley et al. 2002, appendix A.1)
            Rm = np.eye(n) - X @ np.linalg.pinv(X)
            Ds = [np.eye(n)] + [np.eye(n, k=i) + np.eye(n, k=-i) for i in range(1, o + 1)]
            Mi = np.array([[np.trace(Rm @ Ds[i] @ Rm @ Ds[j]) / (2.0 if i > 0 else 1.0) for j in range(o + 1)]
                           for i in range(o + 1)])
            lag = np.array([(R[i:] * R[:n - i]).sum(0) for i in range(o + 1)])
            cv = np.linalg.solve(Mi, lag)
            with np.errstate(all="ignore"):
                want = np.where(cv[0] > 0, cv[1:] / np.where(cv[0] > 0, cv[0], 1.0), 0.0)
            if fail is None and not near(invM, np.linalg.inv(Mi), 100 * rt, float(np.abs(invM).max())):
                fail = f"ar_bias_corrector differs from inv(trace(R D_i R D_j)/(1+[i>0])): {worst(invM, np.linalg.inv(Mi))}"
            if fail is None and not bool(np.any((R ** 2).sum(0) < 1e-9 * ys * ys)) and \
                    not near(rh.reshape(o, v), want, 1e3 * rt, 1.0):
                fail = (f"ar_bias_correct (order {o}) differs from the bias-corrected lag covariances computed "
                        f"independently: {worst(rh.reshape(o, v), want)}")
            if fail is None and not (near(rh2, rh, 1e-12, 1.0) and near(rh3, rh, 1e-12, 1.0)):
                fail = "ar_bias_correct(results), ar_bias_correct(resid, invM) and AREstimator disagree"
            small = impl[-1][2]["small"]
            sel = case["sel"]
            if fail is None and not small:
                rsel = np.asarray(reg.ar_bias_correct(reg.OLSModel(X).fit(Y[:, sel]), o), float).reshape(o, len(sel))
                if not near(rsel, rh.reshape(o, v)[:, sel], 100 * rt, 1.0):
                    fail = (f"ar_bias_correct of the voxel selection {sel} differs from the selection of the block: "
                            f"{worst(rsel, rh.reshape(o, v)[:, sel])}")
            if fail is None and not small:
                r1 = np.asarray(reg.ar_bias_correct(reg.OLSModel(X).fit(Y[:, 0]), o), float).reshape(o)
                if not near(r1, rh.reshape(o, v)[:, 0], 100 * rt, 1.0):
                    fail = "ar_bias_correct of a 1-D fit differs from column 0 of the block"
                rsc = np.asarray(reg.ar_bias_correct(np.asarray(res.resid) * 8.0, o, invM), float)
                if not near(rsc, rh, 100 * rt, 1.0):
                    fail = "ar_bias_correct changes when the residuals are rescaled"
            return done()
        # iterative_fit
        y = Y[:, 0].copy()
        niter = case["niter"]
        m = reg.ARModel(X, o)
        try:
            with np.errstate(all="ignore"):
                m.iterative_fit(y, niter=niter)
        except np.linalg.LinAlgError:
            # singular Toeplitz matrix of the residual autocovariances (degenerate series)
            tags.append("iter-degenerate-skipped"); return done()
        rho_f = np.asarray(m.rho, float).copy()
        # the same procedure long-hand (as in the class docstring)
        mm = reg.ARModel(X, o); hist = []
        with np.errstate(all="ignore"):
            for _ in range(niter):
                rr = mm.fit(y)
                rho_k, _ = reg.yule_walker(y - rr.predicted, order=o, df=mm.df_resid)
                hist.append(np.asarray(rho_k, float))
                mm = reg.ARModel(X, rho_k)
        if not np.all(np.isfinite(rho_f)) or float(np.abs(rho_f).max()) > 50:
            tags.append("iter-degenerate-skipped"); return done()
        amp = (1 + float(max(np.abs(h).sum() for h in hist))) ** (2 * niter)
        rt = max(1e-9, 1e-12 * H._cond(X) ** 2 * amp)
        if not near(rho_f, hist[-1], rt, 1.0):
            fail = (f"ARModel.iterative_fit(niter={niter}) gives rho {rho_f.tolist()}, the long-hand procedure "
                    f"(fit, yule_walker, new ARModel) gives {hist[-1].tolist()}")
        lines.append(f"iterfit {o} {niter} {pmat(X)} {pmat(y[:, None])}")
        impl.append(("iterfit", rho_f.tolist(), {"rtol": 100 * rt}))
        # history on one object: a fit after iterative_fit is the fit of ARModel(design, rho)
        res_after = m.fit(y)
        fresh = reg.ARModel(X, rho_f)
        res_fresh = fresh.fit(y)
        wX = np.asarray(fresh.wdesign, float)
        cond = H._cond(wX); rtf = H._rtol(cond)
        if fail is None and not near(m.wdesign, m.whiten(m.design), 1e-12, float(np.abs(wX).max())):
            fail = (f"after ARModel.iterative_fit the model's whitened design is not whiten(design) for its "
                    f"coefficients rho={rho_f.tolist()} (stale pseudo-inverse): a following fit() whitens the data "
                    f"with the new rho and the design with the previous one")
        if fail is None and not near(res_after.theta, res_fresh.theta, 50 * rtf, max(H._bfloor(wX, ys), 1e-12)):
            fail = (f"fit() after iterative_fit gives theta {np.asarray(res_after.theta).tolist()} but "
                    f"ARModel(design, rho).fit gives {np.asarray(res_fresh.theta).tolist()} for the same rho")
        g = np.asarray(m.whiten(X), float).T @ np.asarray(res_after.wresid, float)
        if fail is None and np.abs(g).max() > 1e3 * rtf * n * ys * max(1.0, float(np.abs(wX).max())) * max(1.0, cond):
            fail = "after iterative_fit the whitened residuals are not orthogonal to the whitened design"
        c = [1.0] + [0.0] * (p - 1)
        Cm = np.eye(p)[:1]
        obs = H.CHECK._sections(res_after, X, c, Cm)
        w = {"kind": "ar", "rho": rho_f.tolist()}
        sc = ys * (1 + float(np.abs(rho_f).sum()))
        lines.append(f"fit {pmat(X)} {pmat(y[:, None])} ar {plist(rho_f.tolist())} {frs(c)} {pmat(Cm)}")
        impl.append(("fit", {k: (a.tolist() if isinstance(a, np.ndarray) else a) for k, a in obs.items()},
                     {"rtol": 10 * rtf, "ys": sc, "n": n, "p": p, "v": 1, "cabs": 1.0, "bfloor": H._bfloor(wX, sc)}))
        return done()
    except Exception as e:
        fail = f"AR machinery ({what}, order {o}) raised {type(e).__name__}: {e} (n={n}, p={p}, v={v})"
        lines, impl = [], []
        tags.append("raised")
        return done()


def compare_more(kind, case, obs, meta, model_out):
    if model_out.startswith(("bad-op", "error")):
        return f"impl returned values, model says {model_out[:60]}"
    secs = model_out.split(" | ")
    rt = meta.get("rtol", 1e-9)
    if kind == "arw":
        ts = [parse_tensor(s) for s in secs]
        if len(ts) != 3:
            return f"model returned {len(ts)} sections"
        for name, (sh, data) in zip(("loop", "filter", "matrix"), ts):
            if sh != obs[0]:
                return f"whiten ({name} form): shape impl={obs[0]} model={sh}"
            if not near(np.asarray(obs[1], float), data, rt, meta["scale"]):
                return f"whiten ({name} form): impl/model {worst(np.asarray(obs[1], float), data)}"
        return None
    if kind == "yw":
        if len(secs) != 3:
            return f"model returned {len(secs)} sections"
        rho = np.array([float(x) for x in parse_rats(secs[0])])
        s2 = float(parse_rats(secs[1])[0])
        Ri = np.array([float(x) for x in parse_rats(secs[2])])
        if not near(np.asarray(obs["rho"], float), rho, rt, 1.0):
            return f"yule_walker rho: impl/model {worst(np.asarray(obs['rho'], float), rho)}"
        if not near(np.asarray(obs["Rinv"], float), Ri, rt, 1.0 / max(meta["r0"], 1e-300)):
            return f"yule_walker inv(R): impl/model {worst(np.asarray(obs['Rinv'], float), Ri)}"
        if s2 <= 1e3 * rt * meta["r0"]:
            # sigma^2 is (numerically) zero or negative: sqrt gives nan or a rounding-level number
            ok = np.isnan(obs["sigma"]) or obs["sigma"] ** 2 <= 1e4 * rt * meta["r0"]
            return None if ok else f"yule_walker sigma {obs['sigma']} for sigma^2 {s2}"
        if not near(obs["sigma"] ** 2, s2, 1e3 * rt, meta["r0"]):
            return f"yule_walker sigma^2: impl {obs['sigma'] ** 2!r} model {s2!r}"
        return None
    if kind == "arbias":
        if len(secs) != 3:
            return f"model returned {len(secs)} sections"
        iM = np.array([float(x) for x in parse_rats(secs[1])])
        rh = np.array([float(x) for x in parse_rats(secs[2])])
        if not near(np.asarray(obs["invM"], float), iM, rt, 0.0):
            return f"ar_bias_corrector: impl/model {worst(np.asarray(obs['invM'], float), iM)}"
        if not meta["small"] and not near(np.asarray(obs["rho"], float), rh, 100 * rt, 1.0):
            return f"ar_bias_correct: impl/model {worst(np.asarray(obs['rho'], float), rh)}"
        return None
    if kind == "iterfit":
        last = np.array([float(x) for x in parse_rats(secs[-1])])
        if not near(np.asarray(obs, float), last, rt, 1.0):
            return f"iterative_fit rho: impl {obs} model {last.tolist()}"
        return None
    if kind == "labs3":
        if len(secs) != 2:
            return f"model returned {len(secs)} sections"
        (shb, b), (shs, s2) = parse_tensor(secs[0]), parse_tensor(secs[1])
        if shb != obs["beta"][0] or shs != obs["s2"][0]:
            return f"shapes impl beta={obs['beta'][0]} s2={obs['s2'][0]} model beta={shb} s2={shs}"
        if not near(np.asarray(obs["beta"][1], float), b, rt, meta["bs"]):
            return f"beta: impl/model {worst(np.asarray(obs['beta'][1], float), b)}"
        if not near(np.asarray(obs["s2"][1], float), s2, rt, meta["ys"] ** 2):
            return f"s2: impl/model {worst(np.asarray(obs['s2'][1], float), s2)}"
        return None
    if kind == "glmcon":
        if len(secs) != 4:
            return f"model returned {len(secs)} sections"
        mb = [int(x) for x in secs[0].split()]
        ex = [float(x) for x in parse_rats(secs[1])]
        eff = np.array([float(x) for x in parse_rats(secs[2])])
        var = np.array([float(x) for x in parse_rats(secs[3])])
        for j in range(len(mb)):
            if mb[j] != obs["bins"][j]:
                if abs(ex[j] - round(ex[j])) < 1e-7:
                    continue
                return f"voxel {j}: AR(1) bin impl={obs['bins'][j]} model={mb[j]}"
            if not near(obs["effect"][j], eff[j], rt, meta["es"]):
                return f"voxel {j} contrast effect: impl {obs['effect'][j]!r} model {eff[j]!r}"
            if not near(obs["variance"][j], var[j], 4 * rt, meta["vs"]):
                return f"voxel {j} contrast variance: impl {obs['variance'][j]!r} model {var[j]!r}"
        return None
    if kind == "scaling":
        if len(secs) != 2:
            return f"model returned {len(secs)} sections"
        S = np.array([float(x) for x in parse_rats(secs[0])]); mm = np.array([float(x) for x in parse_rats(secs[1])])
        if not near(np.asarray(obs["S"], float), S, 1e-11, 1.0):
            return f"data_scaling: impl/model {worst(np.asarray(obs['S'], float), S)}"
        if not near(np.asarray(obs["mean"], float), mm, 1e-13, 1.0):
            return "data_scaling mean differs"
        return None
    return "unknown observation kind"


# ----------------------------------------------------------------------
# labs engines along any axis of a 3-D block
# ----------------------------------------------------------------------
def run_labs3(H, case):
    from nipy.labs.glm import glm as lg
    X = np.array(case["X"], float); Y3 = np.array(case["Y3"], float)
    axis = case["axis"]; c = np.array(case["c"], float)
    n, p = X.shape
    if case.get("layout") == "F":
        Y3 = np.asfortranarray(Y3)
    elif case.get("layout") == "moved":       # a non-contiguous view with the same values
        Y3 = np.moveaxis(np.ascontiguousarray(np.moveaxis(Y3, axis, -1)), -1, axis)
    rest = [s for k, s in enumerate(Y3.shape) if k != axis]
    V = int(np.prod(rest))
    Y2 = np.moveaxis(Y3, axis, 0).reshape(n, V)          # fibres as columns, C order of the other axes
    cond = H._cond(X); rt = H._rtol(cond)
    smax = float(np.linalg.svd(X, compute_uv=False).max())
    rk = 1e-5 * max(1.0, cond * cond / 1e4) + 1e-8 * smax * smax
    ys = max(1.0, float(np.abs(Y3).max()))
    tags = ["labs3", f"axis={axis}", "layout=" + case.get("layout", "C")]
    snap = Snapshot(X=X, Y=Y3)
    H._fff()
    lines, impl = [], []
    fail = None
    try:
        ref = {"ols": lg.glm(Y2, X), "kalman": lg.glm(Y2, X, method="kalman")}
        bs = max(H._bfloor(X, ys), float(np.abs(ref["ols"].beta).max()))
        for method in ("ols", "kalman"):
            g = lg.glm(Y3, X, axis=axis, method=method)
            beta = np.asarray(g.beta, float); s2 = np.asarray(g.s2, float)
            tol = rt if method == "ols" else 10 * rk
            want_b = list(Y3.shape); want_b[axis] = p
            if fail is None and (list(beta.shape) != want_b or list(np.shape(s2)) != [s for s in rest if s != 1]):
                fail = (f"labs glm ({method}, axis={axis}): beta shape {beta.shape}, s2 shape {np.shape(s2)} for data "
                        f"{Y3.shape}")
            b2 = np.moveaxis(beta, axis, 0).reshape(p, V)
            if fail is None and not near(b2, ref[method].beta, 20 * tol, bs):
                fail = (f"labs glm ({method}) along axis {axis} of a {Y3.shape} block differs from the fit of the same "
                        f"fibres as a 2-D block: {worst(b2, np.asarray(ref[method].beta))}")
            if fail is None and not near(np.asarray(s2, float).reshape(-1), np.atleast_1d(ref[method].s2).reshape(-1),
                                         20 * tol, ys * ys):
                fail = f"labs glm ({method}) s2 along axis {axis} differs from the 2-D fit of the same fibres"
            if fail is None and float(g.dof) != n - p:
                fail = f"labs glm ({method}, axis={axis}) dof {g.dof}, n - p = {n - p}"
            con = g.contrast(c)
            eff = np.asarray(con.effect, float); var = np.asarray(con.variance, float)
            e2 = c @ ref[method].beta
            v2 = float(c @ np.asarray(g.nvbeta) @ c) * np.atleast_1d(ref[method].s2)
            if fail is None and not (near(eff.reshape(-1), e2, 20 * tol, bs * np.abs(c).sum())
                                     and near(var.reshape(-1), v2.reshape(-1), 20 * tol, float(np.abs(v2).max()) + 1e-300)):
                fail = f"labs glm ({method}, axis={axis}) contrast effect/variance differ from c.beta, c nvbeta c * s2"
            # s2 is squeezed by glm.fit: compare squeezed shapes
            s2sq = np.asarray(s2, float)
            m_s2shape = [s for s in rest if s != 1]
            lines.append(f"labs3 {axis} {method} {pmat(X)} {Y3.shape[0]} {Y3.shape[1]} {Y3.shape[2]} "
                         + frs(np.ascontiguousarray(Y3).ravel().tolist()))
            impl.append(("labs3", {"beta": (list(beta.shape), beta.ravel().tolist()),
                                   "s2": (list(s2sq.shape), s2sq.ravel().tolist()), "s2full": rest},
                         {"rtol": tol, "bs": bs, "ys": ys}))
        A1 = lg.glm(Y3, X, axis=axis, model="ar1")
        wb = list(Y3.shape); wb[axis] = p
        if fail is None and (list(np.shape(A1.beta)) != wb or float(A1.dof) != n - p or not np.all(np.isfinite(A1.beta))):
            fail = f"labs glm model='ar1' axis={axis}: beta shape {np.shape(A1.beta)}, dof {A1.dof}"
    except Exception as e:
        fail = f"labs glm along axis {axis} of a {Y3.shape} block raised {type(e).__name__}: {e}"
        lines, impl = [], []
        tags.append("raised")
    return {"lines": lines, "impl": impl, "oracle": fail, "tags": tags, "mutated": snap.changed(),
            "nontrivial": True}


# ----------------------------------------------------------------------
# fMRI GLM classes
# ----------------------------------------------------------------------
def run_fmri(H, case):
    from nibabel import Nifti1Image
    from nipy.algorithms.statistics.models.regression import ARModel, OLSModel
    from nipy.modalities.fmri import glm as fg
    X = np.array(case["X"], float); Y = np.array(case["Y"], float)
    n, p = X.shape; v = Y.shape[1]
    steps = case["steps"]; c = np.array(case["c"], float); Cm = np.array(case["C"], float)
    model = case["model"]
    tags = ["fmri", "fmri:" + model, f"steps={steps}"] + (["scaled"] if case["scale"] else [])
    lines, impl = [], []
    fail = None
    snap = Snapshot(X=X, Y=Y)
    try:
        D = Y
        if case["scale"]:
            S, mean = fg.data_scaling(Y)
            lines.append(f"scaling {pmat(Y)}")
            impl.append(("scaling", {"S": np.asarray(S, float).ravel().tolist(), "mean": np.asarray(mean, float).tolist()}, {}))
            S4, _ = fg.data_scaling(Y * 4.0)
            if not near(S4, S, 1e-11, 1.0):
                fail = "data_scaling is not invariant under rescaling of the data"
            D = np.asarray(S, float)
        ys = max(1.0, float(np.abs(D).max()))
        a1, den = H.CHECK._ar1_float(X, D, steps)
        if np.any(den < 1e-18 * ys * ys * n) or not np.all(np.isfinite(D)):
            return {"lines": [], "impl": [], "oracle": None, "nontrivial": False,
                    "tags": tags + ["zero-residual-skipped"], "mutated": None}
        safe = (np.abs(a1 - np.round(a1)) > 1e-6) | (np.abs(a1) < 0.5)
        g = fg.GeneralLinearModel(X); g.fit(D, model=model, steps=steps)
        lab = np.asarray(g.labels_, float)
        B = g.get_beta(); M = g.get_mse(); LL = g.get_logL()
        con = g.contrast(c); conF = g.contrast(Cm)
        cond = H._cond(X) * (1 + float(np.abs(lab).max())) / max(1e-3, 1 - float(np.abs(lab).max()))
        rt = H._rtol(cond); rt_o = 50 * rt
        bs = max(H._bfloor(X, ys), float(np.abs(B).max()))
        if np.any(np.abs(lab) >= 1):
            fail = f"AR(1) label outside the stationarity region: {lab.tolist()}"
        # every voxel against the single-voxel model with that voxel's label
        for j in range(v):
            if fail:
                break
            mj = ARModel(X, lab[j]) if model == "ar1" else OLSModel(X)
            rj = mj.fit(D[:, j])
            tj = rj.Tcontrast(c); fj = rj.Fcontrast(Cm)
            vs = max(1e-300, float(np.abs(rj.cov).max())) * float(np.abs(c).sum()) ** 2 * 4 * ys * ys
            if not near(con.effect[0, j], tj.effect, rt_o, bs * np.abs(c).sum()) or \
                    not near(con.variance[0, 0, j], float(tj.sd) ** 2, rt_o, vs):
                fail = (f"voxel {j} (label {lab[j]}): contrast effect/variance {con.effect[0, j]!r}, "
                        f"{con.variance[0, 0, j]!r} differ from the single-voxel Tcontrast {float(tj.effect)!r}, "
                        f"{float(tj.sd) ** 2!r}")
            elif not near(conF.effect[:, j], np.asarray(fj.effect), rt_o, bs * max(1.0, float(np.abs(Cm).sum(1).max()))) or \
                    not near(conF.variance[:, :, j], np.asarray(fj.covariance)[:, :, 0], rt_o, vs * 4):
                fail = f"voxel {j}: F contrast effect/covariance differ from the single-voxel Fcontrast"
            elif not near(LL[j], rj.logL, 1e3 * rt_o, 1.0) and rj.dispersion > 1e-6 * ys * ys:
                fail = f"voxel {j}: get_logL {LL[j]!r} differs from the single-voxel logL {float(rj.logL)!r}"
        if fail is None and float(con.dof) != n - p:
            fail = f"contrast dof {con.dof}, n - p = {n - p}"
        if fail is None:
            st = np.asarray(con.stat(), float)
            with np.errstate(all="ignore"):
                want = con.effect[0] / np.sqrt(con.variance[0, 0])
            ok = con.variance[0, 0] > 1e-9 * max(1e-300, float(np.abs(con.variance).max()))
            if not near(st[ok], want[ok], 1e-12, 1.0):
                fail = "Contrast.stat() is not effect / sqrt(variance)"
        ci = case["colidx"]
        if fail is None and ci is not None:
            Bc = g.get_beta(ci)
            want = B[[ci] if isinstance(ci, int) else ci]
            if not near(Bc, want, 0, 0):
                fail = f"get_beta(column_index={ci}) is not the selection of get_beta()"
        # voxel order: a permutation of the voxels permutes every accessor
        perm = case["perm"]
        if fail is None and v > 1:
            g2 = fg.GeneralLinearModel(X); g2.fit(D[:, perm], model=model, steps=steps)
            ok = safe[perm]
            c2 = g2.contrast(c)
            if not (near(g2.get_beta()[:, ok], B[:, perm][:, ok], rt_o, bs)
                    and near(c2.variance[0, 0][ok], con.variance[0, 0][perm][ok], rt_o, float(np.abs(con.variance).max()) + 1e-300)
                    and near(g2.get_mse()[ok], M[perm][ok], rt_o, 4 * ys * ys)):
                fail = f"permuting the voxels ({perm}) does not permute get_beta / get_mse / contrast variance"
        if model == "ar1":
            bins = [int(round(x * steps)) for x in lab]
            vs = max(1e-300, float(np.abs(con.variance).max()))
            lines.append(f"glmcon {steps} {pmat(X)} {pmat(D)} {frs(c)}")
            impl.append(("glmcon", {"bins": bins, "effect": con.effect[0].tolist(), "variance": con.variance[0, 0].tolist()},
                         {"rtol": rt, "es": bs * float(np.abs(c).sum()), "vs": vs}))
        # FMRILinearModel: images in, the same numbers out
        if fail is None:
            grid = tuple(case["grid"]); pos = case["pos"]
            cells = int(np.prod(grid))
            maskf = np.zeros(cells, bool); maskf[pos] = True
            data = np.full((cells, n), 7.0)
            data[pos] = Y.T
            img = Nifti1Image(data.reshape(grid + (n,)), np.eye(4))
            mimg = Nifti1Image(maskf.reshape(grid).astype(np.int8), np.eye(4))
            fm = fg.FMRILinearModel(img, X, mask=mimg)
            fm.fit(do_scaling=case["scale"], model=model, steps=steps)
            gb = fm.glms[0].get_beta()
            if not np.all(safe):
                tags.append("bin-boundary")     # a voxel on a bin boundary may legally land in either bin
            elif not near(gb, B, rt_o, bs):
                fail = (f"FMRILinearModel.fit(do_scaling={case['scale']}, model={model!r}) coefficients differ from "
                        f"GeneralLinearModel on the masked{' scaled' if case['scale'] else ''} data: {worst(gb, B)}")
            else:
                outs = fm.contrast(c, output_z=True, output_stat=True, output_effects=True, output_variance=True)
                simg = np.asarray(outs[1].get_fdata()).reshape(cells)[pos]
                eimg = np.asarray(outs[2].get_fdata()).reshape(cells)[pos]
                vimg = np.asarray(outs[3].get_fdata()).reshape(cells)[pos]
                if not near(simg, np.asarray(con.stat(), float), 1e-9, 1.0):
                    fail = "FMRILinearModel.contrast stat image differs from GeneralLinearModel.contrast(...).stat()"
                if fail is None and not (near(eimg, con.effect[0], rt_o, bs * np.abs(c).sum())
                        and near(vimg, con.variance[0, 0], rt_o, float(np.abs(con.variance).max()) + 1e-300)):
                    fail = "FMRILinearModel.contrast effect/variance images differ from GeneralLinearModel.contrast"
    except Exception as e:
        fail = f"fMRI GLM (model={model!r}, steps={steps}) raised {type(e).__name__}: {e} (n={n}, p={p}, v={v})"
        lines, impl = [], []
        tags.append("raised")
    return {"lines": lines, "impl": impl, "oracle": fail, "tags": tags, "mutated": snap.changed(),
            "nontrivial": True}
