"""C16 — compiled numeric kernels equal their NumPy/SciPy definitions.

Observation layers
  L1  Python-level return values of the installed extension modules (pyx glue from
      /repo's .pyx at build time + the C embedded then; cannot be rebuilt here);
  L2  the C of /repo's working tree, rebuilt with gcc (harness.cshim groups
      `quantile`, `registration`; plus the group `fffpy` built below =
      lib/fff + lib/lapack_lite + lib/fff_python_wrapper/fffpy.c) and called
      through ctypes with a replica of the three-line pyx glue.

Correspondence: L2 values vs the Lean model (exact rationals / 1e-12).
Oracle: the NumPy/SciPy definition on the same inputs (L1 and L2).
"""
from __future__ import annotations

import ctypes as C
import glob
import hashlib
import itertools
import math
import os
import subprocess
import sysconfig
import warnings
from fractions import Fraction

import numpy as np

from harness.core import PropertyCheck, TieBroken
from harness.util import Snapshot, close, cmp_rats, errname, fr, frs, parse_rats, plist
from harness.props import c16_kcases, c16_kern, c16_spline, c16_tables, c16_views

REPO = os.environ.get("NIPY_VERIF_REPO", "/repo")
VERIF = os.path.dirname(os.path.dirname(os.path.dirname(os.path.abspath(__file__))))
BUILD = os.path.join(VERIF, ".build")
def _spline_consts():
    """the decimal literals written in the tree's cubic_spline.c (fallback: the values of the validated tree)"""
    try:
        c, _ = c16_tables.read(TieBroken)
        return float(c["c23"]), float(c["z1"]), float(c["cz1"])
    except Exception:
        return 0.66666666666667, -0.26794919243112, 0.28867513459481


C23, Z1, CZ1 = _spline_consts()
MODES = ["zero", "nearest", "reflect"]


# ----------------------------------------------------------------------
# own C builder for the numpy-facing part of fff (helper; cshim has no such group)
# ----------------------------------------------------------------------
class FVec(C.Structure):
    _fields_ = [("size", C.c_size_t), ("stride", C.c_size_t), ("data", C.POINTER(C.c_double)),
                ("owner", C.c_int)]


class FMat(C.Structure):
    _fields_ = [("size1", C.c_size_t), ("size2", C.c_size_t), ("tda", C.c_size_t),
                ("data", C.POINTER(C.c_double)), ("owner", C.c_int)]


class FIter(C.Structure):
    _fields_ = [("narr", C.c_int), ("axis", C.c_int), ("vector", C.POINTER(C.POINTER(FVec))),
                ("index", C.c_size_t), ("size", C.c_size_t), ("multi", C.c_void_p)]


class FArr(C.Structure):
    _fields_ = [("ndims", C.c_int), ("datatype", C.c_int)] + \
               [(n_, C.c_size_t) for n_ in ("dimX", "dimY", "dimZ", "dimT", "offsetX", "offsetY", "offsetZ",
                                            "offsetT", "boX", "boY", "boZ", "boT")] + \
               [("data", C.c_void_p), ("owner", C.c_int), ("get", C.c_void_p), ("set", C.c_void_p)]


_FFFPY = None


def fffpy():
    global _FFFPY
    if _FFFPY is not None:
        return _FFFPY
    srcs = sorted(glob.glob(os.path.join(REPO, "lib/fff/*.c"))) + \
        sorted(glob.glob(os.path.join(REPO, "lib/lapack_lite/*.c"))) + \
        [os.path.join(REPO, "lib/fff_python_wrapper/fffpy.c")]
    hdrs = sorted(glob.glob(os.path.join(REPO, "lib/fff/*.h"))) + \
        sorted(glob.glob(os.path.join(REPO, "lib/lapack_lite/*.h"))) + \
        [os.path.join(REPO, "lib/fff_python_wrapper/fffpy.h")]
    h = hashlib.sha1()
    for f in srcs + hdrs:
        h.update(f.encode()); h.update(open(f, "rb").read())
    os.makedirs(BUILD, exist_ok=True)
    so = os.path.join(BUILD, f"fffpy-{h.hexdigest()[:16]}.so")
    if not os.path.exists(so):
        incs = [f"-I{os.path.join(REPO, d)}" for d in ("lib/fff", "lib/lapack_lite", "lib/fff_python_wrapper")]
        incs += [f"-I{np.get_include()}", f"-I{sysconfig.get_paths()['include']}"]
        tmp = f"{so}.{os.getpid()}.tmp"
        cmd = ["gcc", "-O1", "-g", "-fPIC", "-shared", "-w", "-DNPY_NO_DEPRECATED_API=0",
               # names removed from the NumPy 2 headers that fffpy.c still spells the NumPy 1 way
               "-DNPY_OWNDATA=NPY_ARRAY_OWNDATA", "-DNPY_BEHAVED=NPY_ARRAY_BEHAVED",
               "-DNPY_CONTIGUOUS=NPY_ARRAY_C_CONTIGUOUS"] + incs + srcs + \
              ["-lm", "-o", tmp]
        p = subprocess.run(cmd, capture_output=True, text=True)
        if p.returncode != 0:
            raise RuntimeError("C build of fffpy failed:\n" + p.stderr[-3000:])
        os.replace(tmp, so)
    lib = C.PyDLL(so)
    lib.fffpy_import_array.restype = C.c_void_p
    lib.fffpy_import_array()
    PV, PM = C.POINTER(FVec), C.POINTER(FMat)
    lib.fff_vector_fromPyArray.restype = PV; lib.fff_vector_fromPyArray.argtypes = [C.py_object]
    lib.fff_matrix_fromPyArray.restype = PM; lib.fff_matrix_fromPyArray.argtypes = [C.py_object]
    lib.fff_vector_new.restype = PV; lib.fff_vector_new.argtypes = [C.c_size_t]
    lib.fff_matrix_new.restype = PM; lib.fff_matrix_new.argtypes = [C.c_size_t, C.c_size_t]
    lib.fff_vector_delete.argtypes = [PV]; lib.fff_matrix_delete.argtypes = [PM]
    lib.fff_vector_memcpy.argtypes = [PV, PV]; lib.fff_matrix_memcpy.argtypes = [PM, PM]
    for f in ("fff_blas_dnrm2", "fff_blas_dasum"):
        getattr(lib, f).restype = C.c_double; getattr(lib, f).argtypes = [PV]
    lib.fff_blas_ddot.restype = C.c_double; lib.fff_blas_ddot.argtypes = [PV, PV]
    lib.fff_blas_daxpy.argtypes = [C.c_double, PV, PV]
    lib.fff_blas_dscal.argtypes = [C.c_double, PV]
    lib.fff_blas_dgemv.argtypes = [C.c_int, C.c_double, PM, PV, C.c_double, PV]
    lib.fff_blas_dgemm.argtypes = [C.c_int, C.c_int, C.c_double, PM, PM, C.c_double, PM]
    lib.fff_blas_dsymm.argtypes = [C.c_int, C.c_int, C.c_double, PM, PM, C.c_double, PM]
    lib.fff_blas_dtrmm.argtypes = [C.c_int] * 4 + [C.c_double, PM, PM]
    lib.fff_blas_dtrsm.argtypes = [C.c_int] * 4 + [C.c_double, PM, PM]
    lib.fff_blas_dsyrk.argtypes = [C.c_int, C.c_int, C.c_double, PM, C.c_double, PM]
    lib.fff_blas_dsyr2k.argtypes = [C.c_int, C.c_int, C.c_double, PM, PM, C.c_double, PM]
    for f in ("fff_vector_add", "fff_vector_sub", "fff_vector_mul", "fff_vector_div"):
        getattr(lib, f).argtypes = [PV, PV]
    for f in ("fff_vector_scale", "fff_vector_add_constant", "fff_vector_set_all"):
        getattr(lib, f).argtypes = [PV, C.c_double]
    lib.fff_vector_sum.restype = C.c_longdouble; lib.fff_vector_sum.argtypes = [PV]
    lib.fff_vector_sad.restype = C.c_longdouble; lib.fff_vector_sad.argtypes = [PV, C.c_double]
    lib.fff_vector_ssd.restype = C.c_longdouble
    lib.fff_vector_ssd.argtypes = [PV, C.POINTER(C.c_double), C.c_int]
    lib.fff_vector_median.restype = C.c_double; lib.fff_vector_median.argtypes = [PV]
    lib.fff_vector_quantile.restype = C.c_double
    lib.fff_vector_quantile.argtypes = [PV, C.c_double, C.c_int]
    lib.fff_matrix_transpose.argtypes = [PM, PM]
    lib.fff_matrix_add.argtypes = [PM, PM]
    lib.fff_gamln.restype = C.c_double; lib.fff_gamln.argtypes = [C.c_double]
    lib.fff_psi.restype = C.c_double; lib.fff_psi.argtypes = [C.c_double]
    lib.fff_permutation.argtypes = [C.POINTER(C.c_uint), C.c_uint, C.c_ulong]
    lib.fff_combination.argtypes = [C.POINTER(C.c_uint), C.c_uint, C.c_uint, C.c_ulong]
    lib.fff_mahalanobis.restype = C.c_double; lib.fff_mahalanobis.argtypes = [PV, PM, PM]
    lib.fff_array_fromPyArray.restype = C.POINTER(FArr); lib.fff_array_fromPyArray.argtypes = [C.py_object]
    lib.fff_array_get_block.restype = FArr
    lib.fff_array_get_block.argtypes = [C.POINTER(FArr)] + [C.c_size_t] * 12
    lib.fff_array_get.restype = C.c_double
    lib.fff_array_get.argtypes = [C.POINTER(FArr)] + [C.c_size_t] * 4
    lib.fff_array_new.restype = C.c_void_p
    lib.fff_array_new.argtypes = [C.c_int] + [C.c_size_t] * 4
    lib.fff_array_delete.argtypes = [C.c_void_p]
    lib.fff_lapack_dgesdd.argtypes = [PM, PV, PM, PM, PV, C.c_void_p, PM]
    lib.fffpy_multi_iterator_new.restype = C.POINTER(FIter)
    lib.fffpy_multi_iterator_update.argtypes = [C.POINTER(FIter)]
    lib.fffpy_multi_iterator_delete.argtypes = [C.POINTER(FIter)]
    _FFFPY = lib
    return lib


def vec_values(v):
    """logical content of an fff_vector (size_t stride: two's-complement wrap like the C)"""
    v = v.contents
    st = v.stride if v.stride < 2 ** 63 else v.stride - 2 ** 64
    base = C.addressof(v.data.contents)
    return [C.c_double.from_address((base + 8 * st * i) % 2 ** 64).value for i in range(v.size)]


def mat_values(m):
    m = m.contents
    base = C.addressof(m.data.contents)
    return np.array([[C.c_double.from_address(base + 8 * (m.tda * i + j)).value
                      for j in range(m.size2)] for i in range(m.size1)]).reshape(m.size1, m.size2)


CB = {"N": 111, "T": 112, "U": 121, "Lo": 122, "NonUnit": 131, "Unit": 132, "Left": 141, "Right": 142}


def f_tr(f): return CB["N"] if f <= 0 else CB["T"]
def f_up(f): return CB["U"] if f <= 0 else CB["Lo"]
def f_dg(f): return CB["NonUnit"] if f <= 0 else CB["Unit"]
def f_sd(f): return CB["Left"] if f <= 0 else CB["Right"]


# ----------------------------------------------------------------------
# array layouts
# ----------------------------------------------------------------------
LAYOUTS = ["C", "F", "step2", "rev", "transposed", "offset"]


def lay(a, layout, rs):
    """an array equal to `a` (same shape, values, dtype) with the requested memory layout"""
    a = np.ascontiguousarray(a)
    if layout == "C" or a.ndim == 0:
        return a.copy()
    if layout == "F":
        return np.asfortranarray(a)
    if layout == "step2":
        ax = int(rs.randint(a.ndim))
        sh = list(a.shape); sh[ax] = 2 * sh[ax] + 1
        big = np.full(sh, 77, dtype=a.dtype)
        sl = [slice(None)] * a.ndim; sl[ax] = slice(1, None, 2)
        big[tuple(sl)] = a
        return big[tuple(sl)]
    if layout == "rev":
        ax = int(rs.randint(a.ndim))
        sl = [slice(None)] * a.ndim; sl[ax] = slice(None, None, -1)
        return a[tuple(sl)].copy()[tuple(sl)]
    if layout == "transposed":
        perm = list(rs.permutation(a.ndim))
        inv = np.argsort(perm)
        return np.ascontiguousarray(a.transpose(perm)).transpose(inv)
    if layout == "offset":
        sh = [s + 2 for s in a.shape]
        big = np.full(sh, 55, dtype=a.dtype)
        sl = tuple(slice(1, -1) for _ in a.shape)
        big[sl] = a
        return big[sl]
    raise ValueError(layout)


def dyadic(rs, shape, ties=False, lo=-8, hi=9, den=4):
    if ties:
        return rs.randint(0, 3, size=shape).astype(float)
    return rs.randint(lo * den, hi * den, size=shape).astype(float) / den


def np_quantile_def(fib, r, interp):
    """the definition: sorted-sample order statistic; `+inf` when ceil(r n) = n"""
    s = np.sort(np.asarray(fib, dtype=float))
    n = len(s)
    if n == 1:
        return float(s[0])
    if not interp:
        pp = float(np.float64(r) * n)
        p = int(math.ceil(pp))
        return math.inf if p >= n else float(s[p])
    return float(np.percentile(s, 100.0 * r)) if r not in (0.0, 1.0) else float(s[0] if r == 0 else s[-1])


def stale_top_interval(r, interp, n):
    """inputs on which `_pth_interval` interpolates between the two largest order statistics"""
    if not interp or n < 2:
        return False
    pp = float(np.float64(r) * (n - 1))
    return int(pp) + 1 == n - 1 and pp > int(pp)


def qclose(a, b, scale=1.0):
    if a == b:
        return True
    if math.isinf(a) or math.isinf(b) or math.isnan(a) or math.isnan(b):
        return False
    return abs(a - b) <= 1e-12 * max(1.0, scale, abs(a), abs(b))


def survives(fn):
    """run `fn` in a forked child first: False if the child is killed by a signal (segfault)"""
    pid = os.fork()
    if pid == 0:
        try:
            fn()
        except BaseException:
            pass
        os._exit(0)
    _, status = os.waitpid(pid, 0)
    return not os.WIFSIGNALED(status)


def fibres_of(X, axis):
    """rows = 1-D fibres along `axis`, other indices in C order"""
    Y = np.moveaxis(X, axis, -1)
    return Y.reshape(-1, X.shape[axis])


class C16(PropertyCheck):
    id = "C16"
    title = "Compiled numeric kernels equal their NumPy/SciPy definitions"
    lean_modules = ["NipyVerif.Props.C16", "NipyVerif.Props.C16B", "NipyVerif.Props.C16S", "NipyVerif.Props.C16P",
                    "NipyVerif.Props.C16L", "NipyVerif.Props.C16Q", "NipyVerif.Props.C16K",
                    "NipyVerif.Props.C16G", "NipyVerif.Props.C16I"]
    driver = "Drivers/C16.lean"
    rule = ("cases are (routine, shape 1..4-D, memory layout in {C, Fortran, stepped, reversed, permuted-axes, "
            "offset window}, dtype, axis, ratio / BLAS flags / boundary modes, dyadic data) from a seeded PRNG; the "
            "`views` kinds run every fff routine that writes through a view on windows of larger parents (vector "
            "offset/stride/tail; matrix margins with same or different row pitch, contiguous or not, same parent; 4-D "
            "arrays of every datatype pair with steps, reversed and permuted axes) and compare the whole parent; "
            "non-trivial = at least 2 elements along the processed axis (quantile, iterator), a non-square or "
            "non-contiguous operand (BLAS), an axis of length >= 2 (spline), n >= 3 (permutations); distinct by "
            "full JSON of the case; the `kern` kinds call the static helpers of cubic_spline.c (through a shim that "
            "#includes the file) on every threshold of the three boundary modes, coordinates several periods away and "
            "|x| up to 1e300, and prng_double from seeded and arbitrary states incl. 0, 1, m-1; the `permbig` kinds give "
            "fff_permutation / fff_combination n up to 20, k-of-n up to 60 with C(n,k) > 2^32 and seeds over the whole "
            "64-bit range (j and j + 2^32, j + 2^63, n! - 1, n! mod 2^64, 2^64 - 1)")
    assumptions = [
        "IEEE-754: the C kernels are compared with the exact-rational model to 1e-12 relative (exactly on dyadic data)",
        "lapack_lite reference BLAS/LAPACK (f2c) implement the Fortran semantics written as gemmF/symmF/trmmF/"
        "IsTrsmF/syrkF/gerF/syrF/syr2F/symvF/trmvF/IsTrsvF/syr2kF in the model; checked per case against the model on "
        "every flag combination; LAPACK factorisations (dpotrf, dgetrf, dgeqrf, dgesdd) are certified by multiplication "
        "on the real code, their numerics are not modelled",
        "cubic-spline prefilter: proved exact for the exact pole sqrt(3)-2 in Q(sqrt 3); the C source writes the pole "
        "and z/(z^2-1) truncated to 14 digits - the model run with those rationals is compared with the C to 1e-11, "
        "the model run with the exact pole to 1e-9 (the effect of the truncation), and the exact run is decided to "
        "reproduce the samples per case (n-D)",
        "the constant 0.66666666666667 of cubic_spline_basis is a parameter of the sampling model (theorems at 2/3)",
        "gamln / psi / singular values / Mahalanobis (Cholesky) are numeric-only: compared with scipy.special / "
        "numpy.linalg (1e-7 / 1e-9 relative) and with their recurrences",
        "integer stores of fff_array (FFF_ROUND): the oracle accepts either nearest integer at a tie; the rule as "
        "written (ties away from zero) is pinned by the model on every case",
        "translated C expressions (Gen/C16Kern.lean): C `int` / `size_t` arithmetic is read over the integers (no "
        "overflow: coordinates pass the range test of _mirror_grid_neighbors before the (int) conversion, the prng state "
        "is proved to stay in [0, m)), `unsigned int ddim` as a non-negative integer, `double` / `long double` as exact "
        "rationals; `size >> 1` is written `size / 2`, `FFF_IS_ODD` as `size % 2 = 1`; macros are expanded textually",
        "libc srand/rand (prng_seed) is not modelled: the seeded state is read from the re-compiled C",
        "installed extension modules are the build of this tree's .pyx files (Cython is unavailable in the sandbox); "
        "the C of the working tree is observed through gcc-rebuilt libraries and a replica of the pyx glue; "
        "histogram.pyx is observed through the installed build only",
    ]
    level_note = ("partial: the n-D separability of the spline theorems (1-D proved for every signal and mode; n-D: the "
                  "driver decides exactly per case that the per-axis synthesis of the coefficients returns 6^d times the "
                  "samples - commuting the line operators over the flat-array representation is not proved); gamln / psi "
                  "(transcendental, no exact model: compared with scipy.special and their recurrences) and the numerics "
                  "inside lapack_lite (f2c reference code, taken as the Fortran semantics of the model; factorisations "
                  "certified by multiplication on the real code) are not proved; the .pyx glue is observed through the "
                  "installed build and a replica, not modelled. Proved since the last round: the fff_array iterator "
                  "visits in C order for every ndim <= 4 / stride / skipped axis (C16I); permutations and combinations "
                  "are valid and distinct for distinct seeds below n! / C(n,k) (C16G, carried over from the C17 model "
                  "proved equal to the C16 model); the model equals the expressions regenerated from the C text of "
                  "cubic_spline.c, quantile.c, fff_base.h, fff_vector.c, wichmann_prng.c (C16K: *_from_source), "
                  "fff_vector_sum/ssd/sad/median as written equal their definitions")
    finding_keys = {
        "vector-div-multiplies": "labs.bindings.linalg.vector_div(x, y) returns x*y (linalg.pyx calls fff_vector_mul)",
        "array-extrema-first-max": "fff_array_extrema leaves max = -inf when the first element visited is the maximum "
                                   "(`else if`); fff_array_clamp inherits it (C API only; proposed_fixes/C16-array-extrema.patch)",
        "dgesdd-factors-transposed": "fff_lapack_dgesdd returns U^T in U and V in Vt (A = U^T diag(s) Vt^T instead of the "
                                     "documented A = U diag(s) Vt): the final transpositions are superfluous (C API only; "
                                     "proposed_fixes/C16-lapack-svd-factors.patch)",
        "inv-sym-wrong": "fff_lapack_inv_sym returns U^T S^-1 V^T, not the inverse, for n >= 3 (compensation for an older "
                         "defect of dgesdd; C API only; proposed_fixes/C16-lapack-svd-factors.patch)",
    }

    # ------------------------------------------------------------------
    def translators(self):
        """constants of cubic_spline.c and the flag table of fff_blas.c, regenerated from the source text"""
        src, _ = c16_tables.lean_source(TieBroken)
        return [("NipyVerif/Gen/C16Tables.lean", src)] + c16_kern.translate(REPO, TieBroken)

    # ------------------------------------------------------------------
    def generate(self, rng, tier):
        # compile the C of the working tree once, in the parent, so that workers find the cached libraries
        from harness import cshim
        fffpy(); cshim.build("quantile"); cshim.build("registration"); c16_kcases.build()
        q = tier == "quick"
        n = dict(quantile=260, iter=120, blas1=120, blas3=420, vecops=120, hist=60, spline=220,
                 perm=50, specfun=40, lapack=50) if q else \
            dict(quantile=2600, iter=900, blas1=800, blas3=4200, vecops=800, hist=400, spline=2000,
                 perm=300, specfun=200, lapack=400)
        cases = []
        S = lambda: rng.randrange(1 << 30)
        small = [1, 2, 3, 4, 5, 7]
        for _ in range(n["quantile"]):
            nd = rng.choice([1, 1, 2, 2, 3, 4])
            shape = [rng.choice(small if nd < 4 else [1, 2, 3]) for _ in range(nd)]
            axis = rng.randrange(nd)
            if rng.random() < 0.7:
                shape[axis] = rng.choice([2, 3, 4, 5, 6, 8, 9, 16])
            rk = rng.random()
            if rk < 0.12:
                ratio = rng.choice([0.0, 1.0])
            elif rk < 0.75:
                ratio = rng.randrange(0, 65) / 64
            elif rk < 0.9:
                ratio = rng.choice([1 / 3, 0.1, 0.7, 0.9, 0.25, 0.75, 0.3])
            else:
                ratio = rng.choice([-0.25, 1.5, -1e-9, 1.0000001])     # refusals
            cases.append({"kind": "quantile", "shape": shape, "axis": axis, "ratio": ratio,
                          "interp": rng.random() < 0.5, "layout": rng.choice(LAYOUTS),
                          "dtype": rng.choice(["float64"] * 5 + ["int16", "float32", "uint8", "int64"]),
                          "ties": rng.random() < 0.35, "median": rng.random() < 0.2, "seed": S()})
        for _ in range(n["iter"]):
            nd = rng.choice([1, 2, 2, 3, 3, 4])
            shape = [rng.choice([1, 2, 3, 4]) for _ in range(nd)]
            cases.append({"kind": "iter", "shape": shape, "axis": rng.randrange(nd),
                          "layout": rng.choice(LAYOUTS), "dtype": rng.choice(["float64"] * 3 + ["int32", "float32"]),
                          "seed": S()})
        for _ in range(n["blas1"]):
            cases.append({"kind": "blas1", "n": rng.choice([1, 2, 3, 5, 8, 17]),
                          "lx": rng.choice(["C", "step2", "rev", "offset", "col"]),
                          "ly": rng.choice(["C", "step2", "rev", "col"]),
                          "dtype": rng.choice(["float64"] * 4 + ["int32", "float32"]),
                          "alpha": rng.choice([1.0, -1.0, 0.5, 2.0, 0.0, -0.25]), "seed": S()})
        for _ in range(n["blas3"]):
            op = rng.choice(["gemm", "gemm", "symm", "trmm", "trsm", "syrk", "gemv", "syr2k"])
            cases.append({"kind": "blas3", "op": op, "m": rng.choice([1, 2, 3, 4, 5]),
                          "n": rng.choice([1, 2, 3, 4, 5]), "k": rng.choice([1, 2, 3, 4, 6]),
                          "flags": [rng.choice([0, 1]) for _ in range(4)],
                          "alpha": rng.choice([1.0, -1.0, 0.5, 2.0, 0.0]), "beta": rng.choice([0.0, 1.0, -0.5, 2.0]),
                          "la": rng.choice(["C", "F", "step2", "rev", "offset"]),
                          "lb": rng.choice(["C", "F", "step2", "offset"]),
                          "lc": rng.choice(["C", "F", "offset"]), "seed": S()})
        for _ in range(n["vecops"]):
            cases.append({"kind": "vecops", "n": rng.choice([1, 2, 3, 4, 6, 9]),
                          "shape4": [rng.choice([1, 2, 3, 4, 5]) for _ in range(rng.choice([1, 2, 3, 4, 4]))],
                          "lx": rng.choice(["C", "step2", "rev", "offset", "col"]),
                          "ly": rng.choice(["C", "step2", "rev"]),
                          "la": rng.choice(LAYOUTS),
                          "dtype": rng.choice(["float64"] * 3 + ["int16", "uint8", "float32", "int64"]),
                          "a": rng.choice([0.0, 1.0, -2.0, 0.5, 3.0]), "seed": S()})
        for _ in range(n["hist"]):
            nd = rng.choice([1, 1, 2, 3, 4])
            cases.append({"kind": "hist", "shape": [rng.choice([1, 2, 3, 5, 8]) for _ in range(nd)],
                          "top": rng.choice([0, 1, 3, 10, 40]), "layout": rng.choice(LAYOUTS),
                          "dtype": rng.choice(["uintp"] * 5 + ["int64", "float64", "uint8"]), "seed": S()})
        for _ in range(n["spline"]):
            nd = rng.choice([1, 1, 2, 2, 3, 4])
            dims = [1, 2, 3, 4, 5, 6, 9] if nd <= 2 else ([1, 2, 3, 4, 5] if nd == 3 else [1, 2, 3, 4])
            cases.append({"kind": "spline", "shape": [rng.choice(dims) for _ in range(nd)],
                          "modes": [rng.choice([0, 1, 2]) for _ in range(nd)],
                          "layout": rng.choice(LAYOUTS), "src_dtype": rng.choice(["float64", "float64", "int16", "float32"]),
                          "seed": S()})
        for _ in range(n["perm"]):
            nn = rng.choice([1, 2, 3, 4, 5, 6, 7, 9])
            k = rng.randrange(0, nn + 1)
            cases.append({"kind": "perm", "n": nn, "k": k, "m": rng.choice([1, 2, 5]),
                          "magic": rng.choice([0, 1, 2, 5, 23, 119, 120, 719, 5039, rng.randrange(0, 400000)])})
        for nn in ([2, 3, 4] if q else [1, 2, 3, 4, 5, 6]):
            cases.append({"kind": "permall", "n": nn})
        for _ in range(n["specfun"]):
            cases.append({"kind": "specfun", "seed": S()})
        for _ in range(n["lapack"]):
            cases.append({"kind": "lapack", "d": rng.choice([1, 2, 3, 4, 6]), "n2": rng.choice([1, 2, 3, 5]),
                          "K": rng.choice([[], [1], [3], [2, 2]]), "layout": rng.choice(["C", "F", "offset", "transposed"]),
                          "seed": S()})
        cases += c16_views.generate(rng, dict(vvec=60, vmat=120, varr=120, vlap=60) if q else dict(vvec=1500, vmat=3000, varr=3000, vlap=1200))
        # the statics of cubic_spline.c and prng_double against the expressions regenerated from the C text
        cases += c16_kcases.gen(rng, 60 if q else 900)
        # fff_permutation / fff_combination over the whole range of the 64-bit seed: n up to 20 (13! > 2^32), k-of-n with
        # C(n,k) > 2^32, seeds in [2^32, n!) and pairs j / j + 2^32, j + 2^63, the ends of the enumeration range
        for _ in range(40 if q else 500):
            nn = rng.choice([13, 14, 15, 16, 18, 20, 20, rng.randrange(2, 13)])
            lim = min(math.factorial(nn), 1 << 64)
            j = rng.randrange(0, 1 << 32)
            mg = [j, j + (1 << 32), rng.randrange(0, lim), lim - 1, rng.randrange(1 << 32, 1 << 64), (1 << 64) - 1,
                  j + (1 << 63), rng.randrange(0, 1 << 40), lim % (1 << 64), rng.randrange(1, 1 << 31) << 32]
            cn = rng.choice([35, 36, 38, 40, 44, 50, 60, rng.randrange(2, 35)])
            ck = max(1, min(cn, cn // 2 + rng.choice([-3, -1, 0, 0, 1, 2])))
            cl = math.comb(cn, ck)
            cm = [j, j + (1 << 32), rng.randrange(0, cl), cl - 1, cl % (1 << 64), rng.randrange(1 << 32, 1 << 64),
                  (1 << 64) - 1, rng.randrange(1, 1 << 31) << 32]
            cases.append({"kind": "permbig", "n": nn, "magics": rng.sample(mg, 5) + mg[:2],
                          "cn": cn, "ck": ck, "cmagics": rng.sample(cm, 4) + cm[:2]})
        if not q:
            # exhaustive small domain named in the design: arrays of length <= 7 over {0,1,2}
            for L in range(1, 8):
                cases.append({"kind": "pthall", "len": L})
        return cases

    # ------------------------------------------------------------------
    def run_case(self, case):
        warnings.filterwarnings("ignore")
        return getattr(self, "_" + case["kind"])(case)

    @staticmethod
    def _res(lines=(), impl=(), oracle=None, nontrivial=True, tags=(), mutated=None):
        return {"lines": list(lines), "impl": list(impl), "oracle": oracle, "nontrivial": nontrivial,
                "tags": list(tags), "mutated": mutated}

    # ---- quantile --------------------------------------------------------
    def _quantile(self, c):
        from harness import cshim
        from nipy.algorithms.statistics._quantile import _median, _quantile
        rs = np.random.RandomState(c["seed"])
        shape, axis, r, interp = c["shape"], c["axis"], float(c["ratio"]), bool(c["interp"])
        base = dyadic(rs, shape, ties=c["ties"])
        if c["dtype"] in ("uint8",):
            base = np.abs(base)
        base = base.astype(c["dtype"])           # integer dtypes truncate: still the same logical array
        X = lay(base, c["layout"], rs)
        ref = np.array(X, dtype=float)
        tags = ["quantile", "layout=" + c["layout"], "interp" if interp else "no-interp"]
        fail = None
        n = shape[axis]
        bad_ratio = r < 0 or r > 1
        # ---------------- L1: installed extension (pyx glue) ----------------
        snap = Snapshot(X=X)
        try:
            if c["median"] and not bad_ratio:
                Y = _median(X, axis=axis); r, interp = 0.5, True
                tags.append("median")
            else:
                Y = _quantile(X, r, interp, axis)
            l1 = ("val", Y)
        except Exception as e:
            l1 = ("err", errname(e))
        mut = snap.changed()
        if bad_ratio:
            tags.append("refused")
            if l1 != ("err", "error:valueError"):
                fail = f"_quantile(ratio={r}) did not raise ValueError: {l1}"
            line = f"quantile {fr(r)} {int(interp)} {plist(fibres_of(ref, axis)[0])}"
            return self._res([line], [("txt", "error:valueError")], fail, True, tags, mut and "_quantile:X")
        want = np.array([np_quantile_def(f, r, interp) for f in fibres_of(ref, axis)])
        sc = float(np.abs(ref).max()) if ref.size else 1.0
        if stale_top_interval(r, interp, n):
            # _pth_interval is compiled into the installed extension from the C of build time; the
            # top-interval clause is observed on the rebuilt C below (L2), not through the stale build
            tags.append("l1-skipped:embedded-pth_interval")
        elif l1[0] == "err":
            fail = f"_quantile raised {l1[1]} on shape {shape} axis {axis} layout {c['layout']}"
        else:
            Y = l1[1]
            es = list(shape); es[axis] = 1
            if list(Y.shape) != es:
                fail = f"_quantile output shape {Y.shape}, expected {es}"
            else:
                got = fibres_of(Y, axis)[:, 0]
                for k in range(len(want)):
                    if not qclose(float(got[k]), float(want[k]), sc):
                        fail = (f"_quantile(shape={shape}, axis={axis}, ratio={r}, interp={interp}, "
                                f"layout={c['layout']}, dtype={c['dtype']}) fibre {k}: {got[k]} but the "
                                f"sorted-sample definition gives {want[k]}")
                        break
        # ---------------- L2: rebuilt quantile.c and fff_vector_quantile --------------
        qlib = cshim.load("quantile")
        qlib.quantile.restype = C.c_double
        qlib.quantile.argtypes = [C.c_void_p, C.c_ssize_t, C.c_ssize_t, C.c_double, C.c_int]
        flib = fffpy()
        Xd = lay(np.array(ref), c["layout"], np.random.RandomState(c["seed"] + 1))   # float64, strided
        Xd2 = np.array(Xd, copy=True, order="K") if Xd.flags.c_contiguous else lay(np.array(ref), c["layout"], np.random.RandomState(c["seed"] + 1))
        stride = Xd.strides[axis] // 8
        lines, impl = [], []
        fibs = fibres_of(ref, axis)
        idxs = list(itertools.product(*[range(s) if a != axis else [0] for a, s in enumerate(shape)]))
        for k, idx in enumerate(idxs):
            before = [float(v) for v in fibs[k]]
            addr = Xd.ctypes.data + sum(i * s for i, s in zip(idx, Xd.strides))
            v = qlib.quantile(addr, n, stride, r, int(interp))
            sl = list(idx); sl[axis] = slice(None)
            after = [float(t) for t in Xd[tuple(sl)]]
            if fail is None and not qclose(v, float(want[k]), sc):
                fail = (f"quantile.c quantile(fibre={before}, stride={stride}, r={r}, interp={int(interp)}) = {v}, "
                        f"definition gives {want[k]}")
            if fail is None and sorted(after) != sorted(before):
                fail = f"quantile.c does not permute the fibre: {before} -> {after}"
            if stride > 0:
                fv = FVec(n, stride, C.cast(Xd2.ctypes.data + sum(i * s for i, s in zip(idx, Xd2.strides)),
                                            C.POINTER(C.c_double)), 0)
                v2 = flib.fff_vector_quantile(C.byref(fv), r, int(interp))
                if fail is None and not qclose(v2, float(want[k]), sc):
                    fail = (f"fff_vector_quantile(fibre={before}, stride={stride}, r={r}, interp={int(interp)}) = {v2}, "
                            f"definition gives {want[k]}")
                after2 = [float(t) for t in Xd2[tuple(sl)]]
                if fail is None and sorted(after2) != sorted(before):
                    fail = f"fff_vector_quantile does not permute the fibre: {before} -> {after2}"
                # the same selection loop lives in fff_vector.c: value and permuted fibre against the model
                if k < 3 and not interp and n > 1:
                    exact2 = Fraction(r) * n
                    if Fraction(float(np.float64(r) * n)) == exact2 and math.ceil(float(exact2)) < n:
                        lines.append(f"pth {int(math.ceil(float(exact2)))} {plist(before)}")
                        impl.append(("pth", v2, after2))
                        tags.append("pth-fff")
            if k < 6:
                exact = Fraction(r) * (n if not interp else n - 1)
                if Fraction(float(np.float64(r) * (n if not interp else n - 1))) == exact:
                    lines.append(f"quantile {fr(r)} {int(interp)} {plist(before)}")
                    impl.append(("q", v))
                    # the same front end assembled from the expressions regenerated from quantile.c
                    lines.append(f"kquant {fr(r)} {int(interp)} {plist(before)}")
                    impl.append(("q", v))
                    # the front end over the literal selection loops (_pth_element / _pth_interval): value and
                    # the rearranged fibre the C leaves behind
                    lines.append(f"qlit {fr(r)} {int(interp)} {plist(before)}")
                    impl.append(("qlit", v, after))
                    if not interp and n > 1:
                        p = int(math.ceil(float(exact)))
                        if p < n:
                            lines.append(f"pth {p} {plist(before)}")
                            impl.append(("pth", v, after))
                            tags.append("pth-tied")
                else:
                    tags.append("inexact-ratio")
        if r in (0.0, 1.0):
            tags.append("ratio-edge")
        return self._res(lines, impl, fail, n >= 2, tags, mut and "_quantile:X")

    def _kern(self, c):
        return c16_kcases.run(self, c)

    def _views(self, c):
        return c16_views.run(self, c)

    def _pthall(self, c):
        """exhaustive: every array of this length over {0,1,2}, every p; C (via quantile, interp=0) vs model"""
        from harness import cshim
        qlib = cshim.load("quantile")
        qlib.quantile.restype = C.c_double
        qlib.quantile.argtypes = [C.c_void_p, C.c_ssize_t, C.c_ssize_t, C.c_double, C.c_int]
        L = c["len"]
        lines, impl, fail = [], [], None
        for vals in itertools.product([0.0, 1.0, 2.0], repeat=L):
            for p in range(L):
                if L == 1:
                    continue
                r = p / L                     # ceil(r*L) == p whenever the product is exact
                if math.ceil(float(np.float64(r) * L)) != p:
                    continue
                buf = np.array(vals)
                v = qlib.quantile(buf.ctypes.data, L, 1, r, 0)
                if v != sorted(vals)[p] and fail is None:
                    fail = f"quantile.c _pth_element({list(vals)}, p={p}) = {v}, order statistic is {sorted(vals)[p]}"
                lines.append(f"pth {p} {plist(vals)}")
                impl.append(("pth", v, buf.tolist()))
        return self._res(lines, impl, fail, True, ["pth-exhaustive"])

    # ---- iterator ---------------------------------------------------------
    def _iter(self, c):
        from nipy.labs.bindings import wrapper as W
        rs = np.random.RandomState(c["seed"])
        shape, axis = c["shape"], c["axis"]
        size = int(np.prod(shape))
        base = np.arange(size, dtype=float).reshape(shape) * 0.5 + 1
        X = lay(base.astype(c["dtype"]), c["layout"], rs)
        want = fibres_of(np.array(X, dtype=float), axis)
        fail = None
        tags = ["iter", "layout=" + c["layout"], f"nd={len(shape)}"]
        # L1
        snap = Snapshot(X=X)
        for k in range(min(len(want), 12)):
            got = W.pass_vector_via_iterator(X, axis, k)
            if not np.array_equal(got, want[k]):
                fail = (f"pass_vector_via_iterator(shape={shape}, layout={c['layout']}, axis={axis}, niters={k}) "
                        f"= {got.tolist()}, fibre is {want[k].tolist()}")
                break
        if fail is None:
            Z = W.copy_via_iterators(X, axis)
            if Z.shape != X.shape or not np.array_equal(Z, np.array(X, dtype=float)):
                fail = f"copy_via_iterators(shape={shape}, layout={c['layout']}, axis={axis}) differs from the input"
        if fail is None:
            Z = W.sum_via_iterators(X, axis)
            if not np.array_equal(np.asarray(Z).reshape(-1), want.sum(1)):
                fail = f"sum_via_iterators(shape={shape}, layout={c['layout']}, axis={axis}) differs from X.sum(axis)"
        mut = snap.changed()
        # L2: rebuilt fffpy multi-iterator over an index-valued float64 buffer: values read = item offsets
        lib = fffpy()
        Xo = lay(np.zeros(shape), c["layout"], np.random.RandomState(c["seed"]))
        root = Xo
        while root.base is not None and isinstance(root.base, np.ndarray):
            root = root.base
        flat = root.reshape(-1, order="A") if root.flags.c_contiguous or root.flags.f_contiguous else None
        lines, impl = [], []
        if flat is not None and np.shares_memory(flat, root):
            flat[...] = np.arange(flat.size)
            off0 = (Xo.ctypes.data - root.ctypes.data) // 8
            it = lib.fffpy_multi_iterator_new(C.c_int(1), C.c_int(axis), C.py_object(Xo))
            got = []
            while it.contents.index < it.contents.size:
                got.append([int(v) - off0 for v in vec_values(it.contents.vector[0])])
                lib.fffpy_multi_iterator_update(it)
            lib.fffpy_multi_iterator_delete(it)
            strides = [s // 8 for s in Xo.strides]
            lines.append(f"iter {plist(shape)} {plist(strides)} {axis}")
            impl.append(("fibres", got))
            seen = sorted(v for f in got for v in f)
            allo = sorted(int(v) - off0 for v in np.array(Xo).reshape(-1))
            if fail is None and seen != allo:
                fail = (f"fffpy multi-iterator (shape={shape}, strides={strides}, axis={axis}) does not visit every "
                        f"element exactly once: offsets {seen} vs {allo}")
        return self._res(lines, impl, fail, shape[axis] >= 2 and size > shape[axis], tags, mut and "iter:X")

    # ---- BLAS level 1 and vector statistics --------------------------------------
    @staticmethod
    def _vec(base, layout, rs):
        if layout == "col":          # a column of a C matrix: stride = row length
            M = np.zeros((len(base), 3), dtype=base.dtype); M[:, 1] = base
            return M[:, 1]
        return lay(base, layout, rs)

    def _blas1(self, c):
        from nipy.labs.bindings import linalg as L
        rs = np.random.RandomState(c["seed"])
        n, al = c["n"], c["alpha"]
        x0 = dyadic(rs, n).astype(c["dtype"]); y0 = dyadic(rs, n).astype(c["dtype"])
        x = self._vec(x0, c["lx"], rs); y = self._vec(y0, c["ly"], rs)
        xf, yf = np.array(x, dtype=float), np.array(y, dtype=float)
        want = {"dnrm2": float(np.sqrt((xf * xf).sum())), "dasum": float(np.abs(xf).sum()),
                "ddot": float((xf * yf).sum()), "daxpy": (al * xf + yf).tolist(), "dscal": (al * xf).tolist()}
        lib = fffpy()
        tags = ["blas1", "lx=" + c["lx"], "ly=" + c["ly"]]
        fail = None

        def l2():
            vx = lib.fff_vector_fromPyArray(x); vy = lib.fff_vector_fromPyArray(y)
            out = {"dnrm2": lib.fff_blas_dnrm2(vx), "dasum": lib.fff_blas_dasum(vx), "ddot": lib.fff_blas_ddot(vx, vy)}
            z = lib.fff_vector_new(n); lib.fff_vector_memcpy(z, vy); lib.fff_blas_daxpy(al, vx, z)
            out["daxpy"] = vec_values(z); lib.fff_vector_delete(z)
            z = lib.fff_vector_new(n); lib.fff_vector_memcpy(z, vx); lib.fff_blas_dscal(al, z)
            out["dscal"] = vec_values(z); lib.fff_vector_delete(z)
            lib.fff_vector_delete(vx); lib.fff_vector_delete(vy)
            return out

        def l1():
            return {"dnrm2": L.blas_dnrm2(x), "dasum": L.blas_dasum(x), "ddot": L.blas_ddot(x, y),
                    "daxpy": L.blas_daxpy(al, x, y).tolist(), "dscal": L.blas_dscal(al, x).tolist()}
        snap = Snapshot(x=x, y=y)
        layers = [("rebuilt fff_blas (pyx glue replica)", l2())]
        # the installed build embeds the tree's C at build time; negative strides are observed on the rebuilt C
        if "rev" not in (c["lx"], c["ly"]):
            layers.append(("labs.bindings.linalg", l1()))
        mut = snap.changed()
        for name, got in layers:
            for k, w in want.items():
                g = got[k]
                ok = all(qclose(float(a), float(b), 64.0) for a, b in zip(np.atleast_1d(g), np.atleast_1d(w))) \
                    and len(np.atleast_1d(g)) == len(np.atleast_1d(w))
                if not ok and fail is None:
                    fail = (f"{name}: blas_{k}(x={xf.tolist()} [{c['lx']}, strides {x.strides}], y={yf.tolist()} "
                            f"[{c['ly']}, strides {y.strides}], alpha={al}) = {g}, definition gives {w}")
        # Givens rotations: wrappers that nothing in Python reaches (fff_blas_drotg / drotm / drotmg), on the rebuilt C,
        # against the definitions of the Level-1 BLAS specification; drotm on strided views
        PD = C.POINTER(C.c_double)
        lib.fff_blas_drotg.argtypes = [PD] * 4
        lib.fff_blas_drotm.argtypes = [C.POINTER(FVec), C.POINTER(FVec), PD]
        lib.fff_blas_drotmg.argtypes = [PD, PD, PD, C.c_double, PD]
        a0, b0 = float(xf[0]), float(yf[0])
        ga, gb, gc, gs = C.c_double(a0), C.c_double(b0), C.c_double(0), C.c_double(0)
        lib.fff_blas_drotg(C.byref(ga), C.byref(gb), C.byref(gc), C.byref(gs))
        sc = max(1.0, abs(a0), abs(b0))
        if fail is None and ((a0 or b0) and abs(gc.value ** 2 + gs.value ** 2 - 1) > 1e-12
                             or abs(gc.value * a0 + gs.value * b0 - ga.value) > 1e-12 * sc
                             or abs(-gs.value * a0 + gc.value * b0) > 1e-12 * sc
                             or abs(abs(ga.value) - math.hypot(a0, b0)) > 1e-12 * sc):
            fail = (f"fff_blas_drotg(a={a0}, b={b0}) -> r={ga.value}, c={gc.value}, s={gs.value}: not the Givens rotation "
                    f"(c a + s b = r, -s a + c b = 0, c^2 + s^2 = 1)")
        flag = float(rs.choice([-1.0, 0.0, 1.0, -2.0]))
        h = [float(t) for t in rs.randint(-6, 7, 4) / 2.0]
        H = {-1.0: [[h[0], h[2]], [h[1], h[3]]], 0.0: [[1.0, h[2]], [h[1], 1.0]], 1.0: [[h[0], 1.0], [-1.0, h[3]]],
             -2.0: [[1.0, 0.0], [0.0, 1.0]]}[flag]
        px, py = np.zeros(2 * n + 1), np.zeros(3 * n + 2)
        xs, ys = px[1::2], py[2::3]
        xs[:] = xf; ys[:] = yf
        P = (C.c_double * 5)(flag, *h)
        vx = lib.fff_vector_fromPyArray(xs); vy = lib.fff_vector_fromPyArray(ys)
        lib.fff_blas_drotm(vx, vy, P)
        lib.fff_vector_delete(vx); lib.fff_vector_delete(vy)
        wx, wy = H[0][0] * xf + H[0][1] * yf, H[1][0] * xf + H[1][1] * yf
        if fail is None and not (np.array_equal(xs, wx) and np.array_equal(ys, wy) and not px[0::2].any()
                                 and not py[0::3].any() and not py[1::3].any()):
            fail = (f"fff_blas_drotm(x={xf.tolist()} [stride 2], y={yf.tolist()} [stride 3], P={[flag] + h}) gives "
                    f"x={xs.tolist()}, y={ys.tolist()} (gaps of the parents: {px[0::2].tolist()}, {py[0::3].tolist()}); "
                    f"H [x; y] with H={H} is x={wx.tolist()}, y={wy.tolist()}")
        d1, d2 = float(rs.choice([0.5, 1.0, 2.0, 4.0, 0.25])), float(rs.choice([0.5, 1.0, 2.0, 3.0]))
        x1, y1 = float(rs.choice([1.0, -2.0, 0.5, 3.0, 4.0])), float(rs.choice([1.0, -1.5, 0.25, 2.0, 0.0, 8.0]))
        cd1, cd2, cx1 = C.c_double(d1), C.c_double(d2), C.c_double(x1)
        P = (C.c_double * 5)(9.0, 9.0, 9.0, 9.0, 9.0)
        lib.fff_blas_drotmg(C.byref(cd1), C.byref(cd2), C.byref(cx1), y1, P)
        fl, q = P[0], list(P)[1:]
        Hg = {-1.0: [[q[0], q[2]], [q[1], q[3]]], 0.0: [[1.0, q[2]], [q[1], 1.0]], 1.0: [[q[0], 1.0], [-1.0, q[3]]],
              -2.0: [[1.0, 0.0], [0.0, 1.0]]}.get(fl)
        e0 = d1 * x1 * x1 + d2 * y1 * y1
        if fail is None and (Hg is None or abs(Hg[1][0] * x1 + Hg[1][1] * y1) > 1e-12 * max(1.0, abs(x1), abs(y1))
                             or abs(Hg[0][0] * x1 + Hg[0][1] * y1 - cx1.value) > 1e-12 * max(1.0, abs(cx1.value))
                             or abs(cd1.value * cx1.value ** 2 - e0) > 1e-12 * max(1.0, e0)):
            fail = (f"fff_blas_drotmg(d1={d1}, d2={d2}, x1={x1}, y1={y1}) -> d1={cd1.value}, d2={cd2.value}, x1={cx1.value}, "
                    f"P={list(P)}: H does not map (x1, y1) to (x1', 0) with d1' x1'^2 = d1 x1^2 + d2 y1^2")
        tags.append(f"rotm-flag={int(flag)}")
        return self._res([], [], fail, n >= 2, tags, mut and "blas1:x/y")

    # ---- BLAS level 2/3 -----------------------------------------------------------
    def _blas3(self, c):
        from nipy.labs.bindings import linalg as L
        rs = np.random.RandomState(c["seed"])
        op, m, n, k = c["op"], c["m"], c["n"], c["k"]
        f0, f1, f2, f3 = c["flags"]
        al, be = c["alpha"], c["beta"]
        lib = fffpy()
        I = lambda sh: rs.randint(-3, 4, size=sh).astype(float)
        tags = ["blas3", "op=" + op, "flags=" + "".join(map(str, c["flags"]))]
        py = None
        pm = lambda M: f"{M.shape[0]} {M.shape[1]} " + frs(M.ravel().tolist())

        def tri(A, lower, unit):
            T = np.tril(A) if lower else np.triu(A)
            if unit:
                T = T - np.diag(np.diag(T)) + np.eye(len(A))
            return T

        def sym(A, lower):
            T = np.tril(A) if lower else np.triu(A)
            return T + T.T - np.diag(np.diag(A))
        if op == "gemm":
            A = I((k, m) if f0 else (m, k)); B = I((n, k) if f1 else (k, n)); Cm = I((m, n))
            want = al * (A.T if f0 else A) @ (B.T if f1 else B) + be * Cm
            mats = [lay(A, c["la"], rs), lay(B, c["lb"], rs), lay(Cm, c["lc"], rs)]
            line = f"gemm {f0} {f1} {fr(al)} {pm(A)} {pm(B)} {fr(be)} {pm(Cm)}"
            call = lambda a, b, cc, d: lib.fff_blas_dgemm(f_tr(f0), f_tr(f1), al, a, b, be, d)
            py = lambda: L.blas_dgemm(f0, f1, al, mats[0], mats[1], be, mats[2])
        elif op == "symm":
            A = I((n, n) if f0 else (m, m)); B = I((m, n)); Cm = I((m, n))
            S = sym(A, f1)
            want = al * (B @ S if f0 else S @ B) + be * Cm
            mats = [lay(A, c["la"], rs), lay(B, c["lb"], rs), lay(Cm, c["lc"], rs)]
            line = f"symm {f0} {f1} {fr(al)} {pm(A)} {pm(B)} {fr(be)} {pm(Cm)}"
            call = lambda a, b, cc, d: lib.fff_blas_dsymm(f_sd(f0), f_up(f1), al, a, b, be, d)
            py = lambda: L.blas_dsymm(f0, f1, al, mats[0], mats[1], be, mats[2])
        elif op in ("trmm", "trsm"):
            A = I((n, n) if f0 else (m, m)); B = I((m, n)); Cm = B
            if op == "trsm":
                A = A + np.diag(np.where(np.diag(A) == 0, 2.0, 0.0))
                A = A - np.diag(np.diag(A)) + np.diag(rs.choice([1.0, 2.0, -2.0, 4.0, 0.5], size=len(A)))
            T = tri(A, f1, f3); T = T.T if f2 else T
            if op == "trmm":
                want = al * (B @ T if f0 else T @ B)
            else:
                want = al * (B @ np.linalg.inv(T) if f0 else np.linalg.inv(T) @ B)
            mats = [lay(A, c["la"], rs), lay(B, c["lb"], rs), lay(B, c["lc"], rs)]
            line = f"{op} {f0} {f1} {f2} {f3} {fr(al)} {pm(A)} {pm(B)}"
            fn = lib.fff_blas_dtrmm if op == "trmm" else lib.fff_blas_dtrsm
            call = lambda a, b, cc, d: fn(f_sd(f0), f_up(f1), f_tr(f2), f_dg(f3), al, a, d)
            if m == n:       # the pyx glue allocates the result with A's shape
                pf = L.blas_dtrmm if op == "trmm" else L.blas_dtrsm
                py = lambda: pf(f0, f1, f2, f3, al, mats[0], mats[1])
        elif op in ("syrk", "syr2k"):
            # the wrapper takes k from A->size1 (NoTrans) / A->size2 (Trans): only square A is accepted
            A = I((n, n)); B = I((n, n)); Cm = I((n, n))
            oA = A.T if f1 else A; oB = B.T if f1 else B
            full = al * (oA @ oA.T) + be * Cm if op == "syrk" else al * (oA @ oB.T + oB @ oA.T) + be * Cm
            mask = np.tril(np.ones((n, n), bool)) if f0 else np.triu(np.ones((n, n), bool))
            want = np.where(mask, full, Cm)
            mats = [lay(A, c["la"], rs), lay(B, c["lb"], rs), lay(Cm, c["lc"], rs)]
            if op == "syrk":
                line = f"syrk {f0} {f1} {fr(al)} {pm(A)} {fr(be)} {pm(Cm)}"
                call = lambda a, b, cc, d: lib.fff_blas_dsyrk(f_up(f0), f_tr(f1), al, a, be, d)
                py = lambda: L.blas_dsyrk(f0, f1, al, mats[0], be, mats[2])
            else:
                line = f"syr2k {f0} {f1} {fr(al)} {pm(A)} {pm(B)} {fr(be)} {pm(Cm)}"
                call = lambda a, b, cc, d: lib.fff_blas_dsyr2k(f_up(f0), f_tr(f1), al, a, b, be, d)
                py = lambda: L.blas_dsyr2k(f0, f1, al, mats[0], mats[1], be, mats[2])
        else:  # gemv (not exported to Python: rebuilt C only)
            A = I((m, n)); xv = I(m if f0 else n); yv = I(n if f0 else m)
            want = al * ((A.T if f0 else A) @ xv) + be * yv
            Al = lay(A, c["la"], rs)
            xs = self._vec(xv, "step2" if f1 else "C", rs); ys = self._vec(yv, "col" if f2 else "C", rs).copy()
            a = lib.fff_matrix_fromPyArray(Al); vx = lib.fff_vector_fromPyArray(xs)
            yc = np.array(ys); vy = lib.fff_vector_fromPyArray(yc)
            lib.fff_blas_dgemv(f_tr(f0), al, a, vx, be, vy)
            got = np.array(vec_values(vy))
            lib.fff_matrix_delete(a); lib.fff_vector_delete(vx); lib.fff_vector_delete(vy)
            fail = None
            if not np.allclose(got, want, rtol=0, atol=1e-9):
                fail = f"fff_blas_dgemv(trans={f0}, alpha={al}, A={A.tolist()}, x={xv.tolist()}, beta={be}, y={yv.tolist()}) = {got.tolist()}, definition gives {want.tolist()}"
            line = f"gemv {f0} {fr(al)} {pm(A)} {plist(xv)} {fr(be)} {plist(yv)}"
            return self._res([line], [("rats", got.tolist())], fail, m != n, tags)
        snap = Snapshot(a=mats[0], b=mats[1], c=mats[2])
        a = lib.fff_matrix_fromPyArray(mats[0]); b = lib.fff_matrix_fromPyArray(mats[1])
        cc = lib.fff_matrix_fromPyArray(mats[2])
        d = lib.fff_matrix_new(cc.contents.size1, cc.contents.size2)
        lib.fff_matrix_memcpy(d, cc)
        call(a, b, cc, d)
        got = mat_values(d)
        for p in (a, b, cc, d):
            lib.fff_matrix_delete(p)
        fail = None
        if got.shape != want.shape or not np.allclose(got, want, rtol=1e-12, atol=1e-9):
            fail = (f"fff_blas_d{op}(flags={c['flags']}, alpha={al}, beta={be}, A={A.tolist()} [{c['la']}], "
                    f"B={B.tolist()} [{c['lb']}], C={Cm.tolist()}) = {got.tolist()}, definition gives {want.tolist()}")
        if py is not None and fail is None:
            try:
                g1 = np.asarray(py())
                if g1.shape != want.shape or not np.allclose(g1, want, rtol=1e-12, atol=1e-9):
                    fail = (f"labs.bindings.linalg.blas_d{op}(flags={c['flags']}, alpha={al}, beta={be}, A={A.tolist()} "
                            f"[{c['la']}], B={B.tolist()} [{c['lb']}], C={Cm.tolist()} [{c['lc']}]) = {g1.tolist()}, "
                            f"definition gives {want.tolist()}")
                tags.append("py-level")
            except Exception as e:
                fail = f"labs.bindings.linalg.blas_d{op} raised {type(e).__name__}: {e}"
        mut = snap.changed()
        nt = (m != n or c["la"] != "C" or c["lb"] != "C")
        return self._res([line] if line else [], [("mat", got.tolist())] if line else [], fail, nt, tags,
                         mut and f"blas_d{op}:operand")

    # ---- element-wise vector / matrix / array operations and conversions ------------------------
    def _vecops(self, c):
        from nipy.labs.bindings import array as AR, linalg as L, wrapper as W
        rs = np.random.RandomState(c["seed"])
        n, a = c["n"], c["a"]
        x0 = dyadic(rs, n); y0 = dyadic(rs, n); y0[y0 == 0] = 0.5
        if c["dtype"] == "uint8":
            x0 = np.abs(x0)
        x = self._vec(x0.astype(c["dtype"]), c["lx"], rs); y = self._vec(y0, c["ly"], rs)
        xf, yf = np.array(x, dtype=float), np.array(y, dtype=float)
        lib = fffpy()
        fails = []

        def chk(name, got, want, key=None, squeeze=False):
            g, w = np.asarray(got, dtype=float), np.asarray(want, dtype=float)
            if squeeze:      # fff arrays are 4-D: singleton axes are not kept by the conversion back
                g, w = np.squeeze(g), np.squeeze(w)
            if g.shape != w.shape or not np.allclose(g, w, rtol=1e-12, atol=1e-12):
                fails.append((key, f"{name} = {g.tolist()}, definition gives {w.tolist()} "
                                   f"(x={xf.tolist()} [{c['lx']}, {c['dtype']}], y={yf.tolist()} [{c['ly']}], a={a})"))
        snap = Snapshot(x=x, y=y)
        # ---- rebuilt fff_vector.c through the glue replica
        for nm, w in (("add", xf + yf), ("sub", xf - yf), ("mul", xf * yf), ("div", xf / yf)):
            vx = lib.fff_vector_fromPyArray(x); vy = lib.fff_vector_fromPyArray(y)
            z = lib.fff_vector_new(n); lib.fff_vector_memcpy(z, vx)
            getattr(lib, "fff_vector_" + nm)(z, vy)
            chk(f"fff_vector_{nm}", vec_values(z), w)
            for p in (vx, vy, z):
                lib.fff_vector_delete(p)
        for nm, w in (("scale", a * xf), ("add_constant", a + xf), ("set_all", np.full(n, a))):
            vx = lib.fff_vector_fromPyArray(x); z = lib.fff_vector_new(n); lib.fff_vector_memcpy(z, vx)
            getattr(lib, "fff_vector_" + nm)(z, a)
            chk(f"fff_vector_{nm}", vec_values(z), w)
            lib.fff_vector_delete(vx); lib.fff_vector_delete(z)
        vx = lib.fff_vector_fromPyArray(x)
        chk("fff_vector_sum", float(lib.fff_vector_sum(vx)), xf.sum())
        chk("fff_vector_sad", float(lib.fff_vector_sad(vx, a)), np.abs(xf - a).sum())
        mm = C.c_double(a)
        chk("fff_vector_ssd(fixed)", float(lib.fff_vector_ssd(vx, C.byref(mm), 1)), ((xf - a) ** 2).sum())
        mm = C.c_double(0)
        chk("fff_vector_ssd(free)", float(lib.fff_vector_ssd(vx, C.byref(mm), 0)), ((xf - xf.mean()) ** 2).sum())
        chk("fff_vector_ssd mean", mm.value, xf.mean())
        # the same reductions against the programs assembled from the text of fff_vector.c (Gen/C16Kern.lean)
        klines, kimpl = [], []
        scq = max(1.0, float((xf ** 2).sum()), a * a * n)
        klines.append(f"ksum {plist(xf.tolist())}"); kimpl.append(("rats", [float(lib.fff_vector_sum(vx))], scq))
        mm = C.c_double(a)
        klines.append(f"kssd {fr(a)} 1 {plist(xf.tolist())}")
        kimpl.append(("rats", [float(lib.fff_vector_ssd(vx, C.byref(mm), 1)), mm.value], scq))
        mm = C.c_double(0)
        klines.append(f"kssd 0 0 {plist(xf.tolist())}")
        kimpl.append(("rats", [float(lib.fff_vector_ssd(vx, C.byref(mm), 0)), mm.value], scq))
        klines.append(f"ksad {fr(a)} {plist(xf.tolist())}"); kimpl.append(("rats", [float(lib.fff_vector_sad(vx, a))], scq))
        lib.fff_vector_delete(vx)
        xm = np.array(xf, dtype=float)          # float64, contiguous: wrapped without a copy, permuted in place
        vm = lib.fff_vector_fromPyArray(xm)
        med = float(lib.fff_vector_median(vm)); lib.fff_vector_delete(vm)
        klines.append(f"kmedian {plist(xf.tolist())}"); kimpl.append(("qlit", med, [float(t) for t in xm]))
        if sorted(xm.tolist()) != sorted(xf.tolist()):
            fails.append((None, f"fff_vector_median does not permute its buffer: {xf.tolist()} -> {xm.tolist()}"))
        for nm, w, args in (("median", np.median(xf), ()), ("quantile", np.percentile(xf, 25), (0.25, 1)),
                            ("quantile", np.percentile(xf, 75), (0.75, 1))):
            xc = np.array(x); vx = lib.fff_vector_fromPyArray(xc)
            chk(f"fff_vector_{nm}{args}", getattr(lib, "fff_vector_" + nm)(vx, *args), w)
            lib.fff_vector_delete(vx)
        # ---- installed extension modules (pyx glue)
        if c["lx"] != "rev" and c["ly"] != "rev":
            chk("linalg.vector_add", L.vector_add(x, y), xf + yf)
            chk("linalg.vector_sub", L.vector_sub(x, y), xf - yf)
            chk("linalg.vector_mul", L.vector_mul(x, y), xf * yf)
            chk("linalg.vector_div", L.vector_div(x, y), xf / yf, "vector-div-multiplies")
            chk("linalg.vector_scale", L.vector_scale(x, a), a * xf)
            chk("linalg.vector_add_constant", L.vector_add_constant(x, a), a + xf)
            chk("linalg.vector_set_all", L.vector_set_all(x, a), np.full(n, a))
            i = int(rs.randint(n))
            chk("linalg.vector_get", L.vector_get(x, i), xf[i])
            w = xf.copy(); w[i] = a
            chk("linalg.vector_set", L.vector_set(x, i, a), w)
            chk("linalg.vector_sum", L.vector_sum(x), xf.sum())
            chk("linalg.vector_ssd", L.vector_ssd(x, a, 1), ((xf - a) ** 2).sum())
            chk("linalg.vector_ssd(free)", L.vector_ssd(x, 0, 0), ((xf - xf.mean()) ** 2).sum())
            chk("linalg.vector_sad", L.vector_sad(x, a), np.abs(xf - a).sum())
            if n != 2:    # n == 2: top interval of the embedded _fff_pth_interval, observed on the rebuilt C
                chk("linalg.vector_median", L.vector_median(np.array(x)), np.median(xf))
                chk("linalg.vector_quantile", L.vector_quantile(np.array(x), 0.25, 1), np.percentile(xf, 25))
            chk("wrapper.pass_vector", W.pass_vector(x), xf)
            chk("wrapper.copy_vector(0)", W.copy_vector(x, 0), xf)
            chk("wrapper.copy_vector(1)", W.copy_vector(x, 1), xf)
        # matrices and arrays
        sh = c["shape4"]
        A0 = dyadic(rs, sh); B0 = dyadic(rs, sh); B0[B0 == 0] = 0.25
        A = lay(A0.astype(c["dtype"]) if c["dtype"] != "uint8" else np.abs(A0).astype("uint8"), c["la"], rs)
        B = lay(B0, "C", rs)
        Af = np.array(A, dtype=float)
        snapA = Snapshot(A=A)
        A64 = lay(A0, c["la"], rs)         # the result takes A's datatype: arithmetic is checked in double
        chk("array.array_add", AR.array_add(A64, B), A0 + B0, squeeze=True)
        chk("array.array_sub", AR.array_sub(A64, B), A0 - B0, squeeze=True)
        chk("array.array_mul", AR.array_mul(A64, B), A0 * B0, squeeze=True)
        chk("array.array_div", AR.array_div(A64, B), A0 / B0, squeeze=True)
        chk("wrapper.pass_array", W.pass_array(A), Af, squeeze=True)
        idx = [int(rs.randint(s)) for s in sh]
        chk("array.array_get", AR.array_get(A, *idx), Af[tuple(idx)])
        # fff_array_get_block / fff_array_get: the C of the working tree (rebuilt), through the glue of
        # array.pyx (fromPyArray -> get_block -> element reads); never through the installed build
        fa = lib.fff_array_fromPyArray(A)
        for _ in range(4):
            blk, sl = [], []
            for s in sh:
                i0 = int(rs.randint(s)); i1 = int(rs.randint(i0, s)); f = int(rs.randint(1, 4))
                blk += [i0, i1, f]; sl.append(slice(i0, i1 + 1, f))
            blk4 = blk + [0, 0, 1] * (4 - len(sh))
            sub = lib.fff_array_get_block(fa, *blk4)
            dims = (sub.dimX, sub.dimY, sub.dimZ, sub.dimT)
            want = Af[tuple(sl)].reshape([len(range(*s_.indices(n_))) for s_, n_ in zip(sl, sh)] + [1] * (4 - len(sh)))
            if dims != want.shape:
                fails.append((None, f"fff_array_get_block(shape={sh}, block (x0,x1,fX,...)={blk4}) has dims {dims}, the strided block A["
                                    + ", ".join(f"{a_}:{b_ + 1}:{c_}" for a_, b_, c_ in zip(blk4[0::3], blk4[1::3], blk4[2::3]))
                                    + f"] has shape {want.shape}"))
            else:
                got = np.array([lib.fff_array_get(C.byref(sub), *ix) for ix in
                                itertools.product(*[range(d_) for d_ in dims])]).reshape(dims)
                chk(f"fff_array_get_block(shape={sh}, block={blk4})", got, want)
        full4 = Af.reshape(list(sh) + [1] * (4 - len(sh)))
        ix = tuple(idx) + (0,) * (4 - len(sh))
        chk("fff_array_get", lib.fff_array_get(fa, *ix), full4[ix])
        lib.fff_array_delete(fa)
        if len(sh) == 2:
            chk("linalg.matrix_transpose", L.matrix_transpose(A), Af.T)
            chk("linalg.matrix_add", L.matrix_add(A, B), Af + B0)
            chk("linalg.matrix_get", L.matrix_get(A, idx[0], idx[1]), Af[idx[0], idx[1]])
            chk("wrapper.pass_matrix", W.pass_matrix(A), Af)
            ma = lib.fff_matrix_fromPyArray(A); mt = lib.fff_matrix_new(sh[1], sh[0])
            lib.fff_matrix_transpose(mt, ma)
            chk("fff_matrix_transpose", mat_values(mt), Af.T)
            lib.fff_matrix_delete(ma); lib.fff_matrix_delete(mt)
        for t in ("uint8", "int8", "uint16", "int16", "uint32", "int32", "uint64", "int64", "float32", "float64"):
            name, nb = W.fff_type(np.dtype(t))
            if name == "unknown type" or nb != np.dtype(t).itemsize:
                fails.append((None, f"wrapper.fff_type({t}) = {(name, nb)}: wrong item size"))
            elif W.npy_type(name) != (name, nb):
                fails.append((None, f"wrapper.npy_type({name!r}) = {W.npy_type(name)}, fff_type gave {(name, nb)}"))
        mut = snap.changed() or snapA.changed()
        fail = None
        self._last_key = None
        if fails:
            # a known-finding failure must not hide another one
            other = [f for f in fails if f[0] is None]
            fail = (other or sorted(fails, key=lambda f: f[0]))[0][1]
        tags = ["vecops", "lx=" + c["lx"], "la=" + c["la"], f"and={len(sh)}"]
        return self._res(klines, kimpl, fail, n >= 2, tags, mut and "vecops:operand")

    # ---- histogram -------------------------------------------------------------
    def _hist(self, c):
        from nipy.algorithms.statistics.histogram import histogram
        rs = np.random.RandomState(c["seed"])
        base = rs.randint(0, c["top"] + 1, size=c["shape"])
        X = lay(base.astype(c["dtype"]), c["layout"], rs)
        snap = Snapshot(X=X)
        try:
            h = histogram(X)
            obs = ("nats", [int(v) for v in h])
        except Exception as e:
            obs = ("txt", errname(e))
        mut = snap.changed()
        fail = None
        tags = ["hist", "layout=" + c["layout"]]
        if np.dtype(c["dtype"]) != np.dtype("uintp"):
            tags.append("refused")
            if obs != ("txt", "error:valueError"):
                fail = f"histogram accepted dtype {c['dtype']}: {obs}"
            return self._res([], [], fail, True, tags, mut and "histogram:x")
        want = np.bincount(base.ravel(), minlength=int(base.max()) + 1)
        if obs[0] != "nats" or obs[1] != want.tolist():
            fail = f"histogram(shape={c['shape']}, layout={c['layout']}) = {obs[1]}, counts are {want.tolist()}"
        line = "hist " + plist(np.array(X).ravel().tolist())
        return self._res([line], [obs], fail, base.size >= 2, tags, mut and "histogram:x")

    # ---- cubic spline -------------------------------------------------------------
    def _spline(self, c):
        from harness import cshim
        lib = cshim.load("registration")
        lib.cubic_spline_transform.argtypes = [C.py_object, C.py_object]
        lib.cubic_spline_transform.restype = None
        lib.cubic_spline_basis.restype = C.c_double; lib.cubic_spline_basis.argtypes = [C.c_double]
        rs = np.random.RandomState(c["seed"])
        shape, modes = c["shape"], c["modes"]
        nd = len(shape)
        src0 = dyadic(rs, shape, lo=-4, hi=5, den=2)
        if c["src_dtype"] != "float64":
            src0 = np.round(src0)
        src = lay(src0.astype(c["src_dtype"]), c["layout"], rs)
        snap = Snapshot(src=src)
        coef = np.zeros(shape)
        lib.cubic_spline_transform(coef, src)
        mut = snap.changed()
        fn = getattr(lib, f"cubic_spline_sample{nd}d")
        fn.restype = C.c_double
        fn.argtypes = [C.c_double] * nd + [C.py_object] + [C.c_int] * nd
        coefv = lay(coef, c["layout"], rs)       # sampling reads the coefficients through their strides
        sc = max(1.0, float(np.abs(src0).max()))
        fail = None
        tags = ["spline", f"nd={nd}", "layout=" + c["layout"]] + (["short-axis"] if min(shape) <= 2 else [])
        # oracle 1: grid points reproduce the samples under every boundary mode
        grid = list(itertools.product(*[range(s) for s in shape]))
        if len(grid) > 40:
            grid = [grid[i] for i in sorted(rs.choice(len(grid), 40, replace=False))]
        if any(st < 0 for st in coefv.strides) and not survives(
                lambda: [fn(*[float(t) for t in g], coefv, *modes) for g in grid]):
            return self._res([], [], f"cubic_spline_sample{nd}d crashes the interpreter (segmentation fault) on a "
                             f"shape-{shape} coefficient array with strides {coefv.strides}", True,
                             tags + ["segfault"], mut and "cspline:src")
        for g in grid:
            v = fn(*[float(t) for t in g], coefv, *modes)
            if abs(v - float(src0[g])) > 1e-9 * sc:
                fail = (f"cubic_spline_sample{nd}d at grid point {list(g)} of a shape-{shape} array, modes "
                        f"{[MODES[m] for m in modes]}: {v}, sample is {float(src0[g])}")
                break
        # oracle 2: the coefficients solve the mirror-symmetric B-spline system along each axis
        if fail is None:
            rec = coef.copy()
            for ax, s in enumerate(shape):
                idx = np.arange(s)
                mir = lambda i: (np.zeros_like(i) if s == 1 else np.where((i % (2 * (s - 1))) > s - 1, 2 * (s - 1) - i % (2 * (s - 1)), i % (2 * (s - 1))))
                rec = (np.take(rec, mir(idx - 1), ax) + 4 * rec + np.take(rec, mir(idx + 1), ax)) / 6
            if not np.allclose(rec, src0, rtol=0, atol=1e-9 * sc):
                fail = f"cubic_spline_transform(shape={shape}, layout={c['layout']}): B-spline synthesis of the coefficients differs from the source by {np.abs(rec - src0).max()}"
        # off-grid points (inside, outside on both sides, beyond the limits), all modes
        pts = c16_spline.gen_points(rs, shape, modes, 10)
        vals = [fn(*p, coefv, *modes) for p in pts]
        line = (f"sample {fr(C23)} {plist(shape)} {plist(modes)} {plist(coef.ravel().tolist())} "
                f"{len(pts)} " + " ".join(frs(p) for p in pts))
        # oracle 3: sampling equals the definition  sum_k c[mirror(k)] beta3(x - k)  (tensor product,
        # boundary modes as documented), on the C coefficients and - through SciPy's mirror spline of
        # the samples - independently of them
        if fail is None:
            for p, v in zip(pts, vals):
                w = c16_spline.sample_def(coef, p, modes)
                if abs(v - w) > 1e-9 * sc:
                    fail = (f"cubic_spline_sample{nd}d at {p} of a shape-{shape} array [{c['layout']}], modes "
                            f"{[MODES[m] for m in modes]}: {v!r}, the definition sum_k c[mirror(k)] beta3(x-k) "
                            f"gives {w!r}")
                    break
        if fail is None:
            ws = c16_spline.scipy_def(src0, pts, modes)
            for p, v, w in zip(pts, vals, ws):
                if abs(v - w) > 1e-8 * sc:
                    fail = (f"cubic_spline_transform + cubic_spline_sample{nd}d at {p} of a shape-{shape} array, modes "
                            f"{[MODES[m] for m in modes]}: {v!r}, scipy.ndimage.map_coordinates(order=3, "
                            f"mode='mirror') at the boundary-transformed point gives {w!r}")
                    break
        # oracle 4: mirror symmetry of the reflect mode about both ends of the grid
        if fail is None:
            for p in pts:
                for ax, (s_, m) in enumerate(zip(shape, modes)):
                    dd = s_ - 1
                    if m != 2:
                        continue
                    for q in ([-p[ax]] if abs(p[ax]) <= dd else []) + \
                             ([2 * dd - p[ax]] if 0 <= p[ax] <= 2 * dd else []):
                        p2 = list(p); p2[ax] = float(q)
                        a, b = fn(*p, coefv, *modes), fn(*p2, coefv, *modes)
                        if abs(a - b) > 1e-9 * sc:
                            fail = (f"cubic_spline_sample{nd}d (reflect) on a shape-{shape} array is not mirror "
                                    f"symmetric: s({p}) = {a!r} but s({p2}) = {b!r}")
                            break
                    if fail:
                        break
                if fail:
                    break
        # oracle 5: cubic_spline_resample3d = sampling at the affinely transformed voxel coordinates
        if nd == 3 and fail is None:
            odims = [int(rs.randint(1, 4)) for _ in range(3)]
            T = np.zeros((3, 4))
            for i_ in range(3):
                T[i_, i_] = float(rs.choice([1.0, 0.5, -1.0, 2.0, 1.25]))
                T[i_, (i_ + 1) % 3] = float(rs.choice([0.0, 0.0, 0.25, -0.5]))
                T[i_, 3] = float(rs.choice([0.0, 0.5, -0.75, 1.0, float(shape[i_] - 1), -1.5]))
            out = np.full(odims, 7.0, dtype=str(rs.choice(["float64", "float64", "float32"])))
            Tc = np.ascontiguousarray(T.ravel())
            lib.cubic_spline_resample3d.restype = None
            lib.cubic_spline_resample3d.argtypes = [C.py_object, C.py_object, C.c_void_p, C.c_int, C.c_int, C.c_int]
            snap3 = Snapshot(src=src)
            lib.cubic_spline_resample3d(out, src, Tc.ctypes.data, *modes)
            mut = mut or snap3.changed()
            for g in itertools.product(*[range(d_) for d_ in odims]):
                q = (T[:, :3] @ np.array(g, dtype=float) + T[:, 3]).tolist()
                w = c16_spline.sample_def(coef, q, modes)
                if abs(float(out[g]) - w) > 1e-6 * sc:
                    fail = (f"cubic_spline_resample3d(shape={shape}, Tvox={T.tolist()}, modes {[MODES[m] for m in modes]}) "
                            f"at output voxel {list(g)} (source point {q}): {float(out[g])!r}, definition {w!r}")
                    break
            tags.append("resample3d")
        bx = [float(t) for t in np.round(rs.uniform(-2.5, 2.5, 5) * 16) / 16]
        bx += [float(t) for t in rs.choice([0.0, 1.0, -1.0, 2.0, -2.0, 0.5, -1.5, 1.9375, -0.0625], 3)]
        bv = [lib.cubic_spline_basis(t) for t in bx]
        lines = [line, f"basis {fr(C23)} {plist(bx)}", f"kbasis {plist(bx)}"]
        impl = [("rats", vals, sc), ("rats", bv, 1.0), ("rats", bv, 1.0)]
        if nd == 1:
            # cubic_spline_sample1d assembled from the expressions regenerated from the C text
            lines.append(f"ksample {modes[0]} {plist(coef.ravel().tolist())} {len(pts)} " + " ".join(fr(p[0]) for p in pts))
            impl.append(("rats", vals, sc))
        # the prefilter in exact arithmetic: with the truncated constants of the C source (rationals) and with
        # the exact pole sqrt(3)-2 in Q(sqrt 3) (the model also decides exactly that the coefficients
        # reproduce the samples: flag 1)
        if coef.size <= 256:
            sp = f"{plist(shape)} {plist(src0.ravel().tolist())}"
            lines += [f"cst {fr(Z1)} 0 {fr(CZ1)} 0 {sp}", f"cst -2 1 0 1/6 {sp}"]
            impl += [("cst", coef.ravel().tolist(), sc, False), ("cst", coef.ravel().tolist(), sc, True)]
        # installed extension (pyx glue) on the same data: only where the embedded C is the tree's C
        if min(shape) >= 3 and all(st > 0 for st in coefv.strides):
            from nipy.algorithms.registration import _registration as reg
            c1 = reg._cspline_transform(src)
            if fail is None and not np.allclose(c1, coef, rtol=0, atol=1e-9 * sc):
                fail = f"_cspline_transform(shape={shape}, layout={c['layout']}) differs from cubic_spline_transform"
            P = np.array([list(map(float, g)) for g in grid]).T
            R = np.zeros(len(grid))
            f1 = getattr(reg, f"_cspline_sample{nd}d")
            kw = dict(zip(["mode"] if nd == 1 else ["mx", "my", "mz", "mt"][:nd], [MODES[m] for m in modes]))
            f1(R, coefv, *[P[i] for i in range(nd)], **kw)
            want = np.array([float(src0[g]) for g in grid])
            if fail is None and not np.allclose(R, want, rtol=0, atol=1e-9 * sc):
                fail = f"_cspline_sample{nd}d(shape={shape}, modes={kw}) does not reproduce the samples at grid points"
            tags.append("py-level")
        return self._res(lines, impl, fail, max(shape) >= 2, tags, mut and "cspline:src")

    # ---- permutations / combinations ----------------------------------------------
    def _perm(self, c):
        from nipy.labs.utils import routines as R
        lib = fffpy()
        n, k, m, magic = c["n"], c["k"], c["m"], c["magic"]
        fail = None
        lines, impl = [], []
        P = np.asarray(R.permutations(n, m, magic)).reshape(n, m)
        Cb = np.asarray(R.combinations(k, n, m, magic)).reshape(k, m) if k >= 1 else None
        for i in range(m):
            buf = (C.c_uint * n)()
            lib.fff_permutation(buf, n, magic + i)
            p2 = list(buf)
            if sorted(p2) != list(range(n)):
                fail = f"fff_permutation(n={n}, magic={magic + i}) = {p2} is not a permutation of 0..{n - 1}"
            if P.shape != (n, m) or P[:, i].tolist() != p2:
                fail = fail or f"routines.permutations(n={n}, m={m}, magic={magic}) column {i} = {P[:, i].tolist()} vs fff_permutation {p2}"
            lines.append(f"perm {n} {magic + i}"); impl.append(("nats", p2))
            if k >= 1:
                buf = (C.c_uint * k)()
                lib.fff_combination(buf, k, n, magic + i)
                c2 = list(buf)
                if any(b <= a for a, b in zip(c2, c2[1:])) or any(v >= n for v in c2):
                    fail = fail or f"fff_combination(k={k}, n={n}, magic={magic + i}) = {c2} is not a strictly increasing subset of 0..{n - 1}"
                if Cb.shape != (k, m) or Cb[:, i].tolist() != c2:
                    fail = fail or f"routines.combinations(k={k}, n={n}, m={m}, magic={magic}) column {i} = {Cb[:, i].tolist()} vs fff_combination {c2}"
                lines.append(f"comb {k} {n} {magic + i}"); impl.append(("nats", c2))
        return self._res(lines, impl, fail, n >= 3, ["perm"])

    def _permbig(self, c):
        """the seed is an `unsigned long`: decoding against the mixed-radix / combinatorial-number-system definition in
        exact integers over the whole 64-bit range; distinct seeds below n! (below C(n,k)) give distinct results"""
        lib = fffpy()
        n, cn, ck = c["n"], c["cn"], c["ck"]
        fail = None
        lines, impl = [], []
        got = {}
        for magic in c["magics"]:
            if not 0 <= magic < (1 << 64):
                continue
            buf = (C.c_uint * n)()
            lib.fff_permutation(buf, n, magic)
            p = list(buf)
            rest, m, want = list(range(n)), magic, []
            for nc in range(n, 0, -1):          # factorial number system, least significant digit first
                want.append(rest.pop(m % nc)); m //= nc
            if p != want and fail is None:
                fail = (f"fff_permutation(n={n}, magic={magic}) = {p}: the factorial-number-system decoding of the seed "
                        f"(digits magic % n, (magic / n) % (n-1), ...) is {want}")
            got[magic] = tuple(p)
            lines.append(f"perm {n} {magic}"); impl.append(("nats", p))
        inr = sorted(mg for mg in got if mg < math.factorial(n))
        for a in inr:
            for b in inr:
                if a < b and got[a] == got[b] and fail is None:
                    fail = (f"fff_permutation(n={n}): the distinct seeds {a} and {b} (both below n! = {math.factorial(n)}) "
                            f"give the same permutation {list(got[a])}")
        got, tot = {}, math.comb(cn, ck)
        for magic in c["cmagics"]:
            if not 0 <= magic < (1 << 64):
                continue
            buf = (C.c_uint * ck)()
            lib.fff_combination(buf, ck, cn, magic)
            cb = list(buf)
            m, kk, nn, i, want = magic % tot, ck, cn, 0, []
            while kk > 0:                       # combinatorial number system
                nn -= 1
                cc = math.comb(nn, kk - 1)
                if m < cc:
                    want.append(i); kk -= 1
                else:
                    m -= cc
                i += 1
            if cb != want and fail is None:
                fail = (f"fff_combination(k={ck}, n={cn}, magic={magic}) = {cb}: the combination of rank magic mod C(n,k) "
                        f"= {magic % tot} in the combinatorial number system is {want}")
            got[magic] = tuple(cb)
            lines.append(f"comb {ck} {cn} {magic}"); impl.append(("nats", cb))
        inr = sorted(mg for mg in got if mg < tot)
        for a in inr:
            for b in inr:
                if a < b and got[a] == got[b] and fail is None:
                    fail = (f"fff_combination(k={ck}, n={cn}): the distinct seeds {a} and {b} (both below C(n,k) = {tot}) "
                            f"give the same combination {list(got[a])}")
        big = any(mg >= (1 << 32) for mg in c["magics"] + c["cmagics"])
        return self._res(lines, impl, fail, n >= 3, ["perm-64bit"] + (["seed>=2^32"] if big else []))

    def _permall(self, c):
        """distinctness within the enumeration range: all n! magics, all C(n,k) magics"""
        lib = fffpy()
        n = c["n"]
        fail = None
        seen = set()
        lines, impl = [], []
        for magic in range(math.factorial(n)):
            buf = (C.c_uint * n)()
            lib.fff_permutation(buf, n, magic)
            seen.add(tuple(buf))
            if n <= 4:
                lines.append(f"perm {n} {magic}"); impl.append(("nats", list(buf)))
        if len(seen) != math.factorial(n) or any(sorted(s) != list(range(n)) for s in seen):
            fail = f"fff_permutation(n={n}): magics 0..{math.factorial(n) - 1} give {len(seen)} distinct valid permutations"
        for k in range(1, n + 1):
            seen = set()
            for magic in range(math.comb(n, k)):
                buf = (C.c_uint * k)()
                lib.fff_combination(buf, k, n, magic)
                seen.add(tuple(buf))
                if n <= 5:
                    lines.append(f"comb {k} {n} {magic}"); impl.append(("nats", list(buf)))
            if len(seen) != math.comb(n, k):
                fail = fail or f"fff_combination(k={k}, n={n}): magics 0..{math.comb(n, k) - 1} give {len(seen)} distinct combinations"
        return self._res(lines, impl, fail, n >= 3, ["perm-exhaustive"])

    # ---- special functions ----------------------------------------------------------
    def _specfun(self, c):
        from scipy import special
        from nipy.labs.utils import routines as R
        lib = fffpy()
        rs = np.random.RandomState(c["seed"])
        xs = np.concatenate([rs.uniform(0.01, 3, 6), rs.uniform(3, 60, 4), 10 ** rs.uniform(-4, 4, 4),
                             rs.randint(1, 30, 3).astype(float), rs.randint(1, 30, 2) + 0.5])
        fail = None
        for x in xs:
            x = float(x)
            for nm, f2, f1, ref in (("gamln", lib.fff_gamln, R.gamln, special.gammaln),
                                    ("psi", lib.fff_psi, R.psi, special.psi)):
                w = float(ref(x))
                for layer, f in (("fff_" + nm, f2), ("routines." + nm, f1)):
                    g = float(f(x))
                    if not (abs(g - w) <= 1e-7 * max(1.0, abs(w))) and fail is None:
                        fail = f"{layer}({x!r}) = {g!r}, scipy.special gives {w!r}"
        # recurrences of the definitions: ln Gamma(x+1) = ln Gamma(x) + ln x,  psi(x+1) = psi(x) + 1/x
        for x in xs:
            x = float(x)
            if x > 1e3:
                continue
            d1 = lib.fff_gamln(x + 1.0) - lib.fff_gamln(x) - math.log(x)
            d2 = lib.fff_psi(x + 1.0) - lib.fff_psi(x) - 1.0 / x
            sc1 = max(1.0, abs(lib.fff_gamln(x)), abs(math.log(x)))
            if not abs(d1) <= 1e-7 * sc1 and fail is None:
                fail = f"fff_gamln({x + 1.0!r}) - fff_gamln({x!r}) - ln({x!r}) = {d1!r}: the recurrence of ln Gamma fails"
            if not abs(d2) <= 1e-7 * max(1.0, 1.0 / x, abs(lib.fff_psi(x))) and fail is None:
                fail = f"fff_psi({x + 1.0!r}) - fff_psi({x!r}) - 1/{x!r} = {d2!r}: the recurrence of the digamma function fails"
        return self._res([], [], fail, True, ["specfun"])

    # ---- Mahalanobis distances and singular values ---------------------------------------------
    def _lapack(self, c):
        from nipy.labs.utils import routines as R
        lib = fffpy()
        rs = np.random.RandomState(c["seed"])
        d, n2, K = c["d"], c["n2"], c["K"]
        fail = None
        X0 = dyadic(rs, [d] + K)
        G = rs.randint(-2, 3, size=[d, d + 1] + K).astype(float)
        VX0 = np.einsum("ik...,jk...->ij...", G, G) + np.eye(d).reshape([d, d] + [1] * len(K))
        X = lay(X0, c["layout"], rs); VX = np.ascontiguousarray(VX0)
        snap = Snapshot(X=X, VX=VX)
        D2 = np.asarray(R.mahalanobis(X, VX))
        mut = snap.changed()
        want = np.zeros(K)
        for idx in itertools.product(*[range(s) for s in K]):
            sl = (slice(None),) + idx
            x = X0[sl]; S = VX0[(slice(None), slice(None)) + idx]
            want[idx] = x @ np.linalg.solve(S, x)
            # rebuilt fff_mahalanobis
            xv = lib.fff_vector_new(d); Sm = lib.fff_matrix_new(d, d); aux = lib.fff_matrix_new(d, d)
            xa = lib.fff_vector_fromPyArray(np.ascontiguousarray(x)); lib.fff_vector_memcpy(xv, xa)
            Sa = lib.fff_matrix_fromPyArray(np.ascontiguousarray(S)); lib.fff_matrix_memcpy(Sm, Sa)
            g = lib.fff_mahalanobis(xv, Sm, aux)
            for p in (xv, xa):
                lib.fff_vector_delete(p)
            for p in (Sm, aux, Sa):
                lib.fff_matrix_delete(p)
            if fail is None and not abs(g - want[idx]) <= 1e-9 * max(1.0, abs(want[idx])):
                fail = f"fff_mahalanobis(x={x.tolist()}, S={S.tolist()}) = {g}, x' S^-1 x = {want[idx]}"
        if fail is None and (D2.shape != tuple(K) or not np.allclose(D2, want, rtol=1e-9, atol=1e-9)):
            fail = f"routines.mahalanobis(X shape {X0.shape} [{c['layout']}], VX shape {VX0.shape}) = {D2.tolist()}, definition gives {want.tolist()}"
        A0 = dyadic(rs, [d, n2] + K)
        A = lay(A0, c["layout"], rs)
        wantS = np.zeros([min(d, n2)] + K)
        dmin, dmax = min(d, n2), max(d, n2)
        lwork = 2 * (3 * dmin * dmin + max(dmax, 4 * dmin * (dmin + 1)))
        for idx in itertools.product(*[range(s) for s in K]):
            M = A0[(slice(None), slice(None)) + idx]
            wantS[(slice(None),) + idx] = np.linalg.svd(M, compute_uv=False)
            # rebuilt fff_lapack_dgesdd with the allocations of routines.svd; the matrix lives in the
            # middle of a larger buffer so that a wrong leading dimension reads/writes there, not the heap
            pad = np.zeros(3 * dmax * dmax + 8)
            pad[dmax * dmax:dmax * dmax + d * n2] = M.ravel()
            x = FMat(d, n2, n2, C.cast(pad.ctypes.data + 8 * dmax * dmax, C.POINTER(C.c_double)), 0)
            work = lib.fff_vector_new(lwork); iwork = lib.fff_array_new(5, 8 * dmin, 1, 1, 1)
            Aux = lib.fff_matrix_new(dmax, dmax); U = lib.fff_matrix_new(d, d); Vt = lib.fff_matrix_new(n2, n2)
            sv = lib.fff_vector_new(dmin)
            lib.fff_lapack_dgesdd(C.byref(x), sv, U, Vt, work, iwork, Aux)
            g = vec_values(sv)
            lib.fff_vector_delete(work); lib.fff_array_delete(iwork); lib.fff_vector_delete(sv)
            for q_ in (Aux, U, Vt):
                lib.fff_matrix_delete(q_)
            if fail is None and not np.allclose(g, wantS[(slice(None),) + idx], rtol=1e-9, atol=1e-9):
                fail = (f"fff_lapack_dgesdd on the {d}x{n2} matrix {M.tolist()}: singular values {g}, "
                        f"numpy.linalg.svd gives {wantS[(slice(None),) + idx].tolist()}")
        tags = ["lapack", "layout=" + c["layout"], "svd-tall" if d > n2 else "svd-wide"]
        if d <= n2:      # tall matrices: the embedded dgesdd wrapper is observed on the rebuilt C only
            S = np.asarray(R.svd(A))
            if fail is None and (S.shape != wantS.shape or not np.allclose(S, wantS, rtol=1e-9, atol=1e-9)):
                fail = f"routines.svd(shape {A0.shape} [{c['layout']}]) = {S.tolist()}, singular values are {wantS.tolist()}"
            tags.append("py-level-svd")
        return self._res([], [], fail, d >= 2, tags, mut and "mahalanobis:operand")

    # ------------------------------------------------------------------
    def compare(self, case, impl_obs, model_out):
        kind = impl_obs[0]
        if kind == "txt":
            return None if impl_obs[1] == model_out else f"impl={impl_obs[1]} model={model_out}"
        if kind == "q":
            v = impl_obs[1]
            if model_out == "inf":
                return None if v == math.inf else f"impl={v} model=+inf"
            if math.isinf(v):
                return f"impl=inf model={model_out}"
            return cmp_rats([v], model_out, 1e-12, 1e-12)
        if kind == "qlit":
            _, v, after = impl_obs
            try:
                head, arr = model_out.split(" | ")
            except Exception:
                return f"unparsable model output {model_out[:80]!r}"
            if head.strip() == "inf":
                if v != math.inf:
                    return f"value impl={v} model=+inf"
            else:
                d = cmp_rats([v], head, 1e-12, 1e-12)
                if d:
                    return "value " + d
            if [Fraction(t) for t in after] != parse_rats(arr):
                return f"rearranged fibre impl={after} model={[float(t) for t in parse_rats(arr)]}"
            return None
        if kind == "pth":
            _, v, after = impl_obs
            try:
                head, arr = model_out.split(" | ")
                mv, spec = parse_rats(head)
            except Exception:
                return f"unparsable model output {model_out[:80]!r}"
            if mv != spec:
                return f"model of _pth_element returns {mv}, order statistic is {spec}"
            if Fraction(v) != mv:
                return f"value impl={v} model={float(mv)}"
            if [Fraction(t) for t in after] != parse_rats(arr):
                return f"permuted fibre impl={after} model={[float(t) for t in parse_rats(arr)]}"
            return None
        if kind == "fibres":
            want = " | ".join(" ".join(str(v) for v in f) for f in impl_obs[1])
            return None if want == model_out else f"impl={want} model={model_out}"
        if kind == "nats":
            want = " ".join(str(v) for v in impl_obs[1])
            return None if want == model_out else f"impl={want} model={model_out}"
        if kind == "mat":
            flat = [v for row in impl_obs[1] for v in row]
            return cmp_rats(flat, model_out, 1e-12, 1e-9)
        if kind == "cst":
            _, vals, sc, exact = impl_obs
            try:
                flag, pa, pb = model_out.split(" | ")
                A, B = parse_rats(pa), parse_rats(pb)
            except Exception:
                return f"unparsable model output {model_out[:80]!r}"
            if len(A) != len(vals):
                return f"length impl={len(vals)} model={len(A)}"
            if exact and flag.strip() != "1":
                return "with the exact pole the model's coefficients do not reproduce the samples exactly"
            r3 = math.sqrt(3.0)
            tol = (1e-9 if exact else 1e-11) * sc
            for k, (v, a, b) in enumerate(zip(vals, A, B)):
                m = float(a) + float(b) * r3
                if abs(v - m) > tol:
                    return f"coefficient {k}: impl={v!r} model={m!r}"
            return None
        if kind in ("optrats", "optints", "kprng"):
            return c16_kcases.compare(impl_obs, model_out, cmp_rats)
        if kind == "rats":
            sc = impl_obs[2] if len(impl_obs) > 2 else 1.0
            return cmp_rats(impl_obs[1], model_out, 1e-11, 1e-11 * sc)
        return "unknown observation kind"

    def shrink(self, case):
        k = case["kind"]
        if k == "views":
            yield from c16_views.shrink(case)
            return
        if k == "kern":
            yield from c16_kcases.shrink(case)
            return
        if k == "permbig":
            for key in ("magics", "cmagics"):
                if len(case[key]) > 1:
                    for i in range(len(case[key])):
                        c = dict(case); c[key] = case[key][:i] + case[key][i + 1:]
                        yield c
            for key, lo in (("n", 1), ("cn", 2)):
                if case[key] > lo:
                    c = dict(case); c[key] = case[key] - 1; c["ck"] = min(c["ck"], c["cn"])
                    yield c
            if case["ck"] > 1:
                c = dict(case); c["ck"] = case["ck"] - 1
                yield c
            return
        if "shape" in case:
            sh = case["shape"]
            for i, s in enumerate(sh):
                if s > 1:
                    c = dict(case); c["shape"] = sh[:i] + [s - 1] + sh[i + 1:]
                    yield c
            if len(sh) > 1:
                for i in range(len(sh)):
                    if k in ("quantile", "iter") and i == case.get("axis"):
                        continue
                    if sh[i] == 1:
                        c = dict(case); c["shape"] = sh[:i] + sh[i + 1:]
                        if "axis" in c and c["axis"] > i:
                            c["axis"] -= 1
                        if "modes" in c:
                            c["modes"] = c["modes"][:i] + c["modes"][i + 1:]
                        yield c
        for key in ("layout", "la", "lb", "lc", "lx", "ly"):
            if case.get(key) not in (None, "C"):
                c = dict(case); c[key] = "C"
                yield c
        if case.get("dtype") not in (None, "float64", "uintp"):
            c = dict(case); c["dtype"] = "float64"
            yield c
        for key in ("n", "m", "k", "d", "n2"):
            if isinstance(case.get(key), int) and case[key] > 1 and k != "perm":
                c = dict(case); c[key] = case[key] - 1
                yield c

    def classify(self, case, failure):
        if case.get("kind") == "vecops" and "linalg.vector_div =" in failure:
            return "vector-div-multiplies"
        if case.get("kind") == "views":
            return c16_views.known_key(failure)
        return None


CHECK = C16()
