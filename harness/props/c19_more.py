"""C19 — case kinds of the extension round outside the mask module:

* `streg`     every key of the live `SLICETIME_FUNCTIONS` against the registry table regenerated from the
              source (`c19_registry.py` -> Gen/C19Registry.lean), plus the key set itself;
* `strealign` slice times as `SpaceTimeRealign` / `FmriRealign4d` consume them (str / callable / array,
              `slice_info` int or (axis, direction)): the time of slice z for direction +1 / -1;
* `gens`      the generators `f_generator`, `write_data`, `matrix_generator`, `shape_generator`,
              `slice_parcels`, `data_generator(iterable)`, `parcels` with very many labels;
* `screen`    `screens.screen` summary images / pca / tsdiff on every time-axis spelling.
"""
from __future__ import annotations

import itertools
import warnings

import numpy as np

from harness.util import Snapshot, errname, fr, frs


def vview(a):
    a = np.asarray(a)
    return f"{a.ndim} " + " ".join(str(int(s)) for s in a.shape) + (" " + frs(a.ravel().tolist()) if a.size else "")


TRS = [1.0, 2.0, 2.5, 3.0, 0.75, 1.1, 0.72, 2.2]


# ---------------------------------------------------------------------- generation
def gen_streg(rng, quick):
    ns = list(range(1, 201)) if not quick else sorted(set([1, 2, 3, 4, 5, 6, 7, 8, 9, 10, 11, 12, 31, 32, 33, 64, 127,
                                                       128, 199, 200] + [rng.randrange(1, 201) for _ in range(20)]))
    return [{"kind": "streg", "n": n, "tr": rng.choice(TRS)} for n in ns]


def gen_strealign(rng, quick):
    cases = []
    for _ in range(40 if quick else 1200):
        ax = rng.choice([0, 1, 2, 2, 2])
        shape = [rng.choice([2, 3, 4]) for _ in range(3)]
        shape[ax] = rng.choice([1, 2, 3, 4, 5, 6, 7, 8, 9, 16, 33])
        cases.append({"kind": "strealign", "shape": shape, "T": rng.choice([2, 3]), "axis": ax,
                      "dir": rng.choice([1, 1, -1, None]),
                      "spec": rng.choice(["name", "name", "short", "alias", "callable", "array", "array", "badname",
                                          "badlen", "fmri-asc", "fmri-desc", "fmri-order"]),
                      "sched": rng.randrange(8), "tr": rng.choice(TRS), "seed": rng.randrange(1 << 30),
                      "runs": rng.choice([1, 1, 2])})
    return cases


def gen_gens(rng, quick):
    cases = []
    for _ in range(100 if quick else 3000):
        nd = rng.choice([2, 3, 4])
        shape = [rng.choice([1, 2, 3]) for _ in range(nd)]
        cases.append({"kind": "gens", "shape": shape, "seed": rng.randrange(1 << 30),
                      "axis": rng.randrange(-nd, nd), "f": rng.choice(["sq", "inc", "neg"]),
                      "nval": rng.choice([1, 2, 3, 5]), "labels": rng.choice(["none", "none", "list", "nested"]),
                      "many": 0})
    for many in ([256, 300, 65536] if quick else [256, 300, 512, 1000, 32768, 40000, 65536, 70000]):
        cases.append({"kind": "gens", "shape": [2, 3], "seed": rng.randrange(1 << 30), "axis": 0, "f": "sq",
                      "nval": 3, "labels": "none", "many": many})
    return cases


def gen_screen(rng, quick):
    cases = []
    for _ in range(40 if quick else 800):
        cases.append({"kind": "screen", "shape": [rng.choice([2, 3]) for _ in range(3)] + [rng.choice([3, 4, 5])],
                      "seed": rng.randrange(1 << 30),
                      "names": rng.choice(["ijkt", "ijkt", "tijk", "ijtk", "itjk"]),
                      "tname": rng.choice(["t", "t", "t", "time"]),
                      "ta": rng.choice(["name", "name", "int", "negint", "range", "wrong"]),
                      "sa": rng.choice([None, None, "slice", "k", "int", "j"]),
                      "rename_slice": rng.random() < 0.3, "ncomp": rng.choice([10, 2, 1]),
                      "nd": rng.choice([4, 4, 4, 4, 3, 5])})
    return cases


# ---------------------------------------------------------------------- slice-time registry
def run_streg(c):
    from nipy.algorithms.slicetiming import timefuncs as tf
    n, tr = c["n"], c["tr"]
    names = sorted(tf.SLICETIME_FUNCTIONS)
    lines, impl, fail = ["stnames"], [("text", " ".join(names))], None
    for nm in names:
        f = tf.SLICETIME_FUNCTIONS[nm]
        try:
            t = np.asarray(f(n, tr), dtype=float)
        except Exception as e:
            fail = fail or f"SLICETIME_FUNCTIONS[{nm!r}]({n}, {tr}) raised {type(e).__name__}: {e}"
            continue
        lines.append(f"streg {nm} {n} {fr(tr)}")
        impl.append(("rats", t.tolist(), 1e-12))
        if fail is None:
            # every registered function is a schedule: one distinct slot of length TR/n per slice, within TR
            k = np.rint(t / (tr / n)).astype(int) if t.shape == (n,) else None
            if k is None:
                fail = f"SLICETIME_FUNCTIONS[{nm!r}]({n}, {tr}) has shape {t.shape}, expected ({n},)"
            elif not np.allclose(t, k * (tr / n), rtol=1e-9, atol=1e-12) or sorted(k.tolist()) != list(range(n)):
                fail = (f"SLICETIME_FUNCTIONS[{nm!r}]({n}, {tr}) does not give each slice one distinct slot "
                        f"k*TR/n, k = 0..n-1: {t.tolist()[:8]}")
            elif getattr(f, "__name__", None) != nm and "st_" + nm != getattr(f, "__name__", None):
                fail = f"SLICETIME_FUNCTIONS[{nm!r}] is registered under a name that is not its own ({f.__name__})"
    return {"lines": lines, "impl": impl, "oracle": fail, "nontrivial": n >= 2, "tags": ["streg"], "mutated": None}


SCHEDS = ["st_01234", "st_43210", "st_02413", "st_13024", "st_42031", "st_odd0_even1", "st_03142", "st_41302"]
ALIASES = {"st_01234": "ascending", "st_43210": "descending", "st_02413": "asc_alt_2",
           "st_13024": "asc_alt_2_1", "st_42031": "desc_alt_2", "st_odd0_even1": "asc_alt_siemens",
           "st_03142": "asc_alt_half", "st_41302": "desc_alt_half"}


def run_strealign(c):
    from nipy.algorithms.registration import groupwise_registration as G
    from nipy.algorithms.slicetiming import timefuncs as tf
    from nipy.core.api import AffineTransform, Image
    warnings.filterwarnings("ignore")
    rs = np.random.RandomState(c["seed"])
    shape, T, ax, d, tr = c["shape"], c["T"], c["axis"], c["dir"], c["tr"]
    n = shape[ax]
    cm = AffineTransform.from_params("ijkt", ["scanner-x=L->R", "scanner-y=P->A", "scanner-z=I->S", "t"],
                                     np.diag([2.0, 2.0, 2.0, tr, 1.0]))
    imgs = [Image(rs.rand(*shape, T), cm) for _ in range(c["runs"])]
    # (FmriRealign4d with a keyword slice order only accepts lists: `isinstance(images, (…, np.array))`)
    arg_images = imgs[0] if c["runs"] == 1 and not c["spec"].startswith("fmri-") else imgs
    name = SCHEDS[c["sched"]]
    spec = c["spec"]
    sinfo = ax if d is None else (ax, d)
    dd = 1 if d is None else d
    tags = ["strealign", "strealign-" + spec, f"strealign-dir{dd}"]
    want_err = None
    model_name, times_arr = None, None
    try:
        if spec.startswith("fmri"):
            if spec == "fmri-order":
                order = rs.permutation(n)
                R = G.FmriRealign4d(arg_images, slice_order=order.tolist(), tr=tr, slice_info=(ax, dd),
                                    time_interp=True)
                times_arr = (order * (float(tr) / n)).tolist()
            else:
                il = bool(rs.randint(2))
                R = G.FmriRealign4d(arg_images, slice_order=spec[5:] + "ending", interleaved=il, tr=tr,
                                    slice_info=(ax, dd), time_interp=True)
                model_name = {("asc", False): "st_01234", ("desc", False): "st_43210", ("asc", True): "st_02413",
                              ("desc", True): "st_42031"}[(spec[5:], il)]
        else:
            if spec == "name":
                st = name
            elif spec == "short":
                st = name[3:]
            elif spec == "alias":
                st = ALIASES[name]
            elif spec == "callable":
                st = tf.SLICETIME_FUNCTIONS[name]
            elif spec == "badname":
                st = "no_such_order"; want_err = KeyError
            elif spec == "badlen":
                st = [0.0] * (n + 1); want_err = ValueError
            else:
                perm = rs.permutation(n)
                times_arr = (perm * (tr / n)).tolist()
                st = times_arr if rs.rand() < 0.5 else np.array(times_arr)
            if spec in ("name", "short", "alias", "callable"):
                model_name = name if spec != "short" else name[3:]
                if spec == "alias":
                    model_name = ALIASES[name]
            R = G.SpaceTimeRealign(arg_images, tr, st, sinfo)
        run = R._runs[-1]
        run.get_shape()   # loads the data and initialises the timing parameters
        got = np.asarray(run.slice_times, dtype=float)
    except Exception as e:
        ok = want_err is not None and isinstance(e, want_err)
        return {"lines": [], "impl": [], "nontrivial": False, "tags": tags + ["strealign-refused"], "mutated": None,
                "oracle": None if ok else f"SpaceTimeRealign/FmriRealign4d({spec}, slice_info={sinfo}, n={n}, "
                                          f"tr={tr}) raised {type(e).__name__}: {e}"}
    fail = None
    if want_err is not None:
        fail = f"SpaceTimeRealign accepted {spec} slice times (expected {want_err.__name__})"
    # query the time of slices at integer and half-integer positions
    zs = [float(z) for z in range(n)] + [z + 0.5 for z in range(n - 1)] + [0.25]
    tq = float(rs.choice([0.0, 1.0, 2.5]))
    q = [(z, tq) for z in zs]
    sc = np.asarray(run.scanner_time(np.array(zs), tq), dtype=float)
    qtxt = f"{len(q)} " + " ".join(f"{fr(z)} {fr(t)}" for z, t in q)
    if model_name is not None:
        line = f"strealign {model_name} {n} {fr(tr)} {dd} {qtxt}"
        want_times = np.asarray(tf.SLICETIME_FUNCTIONS[model_name](n, tr), dtype=float)
    else:
        line = f"strealigna {n} {frs(times_arr)} {fr(tr)} {dd} {qtxt}"
        want_times = np.asarray(times_arr, dtype=float)
    if fail is None:
        if run.slice_axis != ax or run.slice_direction != dd or run.nslices != n:
            fail = (f"Image4d slice axis/direction/count {run.slice_axis}/{run.slice_direction}/{run.nslices}, "
                    f"expected {ax}/{dd}/{n} for slice_info={sinfo}")
        elif got.shape != (n,) or not np.allclose(got, want_times, rtol=1e-12, atol=1e-12):
            fail = f"slice times used by the realignment differ from the {spec} specification: {got.tolist()[:6]}"
        else:
            # the time of slice z: stored slice z is scanner slice z (direction +1) or n-1-z (direction -1)
            for z in range(n):
                zz = z if dd > 0 else n - 1 - z
                if abs(sc[z] - (tq - want_times[zz]) / tr) > 1e-9:
                    fail = (f"scanner_time of stored slice {z} (direction {dd}) is not (t - slice_times[{zz}]) / TR: "
                            f"{sc[z]!r}")
                    break
    return {"lines": [line], "impl": [("parts", [got.tolist(), sc.tolist()], 1e-9)], "oracle": fail,
            "nontrivial": n >= 2, "tags": tags, "mutated": None}


# ---------------------------------------------------------------------- generators
def run_gens(c):
    from nipy.core.utils import generators as GN
    rs = np.random.RandomState(c["seed"])
    shape, nd = c["shape"], len(c["shape"])
    data = rs.randint(0, c["nval"], size=shape).astype(float)
    if rs.rand() < 0.3:
        data = data / 2 - 1
    axis = c["axis"]
    a = axis % nd
    snap = Snapshot(data=data)
    lines, impl, fail = [], [], None
    tags = ["gens"]
    moved = np.moveaxis(data, a, 0)
    if c["many"]:
        # very many labels: a label sequence repeating the same value `many` times is a union that
        # still is a boolean parcel, and `many` distinct labels give `many` parcels
        m = c["many"]
        tags.append("gens-many-labels")
        lab = [[float(data.flat[0])] * m, tuple([7.0] * m)]
        ps = [np.asarray(p) for p in GN.parcels(data, lab)]
        if len(ps) != 2 or ps[0].dtype != bool or not np.array_equal(ps[0], data == data.flat[0]) or ps[1].any():
            fail = f"parcels with a label sequence of {m} repeated values is not the union of its equalities"
        big = np.arange(m, dtype=float).reshape(1, m)
        cnt = np.zeros(big.shape, dtype=object)
        k = 0
        for p in GN.parcels(big):
            cnt[np.asarray(p)] += 1
            k += 1
        if fail is None and (k != m or not all(x == 1 for x in cnt.ravel())):
            fail = f"parcels of an array with {m} distinct values is not a partition into {m} parcels"
        return {"lines": [], "impl": [], "oracle": fail, "nontrivial": True, "tags": tags, "mutated": snap.changed()}
    # f_generator over slice_generator
    fn = {"sq": lambda x: x ** 2, "inc": lambda x: x + 1, "neg": lambda x: -x}[c["f"]]
    got = [(i, np.array(d)) for i, d in GN.f_generator(fn, GN.slice_generator(data, axis))]
    lines.append(f"fgen {c['f']} {vview(data)} {axis}")
    impl.append(("parts", [d.ravel().tolist() for _, d in got]))
    if len(got) != data.shape[a] or any(not np.array_equal(d, fn(moved[j])) for j, (_, d) in enumerate(got)):
        fail = f"f_generator(f, slice_generator(data, {axis})) is not [(i, f(slice))]"
    elif any(not np.array_equal(fn(data[i]), d) for i, d in got):
        fail = "f_generator does not pass the index through"
    # write_data(zeros, data_generator(data, order)) rebuilds the rows whatever the order
    d2 = data.reshape(shape[0], -1)
    order = rs.permutation(shape[0]).tolist()
    out = np.zeros(d2.shape)
    GN.write_data(out, GN.data_generator(d2, order))
    lines.append(f"writedata {d2.shape[0]} {d2.shape[1]} {frs(d2.ravel().tolist())} {len(order)} "
                 + " ".join(map(str, order)))
    impl.append(("rats", out.ravel().tolist(), 0))
    if fail is None and not np.array_equal(out, d2):
        fail = "write_data(output, data_generator(data)) does not reproduce data"
    outs = np.zeros(data.shape)
    GN.write_data(outs, GN.slice_generator(data, axis))
    if fail is None and not np.array_equal(outs, data):
        fail = f"write_data(output, slice_generator(data, {axis})) does not reproduce data (each position once)"
    # matrix_generator
    if nd >= 2:
        rest = list(moved.shape[1:])
        wshape = [rest[0], int(np.prod(rest[1:]))]
        try:
            mg = [(i, np.array(r)) for i, r in GN.matrix_generator(GN.slice_generator(data, axis))]
        except Exception as e:
            mg = None
            fail = fail or (f"matrix_generator raised {type(e).__name__}: {e} on the {len(rest)}-D slices of a "
                            f"{nd}-D array (documented shape (r.shape[0], prod(r.shape[1:])) = {tuple(wshape)})")
        if mg is not None:
            lines.append(f"matgen {vview(data)} {axis}")
            impl.append(("parts", [list(wshape)] + [r.ravel().tolist() for _, r in mg]))
            if fail is None and any(list(r.shape) != wshape or not np.array_equal(r.ravel(), moved[j].ravel())
                                    for j, (_, r) in enumerate(mg)):
                fail = "matrix_generator does not give (r.shape[0], prod(r.shape[1:])) matrices of the same data"
        # shape_generator on copies (it assigns `.shape` in place)
        tgt = (int(np.prod(rest)),)
        sg = [(i, np.array(r)) for i, r in GN.shape_generator(((i, np.array(r)) for i, r in
                                                                GN.slice_generator(data, axis)), tgt)]
        if fail is None and any(r.shape != tgt or not np.array_equal(r, moved[j].ravel()) for j, (_, r) in enumerate(sg)):
            fail = "shape_generator does not reshape every item to the requested shape"
    # slice_parcels
    lab, ltxt = None, "0"
    vals = sorted(set(data.ravel().tolist()))
    if c["labels"] == "list":
        lab = [float(x) for x in rs.choice(vals + [7.0], size=rs.randint(1, 4))]
        ltxt = f"1 {len(lab)} " + " ".join(f"one {fr(x)}" for x in lab)
    elif c["labels"] == "nested":
        lab, parts = [], []
        for _ in range(rs.randint(1, 4)):
            xs = [float(x) for x in rs.choice(vals + [9.0], size=rs.randint(1, 3))]
            lab.append(tuple(xs) if rs.rand() < 0.5 else list(xs))
            parts.append(f"many {len(xs)} {frs(xs)}")
        ltxt = f"1 {len(lab)} " + " ".join(parts)
    sp = [(i, np.asarray(p)) for i, p in GN.slice_parcels(data, lab, axis)]
    lines.append(f"sliceparcels {vview(data)} {axis} {ltxt}")

    def sidx(i):
        return int(i[a]) if isinstance(i, tuple) else int(i)
    impl.append(("text", " | ".join(f"{sidx(i)} : " + " ".join(str(int(b)) for b in p.ravel()) for i, p in sp)))
    if fail is None and lab is None:
        tot = np.zeros(data.shape, dtype=int)
        for i, p in sp:
            view = tot[i]
            view[p] += 1
        if not np.array_equal(tot, np.ones(data.shape, int)):
            fail = f"slice_parcels(data, axis={axis}) does not put every voxel in exactly one (slice, parcel) pair"
    return {"lines": lines, "impl": impl, "oracle": fail, "nontrivial": data.size > 1, "tags": tags,
            "mutated": snap.changed()}


# ---------------------------------------------------------------------- screens.screen
def run_screen(c):
    from nipy.algorithms.diagnostics.screens import screen
    from nipy.algorithms.diagnostics.timediff import time_slice_diffs
    from nipy.algorithms.utils.pca import pca_image
    from nipy.core.api import AffineTransform, Image
    from nipy.core.reference.coordinate_map import drop_io_dim
    warnings.filterwarnings("ignore")
    rs = np.random.RandomState(c["seed"])
    nd = c["nd"]
    names = c["names"]
    out = {"i": "x", "j": "y", "k": "z", "t": c["tname"]}
    dom = [("slice" if (ch == "k" and c["rename_slice"]) else (c["tname"] if ch == "t" else ch)) for ch in names]
    rng_names = [out[ch] for ch in names]
    shape = list(c["shape"])
    tags = ["screen"]
    if nd != 4:
        dom = dom[:3] if nd == 3 else dom + ["u"]
        rng_names = rng_names[:3] if nd == 3 else rng_names + ["u"]
        shape = shape[:3] if nd == 3 else shape + [2]
    cm = AffineTransform.from_params(dom, rng_names, np.diag([2.0, 3.0, 4.0, 5.0, 6.0, 1.0][:nd] + [1.0]))
    data = np.round(rs.randn(*shape) * 4) / 4 + np.arange(int(np.prod(shape))).reshape(shape) % 3
    img = Image(data, cm)
    it = dom.index(c["tname"]) if c["tname"] in dom else None
    ta = {"name": c["tname"], "int": it, "negint": None if it is None else it - nd, "range": c["tname"],
          "wrong": "nope"}[c["ta"]]
    sa = c["sa"]
    if sa == "int":
        sa = [i for i in range(nd) if i != it][-1]
    snap = Snapshot(data=data)
    # independent reading of the conventions
    if nd != 4:
        ok = False
    elif c["ta"] == "wrong" or it is None:
        ok = False
    else:
        ok = True
    isl = None
    if ok:
        if sa is None:
            isl = dom.index("slice") if "slice" in dom else (2 if it == 3 else 3)
        elif isinstance(sa, int):
            isl = sa
        elif sa in dom:
            isl = dom.index(sa)
        elif sa in rng_names:
            isl = rng_names.index(sa)
        else:
            ok = False
        if isl == it:
            ok = False
    try:
        r = screen(img, c["ncomp"], ta, sa)
    except Exception as e:
        fail = None
        if ok:
            fail = (f"screen raised {type(e).__name__}: {e} for time axis {ta!r}, slice axis {sa!r} on a 4D image "
                    f"with domain {dom}")
        return {"lines": [], "impl": [], "oracle": fail, "nontrivial": False, "tags": tags + ["screen-refused"],
                "mutated": snap.changed()}
    fail = None
    if not ok:
        return {"lines": [], "impl": [], "oracle": None, "nontrivial": False,
                "tags": tags + ["screen-unresolvable-accepted"], "mutated": snap.changed()}
    tags.append("screen-time-" + c["ta"])
    vol_names = tuple(x for i, x in enumerate(dom) if i != it)
    defs = {"mean": data.mean(it), "std": data.std(it), "max": data.max(it), "min": data.min(it)}
    for k, v in defs.items():
        g = r[k]
        if tuple(g.coordmap.function_domain.coord_names) != vol_names:
            fail = fail or f"screen {k} image has axes {g.coordmap.function_domain.coord_names}, expected {vol_names}"
        elif g.shape != v.shape or not np.allclose(g.get_fdata(), v, rtol=1e-12, atol=1e-12):
            fail = fail or f"screen {k} image is not np.{k} over the time axis {ta!r}"
        elif not g.coordmap.similar_to(drop_io_dim(cm, it)):
            fail = fail or f"screen {k} image coordmap is not the input coordmap with the time axis dropped"
    if fail is None:
        p2 = pca_image(img, it, None, c["ncomp"], False)
        if not np.allclose(r["pca_res"]["pcnt_var"], p2["pcnt_var"], atol=1e-8) or r["pca_res"]["axis"] != it:
            fail = "screen pca_res differs from pca_image over the time axis"
        elif r["pca"] is not r["pca_res"]["basis_projections"]:
            fail = "screen['pca'] is not the pca basis projections image"
        else:
            bp = r["pca"]
            wn = list(dom); wn[it] = "PCA components"
            if list(bp.coordmap.function_domain.coord_names) != wn:
                fail = f"screen pca image axes {bp.coordmap.function_domain.coord_names}, expected {wn}"
    if fail is None:
        t2 = time_slice_diffs(data, it, isl)
        for k in t2:
            if not np.allclose(r["ts_res"][k], t2[k], rtol=1e-12, atol=1e-12):
                fail = f"screen ts_res[{k}] differs from time_slice_diffs(data, {it}, {isl})"
                break
    line = f"screen {vview(data)} {it}"
    obs = [defs_k.ravel().tolist() for defs_k in (r["mean"].get_fdata(), r["std"].get_fdata() ** 2,
                                                 r["max"].get_fdata(), r["min"].get_fdata())]
    return {"lines": [line], "impl": [("parts", obs, 1e-9)], "oracle": fail, "nontrivial": True, "tags": tags,
            "mutated": snap.changed()}


def shrink(case):
    k = case.get("kind")
    if k == "strealign":
        if case["runs"] > 1:
            c = dict(case); c["runs"] = 1
            yield c
    if k == "screen":
        for key, val in (("rename_slice", False), ("sa", None), ("ncomp", 10), ("names", "ijkt")):
            if case[key] != val:
                c = dict(case); c[key] = val
                yield c
    if k == "gens":
        if case["many"] > 256:
            c = dict(case); c["many"] = max(256, case["many"] // 2)
            yield c
        for key, val in (("labels", "none"), ("f", "sq")):
            if case[key] != val:
                c = dict(case); c[key] = val
                yield c
