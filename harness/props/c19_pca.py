"""C19 (wave 3) — `pca` with every option, against the full Lean model (`pcaf` lines).

The external numerics are *certified parameters*:

* `pinv` of `design_keep` / `design_resid` is computed here exactly (rank factorisation over
  `Fraction`) and handed to the model, which decides the four Moore–Penrose equations exactly;
  numpy's floating-point `pinv` only enters through the tolerant comparison of the results;
* `svd` (U, S), `eigh` (D, Vs) are recorded from the real run; `1 / rmse` is recomputed as the code
  does; the model returns the exact residuals of their contracts (orthonormality, eigen-equations,
  `scale**2 * msq = 1`) which must be at rounding level — these residuals are the hypotheses of
  `pca_basis_orthonormal_of_cert` / `pca_diagonalises_of_cert` / `standardised_unit_msq_of_cert`.
"""
from __future__ import annotations

import types
import warnings
from fractions import Fraction

import numpy as np

from harness.util import Snapshot, cmp_rats, errname, fr, frs

INT_RANGE = {"uint8": (0, 256), "int8": (-128, 128), "int16": (-30000, 30000), "uint16": (0, 65536),
             "int32": (-40000, 40000)}
DTYPES = ["float64"] * 6 + ["int8", "int16", "float32", "uint8", "uint16", "int32"]
LAYOUTS = ["C", "C", "C", "F", "strided", "neg", "readonly", "list"]


# ---------------------------------------------------------------------- exact linear algebra
def _finv(A):
    n = len(A)
    M = [list(r) + [Fraction(int(i == j)) for j in range(n)] for i, r in enumerate(A)]
    for c in range(n):
        p = next(i for i in range(c, n) if M[i][c] != 0)
        M[c], M[p] = M[p], M[c]
        pv = M[c][c]
        M[c] = [x / pv for x in M[c]]
        for i in range(n):
            if i != c and M[i][c] != 0:
                f = M[i][c]
                M[i] = [x - f * y for x, y in zip(M[i], M[c])]
    return [r[n:] for r in M]


def _fmul(A, B):
    return [[sum((a * b for a, b in zip(r, c)), Fraction(0)) for c in zip(*B)] for r in A] if B and B[0] else \
        [[] for _ in A]


def _ftr(A):
    return [list(c) for c in zip(*A)]


def exact_pinv(K):
    """Moore–Penrose inverse of a rational matrix (list of rows of Fraction) by rank factorisation
    K = B C:  K+ = C^T (C C^T)^-1 (B^T B)^-1 B^T."""
    t, k = len(K), len(K[0])
    A = [list(r) for r in K]
    piv, r = [], 0
    for c in range(k):
        p = next((i for i in range(r, t) if A[i][c] != 0), None)
        if p is None:
            continue
        A[r], A[p] = A[p], A[r]
        pv = A[r][c]
        A[r] = [x / pv for x in A[r]]
        for i in range(t):
            if i != r and A[i][c] != 0:
                f = A[i][c]
                A[i] = [x - f * y for x, y in zip(A[i], A[r])]
        piv.append(c)
        r += 1
        if r == t:
            break
    if r == 0:
        return [[Fraction(0)] * t for _ in range(k)]
    C = A[:r]
    B = [[K[i][c] for c in piv] for i in range(t)]
    Ct, Bt = _ftr(C), _ftr(B)
    return _fmul(_fmul(Ct, _finv(_fmul(C, Ct))), _fmul(_finv(_fmul(Bt, B)), Bt))


def fmat(M):
    """pMat text of a list-of-rows of Fractions / floats"""
    M = [list(r) for r in M]
    r = len(M)
    c = len(M[0]) if r else 0
    return f"{r} {c} " + " ".join(fr(x) for row in M for x in row) if r * c else f"{r} {c}"


def flist(xs):
    xs = list(xs)
    return f"{len(xs)} " + frs(xs) if xs else "0"


def vview(a):
    a = np.asarray(a)
    return f"{a.ndim} " + " ".join(str(int(s)) for s in a.shape) + (" " + frs(a.ravel().tolist()) if a.size else "")


# ---------------------------------------------------------------------- generation
def gen_pcaf(rng, quick):
    cases = []
    for _ in range(150 if quick else 5000):
        nd = rng.choice([2, 3, 3, 4, 5])
        shape = [rng.choice([1, 2, 2, 3]) for _ in range(nd)]
        ax = rng.randrange(-nd, nd)
        shape[ax % nd] = rng.choice([3, 4, 5, 6])
        if all(s == 1 for i, s in enumerate(shape) if i != ax % nd):
            shape[(ax + 1) % nd] = 3
        T = shape[ax % nd]
        c = {"kind": "pcaf", "shape": shape, "seed": rng.randrange(1 << 30), "axis": ax,
             "mask": rng.choice(["none", "none", "bool", "int8", "uint8w", "float", "floatnan", "float32nan",
                                 "intneg"]),
             "ncomp": rng.choice([None, None, None, 0, 1, 2, T - 1, T, T + 3, -1]),
             "standardize": rng.random() < 0.5,
             "keep": rng.choice([None, None, None, "full", "full", "deficient", "narrow"]),
             "resid": rng.choice(["mean", "mean", "mean", None, "lin", "deficient", "rand"]),
             "tol": rng.choice([None, None, None, None, 0.5, 0.001, 0.1]),
             "dtype": rng.choice(DTYPES), "layout": rng.choice(LAYOUTS), "bad": None}
        if rng.random() < 0.12:
            c["bad"] = rng.choice(["axis-none", "axis-high", "axis-low", "mask-shape", "keep-rows", "resid-rows",
                                   "mask-transposed"])
        cases.append(c)
    # boundary sizes: as many components as time points, single voxel, T = 2
    for shape, ax in ([[2, 3], 0], [[3, 1], 0], [[2, 1, 2], -3], [[1, 2, 4], 2], [[6, 2], 0], [[2, 2], 1]):
        for resid in ("mean", None):
            cases.append({"kind": "pcaf", "shape": shape, "seed": rng.randrange(1 << 30), "axis": ax, "mask": "none",
                          "ncomp": None, "standardize": rng.random() < 0.5, "keep": None, "resid": resid,
                          "tol": None, "dtype": "float64", "layout": "C", "bad": None})
    return cases


# ---------------------------------------------------------------------- inputs
def _layout(a, how):
    if how == "F":
        return np.asfortranarray(a)
    if how == "strided":
        big = np.zeros([2 * s for s in a.shape], dtype=a.dtype)
        big[tuple(slice(None, None, 2) for _ in a.shape)] = a
        return big[tuple(slice(None, None, 2) for _ in a.shape)]
    if how == "neg":
        return a[::-1].copy()[::-1]
    if how == "readonly":
        b = a.copy()
        b.setflags(write=False)
        return b
    return a


def build_inputs(c):
    rs = np.random.RandomState(c["seed"])
    shape = list(c["shape"])
    nd = len(shape)
    ax = c["axis"] % nd
    T = shape[ax]
    dt = c["dtype"]
    if dt in INT_RANGE:
        data = rs.randint(*INT_RANGE[dt], size=shape).astype(dt)
    else:
        data = (np.round(rs.randn(*shape) * 8) / 8 + rs.randint(-2, 3)).astype(dt)
    data = _layout(data, c["layout"])
    vshape = [s for i, s in enumerate(shape) if i != ax]
    mk = c["mask"]
    member = rs.rand(*vshape) > 0.35
    member.flat[0] = True
    if mk == "none":
        mask = None
    elif mk == "bool":
        mask = member.copy()
    elif mk == "int8":
        mask = member.astype(np.int8)
    elif mk == "uint8w":
        mask = (member * rs.randint(1, 4, size=vshape)).astype(np.uint8)
    elif mk == "intneg":
        mask = (member * rs.choice([-1, 1, 2], size=vshape)).astype(np.int16)
    elif mk == "float":
        mask = rs.randint(0, 5, size=vshape) / 4.0
        mask.flat[0] = 1.0
    else:  # float masks with NaN: excluded voxels
        mask = member.astype(np.float32 if mk == "float32nan" else np.float64)
        mask[rs.rand(*vshape) < 0.3] = np.nan
        mask.flat[0] = 1.0
    if mask is not None and rs.rand() < 0.3:
        mask = np.asfortranarray(mask)
    keep = None
    if c["keep"] == "full":
        keep = np.round(rs.randn(T, max(2, T - 1)) * 4) / 4
    elif c["keep"] == "narrow":
        keep = np.round(rs.randn(T, 2) * 4) / 4
    elif c["keep"] == "deficient":
        k0 = np.round(rs.randn(T, 2) * 4) / 4
        keep = np.column_stack([k0[:, 0], k0[:, 1], k0[:, 0] + k0[:, 1], 2 * k0[:, 0]])
    resid = c["resid"]
    if resid == "lin":
        resid = np.column_stack([np.ones(T), np.arange(T, dtype=float)])
    elif resid == "deficient":
        resid = np.column_stack([np.ones(T), np.arange(T, dtype=float), 2.0 + np.arange(T)])
    elif resid == "rand":
        resid = np.round(rs.randn(T, 1) * 4) / 4
        if not resid.any():
            resid[0, 0] = 1.0
    axis = c["axis"]
    bad = c.get("bad")
    if bad == "axis-none":
        axis = None
    elif bad == "axis-high":
        axis = nd + rs.randint(0, 2)
    elif bad == "axis-low":
        axis = -nd - 1 - rs.randint(0, 2)
    elif bad == "mask-shape":
        mask = np.ones(vshape + [2])
    elif bad == "mask-transposed":
        mask = np.ones(vshape[::-1]) if vshape != vshape[::-1] else np.ones([s + 1 for s in vshape])
    elif bad == "keep-rows":
        keep = np.round(rs.randn(T + 1, 2) * 4) / 4
    elif bad == "resid-rows":
        resid = np.column_stack([np.ones(T + 1), np.arange(T + 1, dtype=float)])
    return data, mask, keep, resid, axis, ax, T


def _frows(a):
    return [[Fraction(float(x)) for x in r] for r in np.asarray(a, dtype=float)]


# ---------------------------------------------------------------------- one case
def run_pcaf(c):
    import nipy.algorithms.utils.pca as P
    warnings.filterwarnings("ignore")
    np.seterr(all="ignore")
    data, mask, keep, resid, axis, ax, T = build_inputs(c)
    nd = data.ndim
    rec = {}
    real = np.linalg

    def svd(a, **kw):
        r = real.svd(a, **kw)
        rec["XZ"] = np.array(a, copy=True)
        rec["svd"] = r
        return r

    def eigh(a):
        r = real.eigh(a)
        rec["C"] = np.array(a, copy=True)
        rec["eigh"] = r
        return r

    shim = types.SimpleNamespace(svd=svd, eigh=eigh, pinv=real.pinv)
    snap = Snapshot(data=data, mask=mask if mask is not None else 0, keep=keep if keep is not None else 0,
                    resid=resid if isinstance(resid, np.ndarray) else 0)
    arg = data.tolist() if c["layout"] == "list" else data
    kw = {} if c["tol"] is None else {"tol_ratio": c["tol"]}
    tol = 0.01 if c["tol"] is None else c["tol"]
    tags = ["pcaf", f"pcaf-ndim{nd}", "pcaf-mask-" + c["mask"], "pcaf-" + c["dtype"], "pcaf-layout-" + c["layout"],
            "pcaf-keep-" + str(c["keep"]), "pcaf-resid-" + str(c["resid"])]
    if c.get("bad"):
        tags.append("pcaf-bad-" + c["bad"])
    # ---- model line (the exact pseudo-inverses are computed here, the model certifies them)
    ktxt = "0"
    if keep is not None:
        ktxt = f"1 {fmat(_frows(keep))} {fmat(exact_pinv(_frows(keep)))}"
    if isinstance(resid, np.ndarray):
        rtxt = f"mat {fmat(_frows(resid))} {fmat(exact_pinv(_frows(resid)))}"
    else:
        rtxt = "mean" if resid == "mean" else "none"
    if mask is None:
        mtxt = "0"
    else:
        mm = np.asarray(mask)
        ents = " ".join("nan" if (mm.dtype.kind == "f" and np.isnan(x)) else fr(float(x)) for x in mm.ravel().tolist())
        mtxt = f"1 {mm.ndim} " + " ".join(str(s) for s in mm.shape) + (" " + ents if mm.size else "")
    head = (f"pcaf {vview(np.asarray(data, dtype=float))} {'none' if axis is None else axis} {mtxt} "
            f"{'none' if c['ncomp'] is None else c['ncomp']} {ktxt} {rtxt} {fr(tol)}")
    old = P.npl
    P.npl = shim
    try:
        try:
            r = P.pca(arg, axis, mask, c["ncomp"], c["standardize"], keep, resid, **kw)
        finally:
            P.npl = old
    except Exception as e:
        fail = None
        if not c.get("bad"):
            fail = (f"pca raised {type(e).__name__}: {e} (axis={axis}, shape={c['shape']}, mask={c['mask']}, "
                    f"ncomp={c['ncomp']}, keep={c['keep']}, resid={c['resid']}, dtype={c['dtype']}, "
                    f"layout={c['layout']}, tol_ratio={tol})")
        line = head + " 0 0 0 0 0 0 0"
        return {"lines": [line], "impl": [("text", errname(e))], "oracle": fail, "nontrivial": False,
                "tags": tags + ["pcaf-refused"], "mutated": snap.changed()}
    mut = snap.changed()
    if c.get("bad"):
        # accepted a malformed call: only the correspondence speaks (the model refuses)
        return {"lines": [head + " 0 0 0 0 0 0 0"], "impl": [("text", "accepted")], "oracle": None,
                "nontrivial": False, "tags": tags + ["pcaf-bad-accepted"], "mutated": mut}
    UXf, SX, _ = rec["svd"]
    D, Vs = rec["eigh"]
    rank = len(D)
    if not all(np.isfinite(np.asarray(x, dtype=float)).all() for x in (UXf, SX, rec["C"], D, Vs)):
        # finite data, finite designs, masks whose only non-finite entries are NaN (excluded voxels)
        return {"lines": [], "impl": [], "nontrivial": True, "tags": tags + ["pcaf-nonfinite"], "mutated": mut,
                "oracle": (f"pca computed a non-finite covariance / decomposition from finite data (mask={c['mask']}, "
                           f"shape={c['shape']}, axis={c['axis']}, standardize={c['standardize']})")}
    if SX.max() > 0 and np.any(np.abs(SX / SX.max() - tol) < 1e-9):
        return {"lines": [], "impl": [], "oracle": None, "nontrivial": False, "tags": tags + ["pcaf-rank-boundary"],
                "mutated": mut}
    UX = UXf[:, :rank].T
    rolled_raw = np.rollaxis(np.asarray(arg), axis)      # a list of floats arrives as float64
    rolled = np.asarray(rolled_raw, dtype=float)
    Y = rolled.reshape(T, -1)

    if isinstance(resid, str):
        def project_resid(Yv):
            return Yv - Yv.mean(0)[None, ...]
    elif resid is None:
        def project_resid(Yv):
            return Yv
    else:
        projector = np.dot(resid, real.pinv(resid))

        def project_resid(Yv):
            return Yv - np.dot(projector, Yv)

    scales = None
    if c["standardize"]:
        rs_ = project_resid(rolled_raw.reshape(T, -1))       # in the data's own dtype, as the code does
        rmse = np.sqrt(np.square(rs_, dtype=np.float64).sum(axis=0) / rs_.shape[0])
        scales = np.where(rmse <= 0, 0, 1. / rmse)
        if np.any((rmse > 0) & (rmse < 1e-7 * max(1.0, np.abs(Y).max()))):
            return {"lines": [], "impl": [], "oracle": None, "nontrivial": False,
                    "tags": tags + ["pcaf-degenerate-standardisation"], "mutated": mut}
    line = (f"{head} {fmat(UXf)} {flist(SX.tolist())} "
            f"{'0' if scales is None else '1 ' + flist(scales.tolist())} {flist(D.tolist())} {fmat(Vs)}")
    bv = r["basis_vectors"]
    bp = r["basis_projections"]
    pv = r["pcnt_var"]
    ncomp = rank if c["ncomp"] is None else (min(c["ncomp"], rank) if c["ncomp"] >= 0 else max(rank + c["ncomp"], 0))
    obs = {"rank": rank, "xz": rec["XZ"].ravel().tolist(), "cov": rec["C"].ravel().tolist(), "pcnt": pv.tolist(),
           "bv": bv.T.ravel().tolist(), "shape": list(bp.shape), "proj": bp.ravel().tolist(), "axis": r["axis"],
           "f32": np.asarray(arg).dtype == np.float32}
    # ------------------------------------------------------------ oracle (valid calls only)
    fail = None
    if not c.get("bad"):
        tags.append("pcaf-std" if c["standardize"] else "pcaf-nostd")
        tags.append("pcaf-neg-axis" if c["axis"] < 0 else "pcaf-pos-axis")
        G = bv.T @ bv
        w = np.ones(Y.shape[1]) if mask is None else np.asarray(mask, dtype=float).ravel()
        if mask is not None and np.asarray(mask).dtype.kind == "f":
            w = np.nan_to_num(w)
        if r["axis"] != ax:
            fail = f"pca returned axis {r['axis']} for axis argument {c['axis']} (ndim {nd})"
        elif bv.shape != (T, rank) or not np.allclose(G, np.eye(rank), atol=1e-8):
            fail = f"pca basis vectors are not orthonormal (max deviation {np.abs(G - np.eye(rank)).max():.3g})"
        elif np.isfinite(pv).all() and np.any(np.diff(pv) > 1e-9 * max(1.0, np.abs(pv).max())):
            fail = f"pca percent variance not in decreasing order: {pv.tolist()}"
        elif rank and (not np.isfinite(pv).all() or abs(pv.sum() - 100) > 1e-8):
            if np.abs(rec["C"]).max() > 1e-12:
                fail = f"pca percent variance sums to {pv.sum()} instead of 100"
            else:
                tags.append("pcaf-zero-variance")
        want_shape = list(data.shape)
        want_shape[ax] = ncomp
        if fail is None and c["ncomp"] is not None and c["ncomp"] < 0:
            tags.append("pcaf-negative-ncomp")       # outside the documented domain: correspondence only
        elif fail is None and list(bp.shape) != want_shape:
            fail = f"basis_projections shape {bp.shape}, expected {want_shape} (ncomp={c['ncomp']}, rank={rank})"
        if fail is None and rank:
            # components are orthogonal to the space projected out (design_resid)
            Rm = np.ones((T, 1)) if isinstance(resid, str) else resid
            if Rm is not None and np.abs(Rm.T @ bv).max() > 1e-8 * max(1.0, np.abs(Rm).max()):
                fail = f"pca basis vectors are not orthogonal to design_resid ({c['resid']}): {np.abs(Rm.T @ bv).max():.3g}"
        if fail is None and rank:
            YX = UX @ Y
            if scales is not None:
                YX = YX * scales
            YXm = YX * w
            U, S, _ = real.svd(YXm, full_matrices=False)
            s2 = np.zeros(rank)
            s2[:len(S)] = (S ** 2)[:rank]
            tot = s2.sum()
            if tot > 1e-12 and np.isfinite(pv).all():
                if not np.allclose(pv, s2 * 100 / tot, atol=1e-7):
                    fail = ("pca percent variance differs from the squared singular values of the projected, "
                            "standardised data")
                else:
                    Ub = UX.T @ U
                    gaps = np.abs(np.diff(s2)) / tot
                    for k in range(min(rank, len(S))):
                        iso = ((k == 0 or gaps[k - 1] > 1e-6) and (k == rank - 1 or gaps[k] > 1e-6)
                               and s2[k] / tot > 1e-9)
                        if iso and min(np.abs(Ub[:, k] - bv[:, k]).max(), np.abs(Ub[:, k] + bv[:, k]).max()) > 1e-5:
                            fail = f"pca basis vector {k} is not the singular vector of the projected, standardised data"
                            break
            if fail is None and (c["ncomp"] is None or c["ncomp"] >= 0):
                exp = bv.T[:ncomp] @ Y
                if scales is not None:
                    exp = exp * scales
                exp = np.moveaxis(exp.reshape((ncomp,) + rolled.shape[1:]), 0, ax)
                if not np.allclose(bp, exp, atol=1e-8 * max([1.0] + np.abs(exp).ravel().tolist())):
                    fail = "basis_projections are not the basis vectors applied to the (standardised) data"
        simple = np.isfinite(pv).all() and (len(pv) < 2 or np.min(-np.diff(pv)) > 1e-6)
        if fail is None and rank:
            # (a) axis moved to the default position first; (b) the same numbers as a fresh C-ordered float array
            base = np.ascontiguousarray(np.moveaxis(np.asarray(data), ax, 0))
            r2 = P.pca(base, 0, mask, c["ncomp"], c["standardize"], keep, resid, **kw)
            sgn = np.sign((bv * r2["basis_vectors"]).sum(0))
            sgn[sgn == 0] = 1
            if not np.allclose(pv, r2["pcnt_var"], atol=1e-8, equal_nan=True):
                fail = f"pca(axis={c['axis']}) percent variance differs from the call with the axis moved to position 0"
            elif simple and ncomp:
                b0 = np.moveaxis(bp, ax, 0)
                sg = sgn[:ncomp].reshape((-1,) + (1,) * (nd - 1))
                if b0.shape != r2["basis_projections"].shape or not np.allclose(
                        b0, r2["basis_projections"] * sg, atol=1e-6 * max([1.0] + np.abs(b0).ravel().tolist())):
                    fail = f"pca(axis={c['axis']}) projections are not the transposed result of the axis-moved call"
        if fail is None and rank and mask is not None and set(np.unique(w).tolist()) <= {0.0, 1.0}:
            sel = w.astype(bool)
            ext = Y[:, sel]
            if ext.shape[1] >= 1 and c["dtype"] != "float32":
                r3 = P.pca(ext, 0, None, c["ncomp"], c["standardize"], keep, resid, **kw)
                if not np.allclose(pv, r3["pcnt_var"], atol=1e-7, equal_nan=True):
                    fail = "masked pca percent variance differs from pca of the extracted voxels"
                else:
                    tags.append("pcaf-masked-eq-extracted")
    return {"lines": [line], "impl": [("pcaf", obs)], "oracle": fail, "nontrivial": not c.get("bad"), "tags": tags,
            "mutated": mut}


# ---------------------------------------------------------------------- compare
CERT_NAMES = ["Moore-Penrose(design_keep)", "Moore-Penrose(design_resid)", "singular values sorted",
              "UX UX^T = 1", "XZ XZ^T U = U S^2", "scale^2 msq = 1", "Vs^T Vs = 1", "C Vs = Vs D"]


def compare_pcaf(obs, model_out):
    import math
    if model_out.startswith(("error", "bad-op")):
        return f"impl returned values, model says {model_out}"
    parts = [p.strip() for p in model_out.split("|")]
    if len(parts) != 9:
        return f"model returned {len(parts)} parts"
    cert = parts[0].split()
    cscale = max([1.0] + [abs(float(x)) for x in obs["cov"]])
    for k in range(3):
        if cert[k] != "1":
            return f"certificate {CERT_NAMES[k]} is false"
    lim = [1e-9, 1e-9, 1e-4 if obs["f32"] else 1e-9, 1e-9, 1e-9 * cscale]
    for k in range(5):
        v = float(Fraction(cert[3 + k]))
        if not v <= lim[k]:
            return f"certificate {CERT_NAMES[3 + k]}: residual {v:.3g} above {lim[k]:.3g}"
    if int(parts[1]) != obs["rank"]:
        return f"rank: impl={obs['rank']} model={parts[1]}"
    d = cmp_rats(obs["xz"], parts[2], 1e-9, 1e-9)
    if d:
        return f"matrix handed to svd: {d}"
    d = cmp_rats(obs["cov"], parts[3], 1e-7, 1e-7 * cscale)
    if d:
        return f"covariance: {d}"
    pv = obs["pcnt"]
    finite = all(math.isfinite(x) for x in pv)
    if finite:
        d = cmp_rats(pv, parts[4], 1e-7, 1e-7)
        if d:
            return f"pcnt_var: {d}"
    tied = finite and any(abs(a - b) < 1e-7 for a, b in zip(pv, pv[1:]))
    if not tied and finite:
        d = cmp_rats(obs["bv"], parts[5], 1e-7, 1e-7)
        if d:
            return f"basis_vectors: {d}"
    if " ".join(str(s) for s in obs["shape"]) != parts[6]:
        return f"projection shape impl={obs['shape']} model={parts[6]}"
    if not tied and finite:
        ptol = 1e-7 * max([1.0] + [abs(float(x)) for x in obs["proj"]])
        d = cmp_rats(obs["proj"], parts[7], 1e-7, ptol)
        if d:
            return f"basis_projections: {d}"
    if str(obs["axis"]) != parts[8]:
        return f"axis impl={obs['axis']} model={parts[8]}"
    return None


def shrink(case):
    if case.get("kind") != "pcaf":
        return
    for key, val in (("bad", None), ("layout", "C"), ("dtype", "float64"), ("mask", "none"), ("keep", None),
                     ("resid", "mean"), ("tol", None), ("ncomp", None), ("standardize", False)):
        if case.get(key) != val:
            c = dict(case)
            c[key] = val
            yield c
    nd = len(case["shape"])
    if nd > 2:
        a = case["axis"] % nd
        for i in range(nd):
            if i != a:
                c = dict(case)
                c["shape"] = [s for j, s in enumerate(case["shape"]) if j != i]
                na = a - (1 if i < a else 0)
                c["axis"] = na if case["axis"] >= 0 else na - (nd - 1)
                yield c
                break
