"""C20 — translators for the index / guard expressions of the compiled kernels.

Regenerates `lean/NipyVerif/Gen/C20Kernels.lean` from the *current text* of
  nipy/algorithms/segmentation/mrf.c          (_ngb_integrate, ve_step, interaction_energy, make_edges, tables)
  nipy/algorithms/registration/joint_histogram.c (inside test, padded offsets, local buffers, histogram index)
  nipy/algorithms/registration/cubic_spline.c  (_mirrored_position, _mirror_grid_neighbors, sampling loops)
  nipy/algorithms/statistics/quantile.c        (the order-statistic index `p` of both front ends)
Every definition is the C expression re-emitted as a Lean term over `Int` (C integers, assumed not to overflow) and
`Rat` (doubles, exact).  `Props/C20B.lean` proves, over these definitions, that a passed guard puts every address
read or written inside the array; an edit of a bound in the C text therefore breaks a proof.  Each translator is
strict about the statement shapes it accepts (TieBroken otherwise).
"""
from __future__ import annotations

import os
import re

from harness.props.c20_cexpr import (CParseError, Emitter, cparse, function_body, idents, squash,
                                     strip_comments)

MRF = "nipy/algorithms/segmentation/mrf.c"
JH = "nipy/algorithms/registration/joint_histogram.c"
CS = "nipy/algorithms/registration/cubic_spline.c"
QT = "nipy/algorithms/statistics/quantile.c"
OUT = "NipyVerif/Gen/C20Kernels.lean"


class Shape(Exception):
    """the C text does not have the statement shape the translator accepts"""


def _norm(body):
    """`PyArray_DIMS(a)[k]`, `PyArray_DIM(a, k)`, `a[k]` (constant k) → one identifier; `p->f` → `p_f`"""
    body = re.sub(r"PyArray_DIMS\(\s*(?:\(PyArrayObject\s*\*\)\s*)?(\w+)\s*\)\s*\[(\d)\]", r"dim_\1_\2", body)
    body = re.sub(r"PyArray_DIM\(\s*(?:\(PyArrayObject\s*\*\)\s*)?(\w+)\s*,\s*(\d)\s*\)", r"dim_\1_\2", body)
    body = re.sub(r"\b([A-Za-z_]\w*)\[(\d+)\]", r"\1_\2", body)
    body = re.sub(r"\b(\w+)->(\w+)", r"\1_\2", body)
    return body


def _decls(body, ctype):
    """`<ctype> NAME = EXPR;` declarations of a (normalised) function body, in order"""
    return [(m.group(1), " ".join(m.group(2).split()))
            for m in re.finditer(r"(?:const\s+)?" + ctype + r"\s+(\w+)\s*=\s*([^;,]+);", body)]


def _need(m, rel, what):
    if not m:
        raise Shape(f"{rel}: {what} not recognised")
    return m


class Fn:
    """one emitted Lean definition: parameters, `let` chain, result"""

    def __init__(self, name, params, doc):
        self.name, self.params, self.doc = name, list(params), doc
        self.types = {p: t for p, t in params}
        self.lets = []

    def let(self, name, expr, ty="Int", funs=None):
        em = Emitter(self.types, funs)
        e = cparse(expr)
        self.lets.append((name, em.val(e, ty)))
        self.types[name] = ty
        return self

    def value(self, expr, ty="Int", funs=None):
        return self._emit(Emitter(self.types, funs).val(cparse(expr), ty), ty)

    def cond(self, expr, funs=None):
        return self._emit("decide " + Emitter(self.types, funs).prop(cparse(expr)), "Bool")

    def raw(self, text, ty):
        return self._emit(text, ty)

    def _emit(self, res, ty):
        groups = []
        for p, t in self.params:
            if groups and groups[-1][1] == t:
                groups[-1][0].append(p)
            else:
                groups.append(([p], t))
        ps = " ".join(f"({' '.join(g)} : {t})" for g, t in groups)
        L = [f"/-- {self.doc} -/", f"def {self.name} {ps} : {ty} :="]
        L += [f"  let {n} := {v}" for n, v in self.lets]
        L += [f"  {res}"]
        return L

    def clone(self, name, doc):
        f = Fn(name, self.params, doc)
        f.types = dict(self.types); f.lets = list(self.lets)
        return f


# --------------------------------------------------------------------------------------------------
# mrf.c
# --------------------------------------------------------------------------------------------------
def _mrf(src):
    L = ["namespace Mrf", ""]
    # ---- neighbourhood tables ----
    for name in ("ngb6", "ngb26"):
        m = _need(re.search(r"int\s+" + name + r"\s*\[\]\s*=\s*\{([^}]*)\}", src), MRF, f"table {name}")
        vals = [int(v) for v in m.group(1).replace("\n", " ").split(",") if v.strip()]
        if len(vals) % 3:
            raise Shape(f"{MRF}: table {name} is not a list of triples")
        tr = [f"({vals[i]}, {vals[i + 1]}, {vals[i + 2]})" for i in range(0, len(vals), 3)]
        L += [f"/-- `int {name} [] = {{…}}` ({len(vals)} ints) -/",
              f"def {name} : List (Int × Int × Int) := [" + ", ".join(tr) + "]"]
    sel = squash(function_body(src, "_select_neighborhood_system", MRF))
    m = _need(re.fullmatch(r'if\(ngb_size==(\d+)\)return(\w+);elseif\(ngb_size==(\d+)\)return(\w+);'
                           r'else\{fprintf\(stderr,"[^"]*"\);returnNULL;\}', sel), MRF, "_select_neighborhood_system")
    L += ["/-- `_select_neighborhood_system`: the table walked by the neighbour loops (`none` = `NULL`) -/",
          f"def selectNgb (ngb_size : Int) : Option (List (Int × Int × Int)) :=",
          f"  if ngb_size = {m.group(1)} then some {m.group(2)} else if ngb_size = {m.group(3)} then some {m.group(4)} "
          f"else none", ""]

    # ---- _ngb_integrate ----
    body = _norm(function_body(src, "_ngb_integrate", MRF))
    dims = [("dim_ppm_0", "Int"), ("dim_ppm_1", "Int"), ("dim_ppm_2", "Int"), ("dim_ppm_3", "Int")]
    base = Fn("_", dims, "")
    decl = _decls(body, "npy_intp")
    if not decl:
        raise Shape(f"{MRF}: no npy_intp declarations in _ngb_integrate")
    for n, e in decl:
        base.let(n, e)
    sq = squash(body)
    m = _need(re.search(
        r"for\(ngb_idx=0;ngb_idx<ngb_size;ngb_idx\+\+\)\{"
        r"(\w+)=x\+\*buf_ngb;buf_ngb\+\+;(\w+)=y\+\*buf_ngb;buf_ngb\+\+;(\w+)=z\+\*buf_ngb;buf_ngb\+\+;"
        r"pos=([^;]+);if\((.+?)\)continue;"
        r"buf_ppm=\(double\*\)ppm_data\+pos;"
        r"for\(k=0,buf=res,buf_U=\(double\*\)U;k<(\w+);k\+\+,buf\+\+\)"
        r"for\(kk=0,q=buf_ppm;kk<(\w+);kk\+\+,q\+\+,buf_U\+\+\)\*buf\+=\*buf_U\*\*q;\}return;", sq),
        MRF, "_ngb_integrate neighbour loop")
    if "buf_ngb=ngb;" not in sq or sq.count("buf_ngb") != 8:
        raise Shape(f"{MRF}: _ngb_integrate walks `buf_ngb` differently")
    mm = _need(re.search(r"memset\(\(void\*\)res,0,(\w+)\*sizeof\(double\)\);", sq), MRF, "_ngb_integrate memset")
    par = dims + [("x", "Int"), ("y", "Int"), ("z", "Int"), ("b0", "Int"), ("b1", "Int"), ("b2", "Int")]
    loop = Fn("_", par, ""); loop.lets = list(base.lets); loop.types.update(base.types)
    loop.let(m.group(1), "x + b0").let(m.group(2), "y + b1").let(m.group(3), "z + b2").let("pos", m.group(4))
    f = loop.clone("ngbPos", f"`_ngb_integrate`: flat offset of the neighbour `(x+b0, y+b1, z+b2)`: `pos = {m.group(4)}`")
    L += f.value("pos")
    f = loop.clone("ngbSkip", f"`_ngb_integrate`: the neighbour is skipped iff `{m.group(5)}`")
    L += f.cond(m.group(5))
    f = base.clone("ngbReadLen", f"`_ngb_integrate`: doubles read from `ppm_data + pos` (`kk<{m.group(7)}`, `q++`)")
    L += f.value(m.group(7))
    f = base.clone("ngbResLen", f"`_ngb_integrate`: entries of `res` written (`k<{m.group(6)}`, `buf++`); `U` is read "
                                f"`ngbResLen*ngbReadLen` times (`buf_U++`); `memset(res, 0, {mm.group(1)}*sizeof(double))`")
    L += f.value(m.group(6))
    f = base.clone("ngbMemsetLen", "`_ngb_integrate`: doubles of `res` cleared by the `memset`")
    L += f.value(mm.group(1))
    L += [""]

    # ---- ve_step / interaction_energy: the voxel's own row ----
    for fn, pre in (("ve_step", "ve"), ("interaction_energy", "ie")):
        body = _norm(function_body(src, fn, MRF))
        b = Fn("_", dims, "")
        for n, e in _decls(body, "npy_intp"):
            b.let(n, e)
        sq = squash(body)
        _need(re.search(r"x=xyz_0;y=xyz_1;z=xyz_2;_ngb_integrate\(p,ppm,x,y,z,U_data,\(constint\*\)ngb,ngb_size\);", sq),
              MRF, f"{fn}: voxel coordinates / call of _ngb_integrate")
        ma = _need(re.search(r"p=\(double\*\)calloc\((\w+),sizeof\(double\)\);", sq), MRF, f"{fn}: allocation of p")
        if fn == "ve_step":
            m = _need(re.search(
                r"for\(k=0,pos=([^;,]+),buf=p;k<(\w+);k\+\+,pos\+\+,buf\+\+\)\{tmp=exp\(-2\*beta\*\(\*buf\)\)\*ref_data\[pos\];",
                sq), MRF, "ve_step: read of ref")
            m2 = _need(re.search(
                r"pos=([^;]+);if\(psum>TINY\)for\(k=0,buf=p;k<(\w+);k\+\+,pos\+\+,buf\+\+\)ppm_data\[pos\]=\*buf/psum;"
                r"elsefor\(k=0,buf=p;k<(\w+);k\+\+,pos\+\+,buf\+\+\)ppm_data\[pos\]=", sq), MRF, "ve_step: write of ppm")
            if m2.group(2) != m2.group(3):
                raise Shape(f"{MRF}: ve_step writes a different number of classes in its two branches")
            r = Fn("_", dims + [("iter_index", "Int")], ""); r.lets = list(b.lets); r.types.update(b.types)
            L += r.clone("veRefPos", f"`ve_step`: first entry of `ref` read for the current point: `pos = {m.group(1)}`"
                         ).value(m.group(1))
            L += b.clone("veRefLen", f"`ve_step`: entries of `ref` read (`k<{m.group(2)}`, `pos++`)").value(m.group(2))
            posx, cnt = m2.group(1), m2.group(2)
        else:
            m2 = _need(re.search(r"pos=([^;]+);for\(k=0,buf=p;k<(\w+);k\+\+,pos\+\+,buf\+\+\)tmp\+=ppm_data\[pos\]\*\(\*buf\);",
                                 sq), MRF, "interaction_energy: read of the voxel's row")
            posx, cnt = m2.group(1), m2.group(2)
        w = Fn("_", dims + [("x", "Int"), ("y", "Int"), ("z", "Int")], ""); w.lets = list(b.lets); w.types.update(b.types)
        verb = "written" if fn == "ve_step" else "read"
        L += w.clone(pre + "RowPos", f"`{fn}`: first entry of `ppm` {verb} for voxel `(x, y, z)`: `pos = {posx}`").value(posx)
        L += b.clone(pre + "RowLen", f"`{fn}`: entries {verb} (`k<{cnt}`, `pos++`)").value(cnt)
        L += b.clone(pre + "AllocLen", f"`{fn}`: `p = calloc({ma.group(1)}, sizeof(double))`, the `res` of `_ngb_integrate`"
                     ).value(ma.group(1))
        L += [""]

    # ---- make_edges ----
    body = _norm(function_body(src, "make_edges", MRF))
    edims = [("dim_idx_0", "Int"), ("dim_idx_1", "Int"), ("dim_idx_2", "Int")]
    b = Fn("_", edims, "")
    ed = [(n, e) for n, e in _decls(body, "npy_intp") if n.startswith("u")]
    if not ed:
        raise Shape(f"{MRF}: make_edges stride declarations not found")
    for n, e in ed:
        b.let(n, e)
    sq = squash(body)
    m = _need(re.search(
        r"if\(idx_i>=0\)\{buf_ngb=ngb;for\(ngb_idx=0;ngb_idx<ngb_size;ngb_idx\+\+\)\{"
        r"(\w+)=xi\+\*buf_ngb;buf_ngb\+\+;(\w+)=yi\+\*buf_ngb;buf_ngb\+\+;(\w+)=zi\+\*buf_ngb;buf_ngb\+\+;"
        r"pos=([^;]+);if\((.+?)\)continue;"
        r"buf_idx=\(constnpy_intp\*\)PyArray_DATA\(\(PyArrayObject\*\)idx\)\+pos;if\(\*buf_idx<0\)continue;"
        r"buf_edges_0=idx_i;buf_edges_1=\*buf_idx;n_edges\+\+;buf_edges\+=2;\}\}", sq), MRF, "make_edges neighbour loop")
    ma = _need(re.search(r"edges_data=\(npy_intp\*\)malloc\(([^;]+?)\*sizeof\(npy_intp\)\);", sq), MRF,
               "make_edges allocation")
    _need(re.search(r"while\(iter_index<iter_size\)\{buf_idx=PyArray_ITER_DATA\(iter\);if\(\*buf_idx>=0\)mask_size\+\+;"
                    r"PyArray_ITER_NEXT\(iter\);\}", sq), MRF, "make_edges count of mask voxels")
    par = edims + [("xi", "Int"), ("yi", "Int"), ("zi", "Int"), ("b0", "Int"), ("b1", "Int"), ("b2", "Int")]
    loop = Fn("_", par, ""); loop.lets = list(b.lets); loop.types.update(b.types)
    loop.let(m.group(1), "xi + b0").let(m.group(2), "yi + b1").let(m.group(3), "zi + b2").let("pos", m.group(4))
    L += loop.clone("edgePos", f"`make_edges`: flat offset of the neighbour: `pos = {m.group(4)}`").value("pos")
    L += loop.clone("edgeSkip", f"`make_edges`: the neighbour is skipped iff `{m.group(5)}`").cond(m.group(5))
    a = Fn("edgeAlloc", [("ngb_size", "Int"), ("mask_size", "Int")],
           f"`make_edges`: `npy_intp`s allocated for the edge list: `malloc({ma.group(1)} * sizeof(npy_intp))`; "
           f"each stored edge takes 2 (`buf_edges[0]`, `buf_edges[1]`, `buf_edges += 2`)")
    L += a.value(ma.group(1))
    L += ["", "end Mrf", ""]
    return L


# --------------------------------------------------------------------------------------------------
# joint_histogram.c
# --------------------------------------------------------------------------------------------------
def _macro(src, name, rel):
    m = _need(re.search(r"#define\s+" + name + r"\((\w+)\)\s*(.*)", src), rel, f"macro {name}")
    return m.group(1), m.group(2).strip()


def _jh(src):
    L = ["namespace Jh", ""]
    funs = {}
    arg, mbody = _macro(src, "FLOOR", JH)
    em = Emitter({arg: "Rat"})
    e = cparse(mbody)
    if em.infer(e) != "Int":
        raise Shape(f"{JH}: FLOOR does not yield an int")
    L += [f"/-- `#define FLOOR({arg}) {mbody}` -/", f"def FLOOR ({arg} : Rat) : Int := {em.val(e, 'Int')}"]
    funs["FLOOR"] = (["Rat"], "Int")
    arg, mbody = _macro(src, "UROUND", JH)
    em = Emitter({arg: "Rat"})
    L += [f"/-- `#define UROUND({arg}) {mbody}` -/", f"def UROUND ({arg} : Rat) : Int := {em.val(cparse(mbody), 'Int')}"]
    funs["UROUND"] = (["Rat"], "Int")
    m = re.search(r"#define\s+APPEND_NEIGHBOR\(q,\s*w\)\s*\\\n(.*?)\n\n", src, re.S)
    ab = re.sub(r"[\s\\]+", "", m.group(1)) if m else None
    if ab != "j=J[q];if(j>=0){*bufJnn=j;bufJnn++;*bufW=w;bufW++;nn++;}":
        raise Shape(f"{JH}: APPEND_NEIGHBOR is not `j = J[q]; if (j>=0) append (j, w)`: {ab}")
    body = _norm(function_body(src, "joint_histogram", JH))
    dims = [("dimJ_0", "Int"), ("dimJ_1", "Int"), ("dimJ_2", "Int")]
    base = Fn("_", dims, "")
    decl = _decls(body, "size_t")
    names = [n for n, _ in decl]
    if names[:3] != ["dimJX", "dimJY", "dimJZ"] or not all(re.fullmatch(r"u\d", n) for n in names[3:]):
        raise Shape(f"{JH}: size_t declarations not recognised: {names}")
    for n, e in decl:
        base.let(n, e)
    for k, n in enumerate(("dimJX", "dimJY", "dimJZ")):
        f = Fn(n, [dims[k]], f"`size_t {n}={dict(decl)[n]};` (unsigned: meaningful for `dimJ[{k}] ≥ 2` only)")
        L += f.value(dict(decl)[n])
    lens = {}
    for cty, nm in (("signed short", "Jnn"), ("double", "W")):
        mm = _need(re.search(cty.replace(" ", r"\s+") + r"\s+" + nm + r"_(\d+);", body), JH, f"local buffer {nm}")
        lens[nm] = int(mm.group(1))
    # inside test
    mi = _need(re.search(r"if\s*\((\(i>=0\).*?)\)\s*\{", body, re.S), JH, "inside test")
    cond = " ".join(mi.group(1).split())
    par = [("i", "Int"), ("Tx", "Rat"), ("Ty", "Rat"), ("Tz", "Rat")] + dims
    f = Fn("inside", par, f"the inside test `if ({cond})`"); f.lets = list(base.lets); f.types.update(base.types)
    L += f.cond(cond)
    # neighbour block
    blk = _need(re.search(r"nx\s*=\s*FLOOR.*?interpolate\(i,", body, re.S), JH, "neighbour block")
    stmts = [" ".join(x.split()) for x in blk.group(0).split(";") if x.strip()]
    par = [("Tx", "Rat"), ("Ty", "Rat"), ("Tz", "Rat")] + dims
    f = Fn("_", par, ""); f.lets = list(base.lets); f.types.update(base.types)
    offs, ws = [], []
    ityp = {"nx", "ny", "nz", "off"}
    for st in stmts[:-1]:
        m1 = re.match(r"APPEND_NEIGHBOR\((.*),(.*)\)$", st)
        if m1:
            offs.append(m1.group(1).strip()); ws.append(m1.group(2).strip())
            continue
        m2 = _need(re.match(r"(\w+) = (.*)$", st), JH, f"statement {st!r} of the neighbour block")
        if m2.group(1) in ("bufJnn", "bufW", "nn"):
            continue
        f.let(m2.group(1), m2.group(2), "Int" if m2.group(1) in ityp else "Rat", funs)
    if len(offs) != 8:
        raise Shape(f"{JH}: {len(offs)} APPEND_NEIGHBOR calls, expected 8")
    em = Emitter(f.types, funs)
    g = f.clone("offsets", "`off` and the flat indices `q` of the `APPEND_NEIGHBOR(q, w)` calls, in order: what is read "
                           "from the padded image `J`")
    L += g.raw("[" + ", ".join(em.val(cparse(o), "Int") for o in offs) + "]", "List Int")
    g = f.clone("weights", "the weights `w` of the `APPEND_NEIGHBOR(q, w)` calls, in order")
    L += g.raw("[" + ", ".join(em.val(cparse(w), "Rat") for w in ws) + "]", "List Rat")
    L += [f"/-- number of `APPEND_NEIGHBOR` calls per voxel; `signed short Jnn[{lens['Jnn']}]`; `double W[{lens['W']}]` -/",
          f"def nAppend : Nat := {len(offs)}", f"def JnnLen : Nat := {lens['Jnn']}", f"def WLen : Nat := {lens['W']}"]
    mm = _need(re.search(r"memset\(\(void\*\)H,\s*0,\s*([^;]+?)\*sizeof\(double\)\);", body), JH, "memset of H")
    L += Fn("histLen", [("clampI", "Int"), ("clampJ", "Int")],
            f"doubles of `H` cleared before the loop: `memset(H, 0, {mm.group(1)}*sizeof(double))`").value(mm.group(1))
    # histogram index of the PV / TRI / RAND interpolators
    for fn, nm, pat, jt in (("_pv_interpolation", "pvIndex", r"H\[\*bufJ\+clampJ_i\]\+=\*bufW;", None),
                            ("_tri_interpolation", "triIndex", r"H\[UROUND\(jm\)\+clampJ_i\]\+=1;", "Rat"),
                            ("_rand_interpolation", "randIndex", r"H\[J\[k\]\+clampJ_i\]\+=1;", None)):
        b = function_body(src, fn, JH)
        sqb = squash(b)
        if sqb.count("H[") != 1 or not re.search(pat, sqb):
            raise Shape(f"{JH}: {fn} does not write `H` once at the expected index expression")
        md = _need(re.search(r"unsigned\s+int\s+clampJ_i\s*=\s*([^;]+);", b), JH, f"{fn}: clampJ_i")
        g = Fn(nm, [("i", "Int"), ("clampJ", "Int"), ("j", jt or "Int")],
               f"`{fn}`: index written in `H` (`clampJ_i = {md.group(1)}`; `j` stands for "
               + {"pvIndex": "`*bufJ`", "triIndex": "`jm`", "randIndex": "`J[k]`"}[nm] + ")")
        g.let("clampJ_i", md.group(1))
        L += g.value({"pvIndex": "j + clampJ_i", "triIndex": "UROUND(j) + clampJ_i", "randIndex": "j + clampJ_i"}[nm],
                     "Int", funs)
    L += ["", "end Jh", ""]
    return L


# --------------------------------------------------------------------------------------------------
# cubic_spline.c
# --------------------------------------------------------------------------------------------------
def _paren_end(s, i):
    """index just after the parenthesis group opening at s[i] == '('"""
    depth = 0
    for k in range(i, len(s)):
        if s[k] == "(":
            depth += 1
        elif s[k] == ")":
            depth -= 1
            if depth == 0:
                return k + 1
    raise Shape("unbalanced parentheses")


def _straightline(fn, stmts, rel, funs=None):
    """brace-free statement list → nested Lean term.  Accepted statements:
       `int N = E` | `N = E` | `N += E` | `if (C) return E` | `if (C) N = E` | `if (C) N += E` | `return E` (last)."""
    out, depth = [], 0
    for k, st in enumerate(stmts):
        em = Emitter(fn.types, funs)
        ind = "  " * (depth + 1)
        m = re.match(r"if\s*\(", st)
        if m:
            j = _paren_end(st, m.end() - 1)
            cond, rest = st[m.end():j - 1], st[j:].strip()
            c = em.prop(cparse(cond))
            mr = re.match(r"return\s+(.*)$", rest)
            if mr:
                out.append(f"{ind}if {c} then {em.val(cparse(mr.group(1)), 'Int')} else")
                continue
            ma = _need(re.match(r"(\w+)\s*(\+?=)\s*(.*)$", rest), rel, f"statement {st!r}")
            rhs = ma.group(3) if ma.group(2) == "=" else f"{ma.group(1)} + ({ma.group(3)})"
            out.append(f"{ind}let {ma.group(1)} := if {c} then {em.val(cparse(rhs), 'Int')} else {ma.group(1)}")
            continue
        mr = re.match(r"return\s+(.*)$", st)
        if mr:
            if k != len(stmts) - 1:
                raise Shape(f"{rel}: statements after an unconditional return")
            out.append(f"{ind}{em.val(cparse(mr.group(1)), 'Int')}")
            return out
        ma = _need(re.match(r"(?:int\s+)?(\w+)\s*(\+?=)\s*(.*)$", st), rel, f"statement {st!r}")
        rhs = ma.group(3) if ma.group(2) == "=" else f"{ma.group(1)} + ({ma.group(3)})"
        out.append(f"{ind}let {ma.group(1)} := {em.val(cparse(rhs), 'Int')}")
        fn.types[ma.group(1)] = "Int"
    raise Shape(f"{rel}: function does not end with a return")


def _spline(src):
    L = ["namespace Spline", ""]
    # ---- _mirrored_position ----
    body = function_body(src, "_mirrored_position", CS)
    if "{" in body:
        raise Shape(f"{CS}: _mirrored_position has nested blocks")
    stmts = [" ".join(x.split()) for x in body.split(";") if x.strip()]
    f = Fn("mirroredPosition", [("x", "Int"), ("ddim", "Int")], "")
    lines = _straightline(f, stmts, CS)
    L += ["/-- `_mirrored_position(int x, unsigned int ddim)`, statement by statement (`%` is C's truncating remainder) -/",
          "def mirroredPosition (x ddim : Int) : Int :="] + lines
    # ---- _mirror_grid_neighbors ----
    body = re.sub(r"\*\s*(px|nx)\b", r"\1", function_body(src, "_mirror_grid_neighbors", CS))
    sq = squash(body)
    par = [("x", "Rat"), ("ddim", "Int")]
    mA = re.fullmatch(r"intok=0;px=([^;]+);if\((.+?)\)\{ok=1;px=([^;]+);nx=([^;]+);\}returnok;", sq)
    mB = re.fullmatch(r"intok=0;doubleaux=([^;]+);if\((.+?)\)\{ok=1;px=([^;]+);px=([^;]+);nx=([^;]+);\}returnok;", sq)
    if mA:      # the coordinate is converted first, the converted value is tested
        f = Fn("_", par, "").let("px", mA.group(1))
        cond, upd, nxe = mA.group(2), mA.group(3), mA.group(4)
        doc = f"`*px = {mA.group(1)}`; neighbours exist iff `{cond}`"
        castarg, castguard = re.fullmatch(r"\(int\)\((.+)\)", mA.group(1)), None
        if not castarg:
            raise Shape(f"{CS}: _mirror_grid_neighbors: `*px` is not an (int) conversion")
        castarg = castarg.group(1)
    elif mB:    # the range is tested in double, then the coordinate is converted
        f = Fn("_", par, "").let("aux", mB.group(1), "Rat")
        cond, upd, nxe = mB.group(2), mB.group(4), mB.group(5)
        doc = f"`double aux = {mB.group(1)}`; neighbours exist iff `{cond}`"
        castarg, castguard = "aux", cond
        if mB.group(3) != "(int)aux":
            raise Shape(f"{CS}: _mirror_grid_neighbors: `*px` is not `(int)aux`")
    else:
        raise Shape(f"{CS}: _mirror_grid_neighbors not recognised")
    L += f.clone("neighborsOk", "`_mirror_grid_neighbors`: " + doc).cond(cond)
    g = f.clone("_", "")
    if mB:
        g.let("px", mB.group(3))
    L += g.clone("neighborsCastArg", "`_mirror_grid_neighbors`: the double converted with `(int)`").value(castarg, "Rat")
    L += g.clone("neighborsCastGuard", "`_mirror_grid_neighbors`: the condition under which the `(int)` conversion is "
                                       "executed (`true`: unconditionally)").cond(castguard or "0 == 0")
    g.let("px", upd)
    L += g.clone("neighborsPx", f"`_mirror_grid_neighbors`: right neighbour `*px = {upd}` (when ok)").value("px")
    g.let("nx", nxe)
    L += g.clone("neighborsNx", f"`_mirror_grid_neighbors`: left neighbour `*nx = {nxe}` (when ok)").value("nx")
    # ---- sampling functions ----
    buflen, loopform = set(), set()
    for nd, fname in ((1, "cubic_spline_sample1d"), (2, "cubic_spline_sample2d"), (3, "cubic_spline_sample3d"),
                      (4, "cubic_spline_sample4d")):
        raw = function_body(src, fname, CS)
        for mm in re.finditer(r"\b(?:double|int)\s+((?:(?:bsp|pos)\w\[\d+\]\s*,?\s*)+);", raw):
            buflen |= {int(v) for v in re.findall(r"\[(\d+)\]", mm.group(1))}
        axes = "xyzt"[:nd]
        sq = squash(raw)
        for a in axes:
            pat = (r"for\(%s%s=n%s;%s%s(<=|<)p%s;%s%s\+\+,buf_bsp%s\+\+,buf_pos%s\+\+\)\{\*buf_bsp%s=cubic_spline_basis\(%s-\(double\)%s%s\);"
                   r"\*buf_pos%s=_mirrored_position\(%s%s,ddim(\w*)\);\}") % ((a, a, a, a, a, a, a, a, a, a, a, a, a, a, a, a, a))
            mm = _need(re.search(pat, sq), CS, f"{fname}: loop filling bsp{a}/pos{a}")
            loopform.add(mm.group(1))
            if sq.count(f"buf_bsp{a}=(double*)bsp{a};") != 2 or sq.count(f"buf_pos{a}=(int*)pos{a};") != 2:
                raise Shape(f"{CS}: {fname}: bsp{a}/pos{a} are not re-walked from their start")
            if len(re.findall(r"for\(%s%s=n%s;%s%s(?:<=|<)p%s;" % (a, a, a, a, a, a), sq)) != 2 or \
                    len(set(re.findall(r"for\(%s%s=n%s;%s%s(<=|<)p%s;" % (a, a, a, a, a, a), sq))) != 1:
                raise Shape(f"{CS}: {fname}: the fill loop and the read loop over {a} differ")
            cn = _need(re.search(r"COMPUTE_NEIGHBORS\(%s,ddim(\w*),n%s,p%s\);" % (a, a, a), sq), CS,
                       f"{fname}: COMPUTE_NEIGHBORS for {a}")
            if cn.group(1) != mm.group(2):
                raise Shape(f"{CS}: {fname}: neighbours of {a} computed with a different ddim than the mirror")
        body = re.sub(r"\(\*buf_pos(\w)\)|\*buf_pos(\w)\b", lambda q: "pos" + (q.group(1) or q.group(2)), raw)
        body = _norm(body)
        offs = [(mm.group(1), mm.group(2)) for mm in
                re.finditer(r"npy_intp\s+(off\w*|offset)\s*=\s*PyArray_STRIDE\(\s*\(PyArrayObject\s*\*\)\s*Coef\s*,\s*(\d)\s*\)\s*/"
                            r"\s*\(npy_intp\)\s*sizeof\(double\)\s*;", body)]
        dd = [(mm.group(1), mm.group(2)) for mm in re.finditer(r"unsigned\s+int\s+(ddim\w*)\s*=\s*(dim_Coef_\d\s*-\s*1)\s*;", body)]
        if len(offs) != nd or len(dd) != nd or [int(k) for _, k in offs] != list(range(nd)):
            raise Shape(f"{CS}: {fname}: stride / ddim declarations not recognised")
        par = [(n, "Int") for n, _ in offs] + [("pos" + a, "Int") for a in axes]
        f = Fn(f"sample{nd}dOffset", par,
               f"`{fname}`: element offset from `coef` of the coefficient read for mirrored positions "
               f"({', '.join('pos' + a for a in axes)}); strides in doubles")
        for mm in re.finditer(r"\b(shft\w+)\s*=\s*([^;]+);", body):
            f.let(mm.group(1), " ".join(mm.group(2).split()))
        mb = re.findall(r"\bbuf\s*=\s*coef\s*\+\s*([^;]+);", body)
        if len(mb) != 1:
            raise Shape(f"{CS}: {fname}: coefficient address not recognised")
        L += f.value(" ".join(mb[0].split()))
        for k, (n, e) in enumerate(dd):
            L += Fn(f"sample{nd}d_{n}", [(f"dim_Coef_{k}", "Int")],
                    f"`{fname}`: `unsigned int {n} = PyArray_DIM(Coef, {k}) - 1` (unsigned: meaningful for a non-empty axis)"
                    ).value(e)
    if len(buflen) != 1 or len(loopform) != 1:
        raise Shape(f"{CS}: local buffer sizes {sorted(buflen)} / loop forms {sorted(loopform)} are not uniform")
    L += [f"/-- `double bsp?[{min(buflen)}]; int pos?[{min(buflen)}];` in every sampling function -/",
          f"def sampleBufLen : Int := {min(buflen)}",
          f"/-- iterations of `for (xx = nx; xx {min(loopform)} px; xx++, buf_bspx++, buf_posx++)` -/",
          "def sampleLoopCount (nx px : Int) : Int := " + ("px - nx + 1" if min(loopform) == "<=" else "px - nx")]
    # ---- _cubic_spline_transform1d: the walks of buf_src / buf_res ----
    body = function_body(src, "_cubic_spline_transform1d", CS)
    items, depth, cur = [], 0, ""
    for ch in body:                                   # top-level statements; a `for (...) {...}` is one item
        cur += ch
        if ch == "{":
            depth += 1
        elif ch == "}":
            depth -= 1
            if depth == 0:
                items.append(cur.strip()); cur = ""
        elif ch == ";" and depth == 0 and cur.count("(") == cur.count(")"):
            items.append(cur.strip()); cur = ""
    progs = {"buf_src": [], "buf_res": []}
    base = {"buf_src": "src", "buf_res": "res"}
    for it in items:
        sq = squash(it)
        if re.match(r"(int|double|unsigned|npy_intp)\b", it):      # declarations
            if "=" in it and ("buf_src" in it or "buf_res" in it):
                raise Shape(f"{CS}: _cubic_spline_transform1d: pointer initialised in its declaration")
            continue
        mf = re.fullmatch(r"for\(k=(\d+);k<dim;k\+\+\)\{(.*)\}", sq)
        if mf:
            stmts = [x for x in mf.group(2).split(";") if x]
            for ptr in progs:
                mv = [(i, x) for i, x in enumerate(stmts) if re.fullmatch(ptr + r"[-+]=(src|res)_stride", x)]
                acc = [i for i, x in enumerate(stmts) if "*" + ptr in x]
                if not mv and not acc:
                    continue
                if len(mv) != 1 or (acc and min(acc) < mv[0][0]) or not mv[0][1].endswith(base[ptr] + "_stride"):
                    raise Shape(f"{CS}: _cubic_spline_transform1d: `{ptr}` is not moved exactly once, by its own stride, "
                                f"before it is dereferenced in `{it[:60]}`")
                progs[ptr].append(f".walk {mf.group(1)} ({'1' if '+=' in mv[0][1] else '-1'}) {'true' if acc else 'false'}")
            continue
        if sq.startswith("for(") or "while(" in sq:
            raise Shape(f"{CS}: _cubic_spline_transform1d: loop shape not recognised: {it[:60]}")
        for ptr in progs:
            if re.fullmatch(ptr + "=" + base[ptr] + ";", sq):
                progs[ptr].append(".reset")
            elif re.search(r"\b" + ptr + r"\s*[-+]?=", it) and not re.search(r"\*\s*" + ptr + r"\s*=", it):
                raise Shape(f"{CS}: _cubic_spline_transform1d: `{ptr}` assigned outside the recognised forms: {it[:60]}")
            elif "*" + ptr in sq:
                progs[ptr].append(".acc")
    if not progs["buf_src"] or not progs["buf_res"] or progs["buf_src"][0] != ".reset" or progs["buf_res"][0] != ".reset":
        raise Shape(f"{CS}: _cubic_spline_transform1d: pointers are not initialised from src / res")
    L += ["/-- pointer walk of `_cubic_spline_transform1d`: `reset` (`buf = base`), `acc` (`*buf` used), "
          "`walk k0 d deref` (`for (k=k0; k<dim; k++) { buf += d*stride; … }`, dereferenced in the body or not) -/",
          "inductive Seg where", "  | reset | acc | walk (k0 : Nat) (d : Int) (deref : Bool)", "  deriving Repr",
          "/-- `_cubic_spline_transform1d`: the life of `buf_src` (indices in units of `src_stride`) -/",
          "def transform1dSrc : List Seg := [" + ", ".join(progs["buf_src"]) + "]",
          "/-- `_cubic_spline_transform1d`: the life of `buf_res` (indices in units of `res_stride`) -/",
          "def transform1dRes : List Seg := [" + ", ".join(progs["buf_res"]) + "]"]
    tb = squash(function_body(src, "_cubic_spline_transform", CS))
    if "dim=PyArray_DIM((PyArrayObject*)iter->ao,axis);" not in tb or \
            "_copy_double_buffer(work,PyArray_ITER_DATA(iter),dim,stride);_cubic_spline_transform1d(PyArray_ITER_DATA(iter),work,dim,stride,1);" not in tb:
        raise Shape(f"{CS}: _cubic_spline_transform no longer copies `dim` elements into `work` and transforms them")
    cb = squash(function_body(src, "_copy_double_buffer", CS))
    if "for(i=0;i<dim;i++,buf_res++,buf_src+=src_stride)*buf_res=*buf_src;" not in cb:
        raise Shape(f"{CS}: _copy_double_buffer loop not recognised")
    wb = squash(function_body(src, "cubic_spline_transform", CS))
    if "aux=PyArray_DIM(res,axis);if(aux>dimmax)dimmax=aux;" not in wb or "work=(double*)malloc(sizeof(double)*dimmax);" not in wb:
        raise Shape(f"{CS}: cubic_spline_transform: `work` is no longer `dimmax` doubles")
    # ---- COMPUTE_NEIGHBORS macro really calls _mirror_grid_neighbors ----
    if not re.search(r"#define\s+COMPUTE_NEIGHBORS\(x,\s*ddim,\s*nx,\s*px\)\s*\\\s*if\s*\(!_mirror_grid_neighbors\(x,\s*ddim,"
                     r"\s*&nx,\s*&px\)\)\s*\\\s*return\s+0\.0;", src):
        raise Shape(f"{CS}: COMPUTE_NEIGHBORS macro not recognised")
    L += ["", "end Spline", ""]
    return L


FV = "lib/fff/fff_vector.c"


def _scans(src, rel, fns):
    """the two sentinel scans of a partition pass as written (no bounds test): test on the cell read and index step"""
    ops = {"<": "decide (v < a)", "<=": "decide (v ≤ a)", ">": "decide (v > a)", ">=": "decide (v ≥ a)"}
    L = []
    for fn, tag in fns:
        body = squash(function_body(src, fn, rel))
        ms = re.findall(r"while\(\*bufl([<>=]+)a\)\{i(\+\+|--);bufl([+-])=stride;\}"
                        r"while\(\*bufr([<>=]+)a\)\{j(\+\+|--);bufr([+-])=stride;\}", body)
        if len(ms) != 1 or body.count("while(*buf") != 2 or any(o not in ops for o in (ms[0][0], ms[0][3])):
            raise Shape(f"{rel}: {fn}: the two sentinel scans `while (*bufl < a)` / `while (*bufr > a)` not recognised")
        o1, d1, q1, o2, d2, q2 = ms[0]
        if (d1 == "++") != (q1 == "+") or (d2 == "++") != (q2 == "+"):
            raise Shape(f"{rel}: {fn}: index and pointer of a sentinel scan move in different directions")
        L += [f"/-- `{fn}`: `while (*bufl {o1} a) {{i{d1}; bufl {q1}= stride;}}` — the test on the cell read -/",
              f"def scanUpTest{tag} (v a : Rat) : Bool := {ops[o1]}",
              f"/-- `{fn}`: the step of `i` in that loop -/",
              f"def scanUpStep{tag} : Int := {'1' if d1 == '++' else '-1'}",
              f"/-- `{fn}`: `while (*bufr {o2} a) {{j{d2}; bufr {q2}= stride;}}` -/",
              f"def scanDownTest{tag} (v a : Rat) : Bool := {ops[o2]}",
              f"def scanDownStep{tag} : Int := {'1' if d2 == '++' else '-1'}", ""]
    return L


def _fffvec(src):
    return (["namespace FffVec", ""] + _scans(src, FV, (("_fff_pth_element", "El"), ("_fff_pth_interval", "Iv")))
            + ["end FffVec", ""])


# --------------------------------------------------------------------------------------------------
# quantile.c
# --------------------------------------------------------------------------------------------------
def _quantile(src):
    L = ["namespace Quantile", ""]
    funs = {}
    for name in ("UNSIGNED_FLOOR", "UNSIGNED_CEIL"):
        arg, mbody = _macro(src, name, QT)
        em = Emitter({arg: "Rat"})
        e = cparse(mbody)
        if em.infer(e) != "Int":
            raise Shape(f"{QT}: {name} does not yield an int")
        L += [f"/-- `#define {name}({arg}) {mbody}` -/", f"def {name} ({arg} : Rat) : Int := {em.val(e, 'Int')}"]
        funs[name] = (["Rat"], "Int")
    sq = squash(function_body(src, "quantile", QT))
    m = _need(re.fullmatch(
        r"doublem,pp;(?:double\*buf;)?npy_intpp(?:,i)?;if\((.+?)\)\{fprintf\(stderr,\"[^\"]*\"\);return0\.0;\}"
        r"if\(size==1\)returndata\[0\];"
        r"(for\(i=0,buf=data;i<size;i\+\+,buf\+=stride\)if\(\*buf!=\*buf\)return\*buf;)?"
        r"if\(!interp\)\{pp=([^;]+);p=([^;]+);if\((p==size)\)returnPOSINF;m=_pth_element\(data,p,stride,size\);\}"
        r"else\{doublewm,wM;pp=([^;]+);p=([^;]+);wM=([^;]+);wm=([^;]+);if\((wM<=0)\)m=_pth_element\(data,p,stride,size\);"
        r"else\{doubleam,aM;_pth_interval\(&am,&aM,data,p,stride,size\);m=wm\*am\+wM\*aM;\}\}returnm;", sq), QT,
        "quantile front end")
    nanscan = m.group(2) is not None
    groups = [None, m.group(1)] + [m.group(k) for k in range(3, 11)]

    class _M:
        @staticmethod
        def group(k):
            return groups[k]
    m = _M
    L += ["/-- `quantile`: the fibre is scanned (`i<size`, `buf+=stride`) and a NaN is returned as such before the "
          "partition loops run -/", f"def nanScan : Bool := {'true' if nanscan else 'false'}"]
    par = [("r", "Rat"), ("size", "Int")]
    L += Fn("refuse", [("r", "Rat")], f"`quantile`: returns 0 with a message iff `{m.group(1)}`").cond(m.group(1))
    f = Fn("_", par, "").let("pp", m.group(2), "Rat").let("p", m.group(3), "Int", funs)
    L += f.clone("pNoInterp", f"`quantile`, `!interp`: `pp = {m.group(2)}; p = {m.group(3)}` — the order statistic asked "
                              f"of `_pth_element`").value("p")
    L += f.clone("noInterpInf", f"`quantile`, `!interp`: returns `POSINF` without touching the data iff `{m.group(4)}`"
                 ).cond(m.group(4))
    f = Fn("_", par, "").let("pp", m.group(5), "Rat").let("p", m.group(6), "Int", funs)
    L += f.clone("pInterp", f"`quantile`, `interp`: `pp = {m.group(5)}; p = {m.group(6)}`").value("p")
    f.let("wM", m.group(7), "Rat")
    L += f.clone("wM", f"`quantile`, `interp`: `wM = {m.group(7)}`").value("wM", "Rat")
    L += f.clone("interpSingle", f"`quantile`, `interp`: only `_pth_element(p)` is needed iff `{m.group(9)}` (else "
                                 f"`_pth_interval` selects the order statistics `p` and `p+1`)").cond(m.group(9))
    L += _scans(src, QT, (("_pth_element", "El"), ("_pth_interval", "Iv")))
    L += ["", "end Quantile", ""]
    return L


# --------------------------------------------------------------------------------------------------
# lib/fff/fff_array.c: the array iterator
# --------------------------------------------------------------------------------------------------
FFA = "lib/fff/fff_array.c"


def _fff(src):
    L = ["namespace Fff", "",
         "/-- state of a `fff_array_iterator`: counter, coordinates, byte offset of `data` from the array's buffer -/",
         "structure It where", "  idx : Int", "  x : Int", "  y : Int", "  z : Int", "  t : Int", "  data : Int",
         "  deriving Repr, DecidableEq", ""]
    sq = squash(function_body(src, "fff_array_iterator_init_skip_axis", FFA))
    m = _need(re.search(
        r"iter\.idx=0;iter\.size=im->dimX\*im->dimY\*im->dimZ\*im->dimT;iter\.data=\(char\*\)im->data;"
        r"iter\.x=0;iter\.y=0;iter\.z=0;iter\.t=0;"
        r"iter\.ddimY=im->dimY-1;iter\.ddimZ=im->dimZ-1;iter\.ddimT=im->dimT-1;"
        r"if\(axis==3\)\{iter\.ddimT=0;iter\.size/=im->dimT;\}elseif\(axis==2\)\{iter\.ddimZ=0;iter\.size/=im->dimZ;\}"
        r"elseif\(axis==1\)\{iter\.ddimY=0;iter\.size/=im->dimY;\}elseif\(axis==0\)iter\.size/=im->dimX;"
        r"pY=([^;]+);pZ=([^;]+);pT=([^;]+);iter\.incT=([^;]+);iter\.incZ=([^;]+);iter\.incY=([^;]+);iter\.incX=([^;]+);", sq),
        FFA, "fff_array_iterator_init_skip_axis")

    def nm(e):
        return re.sub(r"im->byte_offset([XYZT])", r"o\1", e.replace("iter.", ""))
    par = [(n, "Int") for n in ("oX", "oY", "oZ", "oT", "ddimY", "ddimZ", "ddimT")]
    f = Fn("_", par, "").let("pY", nm(m.group(1))).let("pZ", nm(m.group(2))).let("pT", nm(m.group(3)))
    for k, nme in ((4, "incT"), (5, "incZ"), (6, "incY"), (7, "incX")):
        L += f.clone(nme, f"`fff_array_iterator_init_skip_axis`: `iter.{nme} = {m.group(k)}` (byte offsets `o?`, "
                          f"`pY = {m.group(1)}` …)").value(nm(m.group(k)))
    L += ["/-- `iter.ddimY/Z/T = dim - 1`, the skipped axis (if any) is frozen at 0 (`axis == 0` skips X: only the count changes) -/",
          "def ddims (dimY dimZ dimT axis : Int) : Int × Int × Int :=",
          "  (if axis = 1 then 0 else dimY - 1, if axis = 2 then 0 else dimZ - 1, if axis = 3 then 0 else dimT - 1)",
          "/-- number of positions visited: `dimX*dimY*dimZ*dimT` divided by the skipped axis' length -/",
          "def count (dimX dimY dimZ dimT axis : Int) : Int :=",
          "  (if axis = 0 then 1 else dimX) * (if axis = 1 then 1 else dimY) * (if axis = 2 then 1 else dimZ) * "
          "(if axis = 3 then 1 else dimT)"]
    for nd in (1, 2, 3, 4):
        b = squash(function_body(src, f"_fff_array_iterator_update{nd}d", FFA))
        pre = "fff_array_iterator*iter=(fff_array_iterator*)it;iter->idx++;"
        if not b.startswith(pre):
            raise Shape(f"{FFA}: _fff_array_iterator_update{nd}d does not start by incrementing idx")
        rest = b[len(pre):]
        branches = []
        while rest:
            mb = re.match(r"if\(iter->([xyzt])<iter->ddim([XYZT])\)\{(.*?)return;\}", rest)
            if mb:
                if mb.group(1).upper() != mb.group(2):
                    raise Shape(f"{FFA}: update{nd}d compares a coordinate with another axis' bound")
                branches.append((mb.group(1), mb.group(3))); rest = rest[mb.end():]
                continue
            mf = _need(re.fullmatch(r"(.*?)return;", rest), FFA, f"_fff_array_iterator_update{nd}d tail")
            branches.append((None, mf.group(1))); rest = ""
        out = [f"/-- `_fff_array_iterator_update{nd}d`, branch by branch (`idx` is incremented first) -/",
               f"def update{nd}d (ddimY ddimZ ddimT incX incY incZ incT : Int) (s : It) : It :="]
        for cond, body in branches:
            upd = {"idx": "s.idx + 1"}
            for a in [x for x in body.split(";") if x]:
                m1 = re.fullmatch(r"iter->([xyzt])\+\+", a)
                m2 = re.fullmatch(r"iter->([xyzt])=0", a)
                m3 = re.fullmatch(r"iter->data\+=iter->inc([XYZT])", a)
                m4 = re.fullmatch(r"iter->x=iter->idx", a)
                if m1:
                    upd[m1.group(1)] = f"s.{m1.group(1)} + 1"
                elif m2:
                    upd[m2.group(1)] = "0"
                elif m3:
                    upd["data"] = f"s.data + inc{m3.group(1)}"
                elif m4:
                    upd["x"] = "s.idx + 1"
                else:
                    raise Shape(f"{FFA}: update{nd}d: statement {a!r} not recognised")
            rec = "{ s with " + ", ".join(f"{k} := {v}" for k, v in upd.items()) + " }"
            out.append(f"  if s.{cond} < ddim{cond.upper()} then {rec} else" if cond else f"  {rec}")
        L += out
    vb = squash(function_body(src, "fff_array_view", FFA))
    if "fff_array_ndimsndims=FFF_ARRAY_4D;" not in vb or \
            "if(dimT==1){ndims=FFF_ARRAY_3D;if(dimZ==1){ndims=FFF_ARRAY_2D;if(dimY==1)ndims=FFF_ARRAY_1D;}}thisone.ndims=ndims;" not in vb:
        raise Shape(f"{FFA}: fff_array_view: rule for ndims not recognised")
    if not re.search(r"switch\(im->ndims\)\{caseFFF_ARRAY_1D:iter\.update=&_fff_array_iterator_update1d;break;"
                     r"caseFFF_ARRAY_2D:iter\.update=&_fff_array_iterator_update2d;break;"
                     r"caseFFF_ARRAY_3D:iter\.update=&_fff_array_iterator_update3d;break;"
                     r"caseFFF_ARRAY_4D:default:iter\.update=&_fff_array_iterator_update4d;break;\}", sq):
        raise Shape(f"{FFA}: dispatch of the update function on ndims not recognised")
    L += ["/-- `fff_array_view`: `ndims` is the index of the last non-unit axis (at least 1) -/",
          "def ndims (dimY dimZ dimT : Int) : Nat := if dimT = 1 then (if dimZ = 1 then (if dimY = 1 then 1 else 2) else 3) else 4",
          "/-- the updater selected by `switch (im->ndims)` -/",
          "def update (nd : Nat) (ddimY ddimZ ddimT incX incY incZ incT : Int) (s : It) : It :=",
          "  if nd = 1 then update1d ddimY ddimZ ddimT incX incY incZ incT s",
          "  else if nd = 2 then update2d ddimY ddimZ ddimT incX incY incZ incT s",
          "  else if nd = 3 then update3d ddimY ddimZ ddimT incX incY incZ incT s",
          "  else update4d ddimY ddimZ ddimT incX incY incZ incT s",
          "", "end Fff", ""]
    return L


# --------------------------------------------------------------------------------------------------
def translate(repo, TieBroken):
    def read(rel):
        p = os.path.join(repo, rel)
        try:
            return strip_comments(open(p).read())
        except OSError as e:
            raise TieBroken(f"cannot read {p}: {e}")
    L = ["/- GENERATED by harness/props/c20_kern.py from the text of /repo:",
         f"   {MRF}, {JH},", f"   {CS}, {QT}, lib/fff/fff_array.c, {FV}.  Do not edit. -/",
         "set_option linter.unusedVariables false",
         "namespace NipyVerif.C20.Kern", "",
         "/-- C `(int)a` for a double within `int` range: truncation toward zero -/",
         "def truncC (a : Rat) : Int := if 0 ≤ a then a.floor else -((-a).floor)", ""]
    try:
        L += _mrf(read(MRF))
        for part in PARTS:
            L += part(read)
    except (CParseError, Shape) as e:
        raise TieBroken(f"C text not in the translated fragment: {e}")
    L += ["end NipyVerif.C20.Kern", ""]
    return [(OUT, "\n".join(L))]


PARTS = [lambda read: _jh(read(JH)), lambda read: _spline(read(CS)), lambda read: _quantile(read(QT)),
         lambda read: _fff(read(FFA)), lambda read: _fffvec(read(FV))]


if __name__ == "__main__":
    import sys
    from harness.core import TieBroken
    for rel, txt in translate(sys.argv[1] if len(sys.argv) > 1 else "/repo", TieBroken):
        print(txt)
