"""C17 translator: the statistic flag enums, the constructor dispatch tables and the Python-level
id -> flag dictionaries, read from the text of the tree under test:

  lib/fff/fff_onesample_stat.h   typedef enum {...} fff_onesample_stat_flag
  lib/fff/fff_twosample_stat.h   typedef enum {...} fff_twosample_stat_flag
  lib/fff/fff_onesample_stat.c   switch (flag) in fff_onesample_stat_new / fff_onesample_stat_mfx_new
  lib/fff/fff_twosample_stat.c   switch (flag) in fff_twosample_stat_new / fff_twosample_stat_mfx_new
  nipy/labs/group/onesample.pyx  stats = {...}
  nipy/labs/group/twosample.pyx  stats = {...}

-> lean/NipyVerif/Gen/C17Tables.lean (namespace NipyVerif.Gen.C17).  The Lean model dispatches a
numeric flag through these tables; Props/C17C.lean proves the table facts.
"""
from __future__ import annotations

import os
import re


class ParseError(Exception):
    pass


def _read(repo, rel):
    try:
        with open(os.path.join(repo, rel)) as fh:
            return fh.read()
    except OSError as e:
        raise ParseError(f"cannot read {rel}: {e}")


def _strip_c_comments(src):
    src = re.sub(r"/\*.*?\*/", " ", src, flags=re.S)
    return re.sub(r"//[^\n]*", " ", src)


def parse_enum(src, typename):
    """[(NAME, value)] of `typedef enum { NAME = v, ... } typename;`"""
    src = _strip_c_comments(src)
    m = re.search(r"typedef\s+enum\s*\{([^}]*)\}\s*" + re.escape(typename) + r"\s*;", src, re.S)
    if not m:
        raise ParseError(f"enum {typename} not found")
    out, nxt = [], 0
    for item in m.group(1).split(","):
        item = item.strip()
        if not item:
            continue
        mm = re.fullmatch(r"(\w+)(?:\s*=\s*(-?\d+))?", item)
        if not mm:
            raise ParseError(f"enum {typename}: cannot parse item {item!r}")
        val = int(mm.group(2)) if mm.group(2) is not None else nxt
        if val < 0:
            raise ParseError(f"enum {typename}: negative value for {mm.group(1)}")
        out.append((mm.group(1), val))
        nxt = val + 1
    if not out:
        raise ParseError(f"enum {typename} is empty")
    return out


def _function_body(src, name):
    src = _strip_c_comments(src)
    m = re.search(r"\b" + re.escape(name) + r"\s*\([^;{]*\)\s*\{", src)
    if not m:
        raise ParseError(f"function {name} not found")
    i = m.end()
    depth = 1
    while i < len(src) and depth:
        depth += {"{": 1, "}": -1}.get(src[i], 0)
        i += 1
    return src[m.end():i - 1]


def parse_dispatch(src, ctor):
    """[(FLAG, function, empirical)] from the `switch (flag)` of constructor `ctor`:
    `case FLAG: ... thisone->compute_stat = &fn;` ; `empirical` is the value the case leaves in
    thisone->empirical (constructor default 1, None when the structure has no such field)."""
    body = _function_body(src, ctor)
    m = re.search(r"switch\s*\(\s*flag\s*\)\s*\{", body)
    if not m:
        raise ParseError(f"{ctor}: no switch (flag)")
    sw = body[m.end():]
    default_emp = None
    mm = re.search(r"thisone->empirical\s*=\s*(\d+)\s*;", body[:m.start()])
    if mm:
        default_emp = int(mm.group(1))
    out = []
    parts = re.split(r"\bcase\s+(\w+)\s*:", sw)
    # parts = [pre, FLAG1, body1, FLAG2, body2, ...]
    pending = []
    for k in range(1, len(parts), 2):
        flag, seg = parts[k], parts[k + 1]
        seg = re.split(r"\bdefault\s*:", seg)[0]
        pending.append(flag)
        fm = re.search(r"thisone->compute_stat\s*=\s*&\s*(\w+)\s*;", seg)
        if fm is None:
            if "break" in seg:
                raise ParseError(f"{ctor}: case {flag} sets no compute_stat")
            continue                      # fall-through label
        em = re.search(r"thisone->empirical\s*=\s*(\d+)\s*;", seg)
        emp = int(em.group(1)) if em else default_emp
        for f in pending:
            out.append((f, fm.group(1), emp))
        pending = []
    if pending:
        raise ParseError(f"{ctor}: case labels {pending} without statement")
    if not out:
        raise ParseError(f"{ctor}: empty dispatch")
    return out


def parse_pyx_stats(src):
    """[(id, FLAG)] of the module-level `stats = {'id': FLAG, ...}`"""
    m = re.search(r"^stats\s*=\s*\{(.*?)\}", src, re.S | re.M)
    if not m:
        raise ParseError("stats = {...} not found")
    out = re.findall(r"'(\w+)'\s*:\s*(\w+)", m.group(1))
    if not out:
        raise ParseError("stats = {...} is empty")
    return out


def parse_all(repo):
    h1 = _read(repo, "lib/fff/fff_onesample_stat.h")
    h2 = _read(repo, "lib/fff/fff_twosample_stat.h")
    c1 = _read(repo, "lib/fff/fff_onesample_stat.c")
    c2 = _read(repo, "lib/fff/fff_twosample_stat.c")
    p1 = _read(repo, "nipy/labs/group/onesample.pyx")
    p2 = _read(repo, "nipy/labs/group/twosample.pyx")
    return {
        "osFlags": parse_enum(h1, "fff_onesample_stat_flag"),
        "tsFlags": parse_enum(h2, "fff_twosample_stat_flag"),
        "osDispatch": parse_dispatch(c1, "fff_onesample_stat_new"),
        "osMfxDispatch": parse_dispatch(c1, "fff_onesample_stat_mfx_new"),
        "tsDispatch": parse_dispatch(c2, "fff_twosample_stat_new"),
        "tsMfxDispatch": parse_dispatch(c2, "fff_twosample_stat_mfx_new"),
        "pyOsStats": parse_pyx_stats(p1),
        "pyTsStats": parse_pyx_stats(p2),
    }


def _s(x):
    return '"' + x + '"'


def lean_text(t):
    L = ["/- GENERATED by harness/props/c17_tables.py from lib/fff/fff_{one,two}sample_stat.{h,c} and",
         "   nipy/labs/group/{one,two}sample.pyx.  Do not edit. -/",
         "namespace NipyVerif.Gen.C17", ""]

    def pairs(name, doc, rows, fmt):
        L.append(f"/-- {doc} -/")
        L.append(f"def {name} : List ({fmt[0]}) := [")
        L.append(",\n".join("  " + fmt[1](r) for r in rows))
        L.append("]")
        L.append("")
    pairs("osFlags", "`fff_onesample_stat_flag` (name, value)", t["osFlags"], ("String × Nat", lambda r: f"({_s(r[0])}, {r[1]})"))
    pairs("tsFlags", "`fff_twosample_stat_flag` (name, value)", t["tsFlags"], ("String × Nat", lambda r: f"({_s(r[0])}, {r[1]})"))
    pairs("osDispatch", "`fff_onesample_stat_new`: flag name -> statistic function", t["osDispatch"],
          ("String × String", lambda r: f"({_s(r[0])}, {_s(r[1])})"))
    pairs("osMfxDispatch", "`fff_onesample_stat_mfx_new`: flag name -> (statistic function, `empirical` field)", t["osMfxDispatch"],
          ("String × String × Bool", lambda r: f"({_s(r[0])}, {_s(r[1])}, {'true' if r[2] else 'false'})"))
    pairs("tsDispatch", "`fff_twosample_stat_new`: flag name -> statistic function", t["tsDispatch"],
          ("String × String", lambda r: f"({_s(r[0])}, {_s(r[1])})"))
    pairs("tsMfxDispatch", "`fff_twosample_stat_mfx_new`: flag name -> statistic function", t["tsMfxDispatch"],
          ("String × String", lambda r: f"({_s(r[0])}, {_s(r[1])})"))
    pairs("pyOsStats", "`onesample.pyx`: `stats` dictionary, id -> flag name", t["pyOsStats"],
          ("String × String", lambda r: f"({_s(r[0])}, {_s(r[1])})"))
    pairs("pyTsStats", "`twosample.pyx`: `stats` dictionary, id -> flag name", t["pyTsStats"],
          ("String × String", lambda r: f"({_s(r[0])}, {_s(r[1])})"))
    L.append("end NipyVerif.Gen.C17")
    return "\n".join(L) + "\n"


def flag_values(t):
    """({id: value} one-sample, {id: value} two-sample) through the pyx dictionaries and the C enums"""
    osv, tsv = dict(t["osFlags"]), dict(t["tsFlags"])
    one = {i: osv[f] for i, f in t["pyOsStats"] if f in osv}
    two = {i: tsv[f] for i, f in t["pyTsStats"] if f in tsv}
    return one, two
