"""C02 translator: regenerates lean/NipyVerif/Gen/C02Source.lean from the *text* of
nipy/core/image/image.py, image_list.py, image_spaces.py and nipy/core/reference/array_coords.py.

What the property hinges on is regenerated as Lean *terms* wherever the source is an expression or a short list
program, so that `Props/C02Source.lean` proves - for all arguments - that the regenerated term is what the model
implements:

* `Image.reordered_axes` / `reordered_reference`: the default order, the argument of `np.transpose` and the
  argument of `reordered_domain` (two functions of `order`: the theorem `reordered_axes_synchronised` needs them
  to be the same permutation), the "do not transpose" test;
* `rollimg`, `rollaxis` (both directions): the order computation (`list(range(ndim))`, `remove`, `insert`,
  the `start -= 1` correction) as a `let` chain over `List Nat`;
* `Image.__getitem__`: the index applied to the data and the index applied to the `ArrayCoordMap` (two functions
  of `slice_object`), the arguments of `ArrayCoordMap(...)`;
* `ArrayCoordMap.__getitem__`: the Ellipsis expansion; `_slice`: the padding with full slices, the per-axis
  `(step, start, l, kept)` of the three branches, the 2x2 matrix `[[step, start], [0, 1]]`, the `-slice` test,
  the column copy into `A` and the final `compose`;
* `ImageList.get_list_data`: the refusal test, the negative-axis correction, the `np.rollaxis` arguments and the
  expected shape.

Plumbing whose whole text matters (`iter_axis`, `synchronized_order`, `ImageList.from_image`, `as_xyz_image`,
the name-resolution block of `rollaxis`) is regenerated statement by statement as strings and compared with the
text the model was written from.

Anything the translator does not recognise raises TieBroken (a broken obligation), as does a proof in
Props/C02Source.lean that no longer goes through for the regenerated term.
"""
from __future__ import annotations

import ast
import os


def _lean_str(s: str) -> str:
    return '"' + s.replace("\\", "\\\\").replace('"', '\\"').replace("\n", "\\n") + '"'


def _strlist(name, items, doc=None):
    head = (f"/-- {doc} -/\n" if doc else "") + f"def {name} : List String :=\n  ["
    return head + ",\n   ".join(_lean_str(x) for x in items) + "]"


NDIM = {"img.ndim", "self.ndim", "img.axes.ndim"}


class _Tr:
    """Python AST -> Lean terms: `Int` for axis numbers / positions, `List Nat` for axis orders,
    `List Slicer` for index tuples"""

    def __init__(self, TieBroken, where, ints=(), lists=(), nat_names=None):
        self.TieBroken, self.where = TieBroken, where
        self.ints, self.lists = set(ints), set(lists)
        self.nat_names = dict(nat_names or {})     # python text -> Lean Nat variable

    def fail(self, node, why="unsupported"):
        raise self.TieBroken(f"{self.where}: {why}: {ast.unparse(node)}")

    # -- Int ------------------------------------------------------------------------------
    def int_(self, n):
        src = ast.unparse(n)
        if src in NDIM:
            return "(ndim : Int)"
        if src in self.nat_names:
            return f"({self.nat_names[src]} : Int)"
        if isinstance(n, ast.Name) and n.id in self.ints:
            return n.id
        if isinstance(n, ast.Constant) and isinstance(n.value, (int, float)) and not isinstance(n.value, bool):
            if float(n.value) != int(n.value):
                self.fail(n, "non-integer constant")
            return f"({int(n.value)} : Int)"
        if isinstance(n, ast.UnaryOp) and isinstance(n.op, ast.USub):
            return f"(-{self.int_(n.operand)})"
        if isinstance(n, ast.BinOp) and isinstance(n.op, (ast.Add, ast.Sub)):
            return f"({self.int_(n.left)} {'+' if isinstance(n.op, ast.Add) else '-'} {self.int_(n.right)})"
        if isinstance(n, ast.IfExp):
            return f"(if {self.bool_(n.test)} then {self.int_(n.body)} else {self.int_(n.orelse)})"
        if (isinstance(n, ast.Call) and ast.unparse(n.func) == "len" and len(n.args) == 1
                and isinstance(n.args[0], ast.Name) and n.args[0].id in self.lists):
            return f"(({n.args[0].id}).length : Int)"
        self.fail(n, "integer expression")

    # -- Bool -----------------------------------------------------------------------------
    OPS = {ast.Lt: "<", ast.Gt: ">", ast.LtE: "≤", ast.GtE: "≥", ast.Eq: "=", ast.NotEq: "≠"}

    def bool_(self, n):
        if isinstance(n, ast.BoolOp):
            op = " && " if isinstance(n.op, ast.And) else " || "
            return "(" + op.join(self.bool_(v) for v in n.values) + ")"
        if isinstance(n, ast.Compare) and len(n.ops) == 1 and type(n.ops[0]) in self.OPS:
            a, b, op = n.left, n.comparators[0], self.OPS[type(n.ops[0])]
            if isinstance(a, ast.Name) and a.id in self.lists:
                return f"decide ({a.id} {op} {self.list_(b)})"
            return f"decide ({self.int_(a)} {op} {self.int_(b)})"
        self.fail(n, "test")

    # -- List Nat -------------------------------------------------------------------------
    def list_(self, n):
        if isinstance(n, ast.Name) and n.id in self.lists:
            return n.id
        if (isinstance(n, ast.Call) and ast.unparse(n.func) == "list" and len(n.args) == 1
                and isinstance(n.args[0], ast.Call) and ast.unparse(n.args[0].func) == "range"):
            a = n.args[0].args
            if len(a) == 1 and ast.unparse(a[0]) in NDIM:
                return "(List.range ndim)"
            if (len(a) == 2 and ast.unparse(a[1]) in NDIM and isinstance(a[0], ast.Constant)
                    and isinstance(a[0].value, int) and a[0].value >= 0):
                return f"((List.range ndim).drop {a[0].value})"
            self.fail(n, "range")
        if isinstance(n, ast.Subscript) and ast.unparse(n.slice) == "::-1":
            return f"({self.list_(n.value)}).reverse"
        self.fail(n, "list expression")

    # -- list programs: order = ...; order.remove(x); order.insert(p, x); if c: v -= 1 ----
    def program(self, stmts, result):
        """`let` chain for the statements; the value is the list variable `result` at the `return`;
        returns (lean term, text of the return statement)"""
        lets, ret = [], None
        for s in stmts:
            if isinstance(s, ast.Return):
                ret = ast.unparse(s)
                break
            if (isinstance(s, ast.Assign) and len(s.targets) == 1 and isinstance(s.targets[0], ast.Name)):
                v = s.targets[0].id
                if v in self.lists or (v == result and v not in self.ints):
                    self.lists.add(v)
                    lets.append(f"let {v} : List Nat := {self.list_(s.value)}")
                elif v in self.ints:
                    lets.append(f"let {v} : Int := {self.int_(s.value)}")
                else:
                    self.fail(s, "assignment")
            elif (isinstance(s, ast.Expr) and isinstance(s.value, ast.Call)
                  and isinstance(s.value.func, ast.Attribute) and isinstance(s.value.func.value, ast.Name)
                  and s.value.func.value.id in self.lists and not s.value.keywords):
                v, m, a = s.value.func.value.id, s.value.func.attr, s.value.args
                if m == "remove" and len(a) == 1:
                    lets.append(f"let {v} : List Nat := {v}.erase (Int.toNat {self.int_(a[0])})")
                elif m == "insert" and len(a) == 2:
                    lets.append(f"let {v} : List Nat := pyInsert {v} {self.int_(a[0])} "
                                f"(Int.toNat {self.int_(a[1])})")
                else:
                    self.fail(s, "list method")
            elif (isinstance(s, ast.If) and not s.orelse and len(s.body) == 1
                  and isinstance(s.body[0], ast.AugAssign) and isinstance(s.body[0].target, ast.Name)
                  and s.body[0].target.id in self.ints and isinstance(s.body[0].op, (ast.Add, ast.Sub))):
                v = s.body[0].target.id
                op = "+" if isinstance(s.body[0].op, ast.Add) else "-"
                lets.append(f"let {v} : Int := if {self.bool_(s.test)} then {v} {op} "
                            f"{self.int_(s.body[0].value)} else {v}")
            else:
                self.fail(s, "statement")
        if ret is None:
            raise self.TieBroken(f"{self.where}: no return")
        return "\n  ".join(lets + [result]), ret


def _func(tree, name, TieBroken, cls=None):
    scope = tree
    if cls is not None:
        scope = next((n for n in tree.body if isinstance(n, ast.ClassDef) and n.name == cls), None)
        if scope is None:
            raise TieBroken(f"class {cls} not found")
    for n in scope.body:
        if isinstance(n, ast.FunctionDef) and n.name == name:
            return n
    raise TieBroken(f"function {(cls + '.') if cls else ''}{name} not found")


def _body(fn):
    b = fn.body
    if b and isinstance(b[0], ast.Expr) and isinstance(b[0].value, ast.Constant) and isinstance(b[0].value.value, str):
        b = b[1:]
    return b


def _text(fn):
    return [ast.unparse(s) for s in _body(fn)]


def _one(xs, what, TieBroken):
    if len(xs) != 1:
        raise TieBroken(f"{what}: expected exactly one occurrence, found {len(xs)}")
    return xs[0]


def _calls(node, fname):
    return [n for n in ast.walk(node) if isinstance(n, ast.Call) and ast.unparse(n.func) == fname]


MUTATORS = {"append", "extend", "insert", "remove", "pop", "clear", "sort", "reverse", "update", "setdefault",
            "popitem", "fill", "resize", "put", "itemset", "setflags", "setfield", "byteswap", "partition",
            "__setitem__", "__delitem__", "__iadd__", "__imul__", "__setattr__"}


# free functions whose result may share memory with their first argument / methods whose result never does
VIEW_FUNCS = {"np.asarray", "np.asanyarray", "np.transpose", "np.rollaxis", "np.swapaxes", "np.moveaxis",
              "np.reshape", "np.ravel", "np.squeeze", "np.atleast_1d", "np.atleast_2d", "np.broadcast_to",
              "np.ascontiguousarray", "np.asfortranarray", "np.expand_dims", "iter", "reversed"}
FRESH_METHODS = {"copy", "astype", "tolist", "index", "count", "keys", "values", "items", "get", "min", "max",
                 "sum", "all", "any"}


def _root(n):
    """name an expression may share memory with: through attributes, subscripts, method calls
    (`a.b[c].d()` -> `a`, except methods that return a fresh object) and NumPy's view-making functions"""
    while True:
        if isinstance(n, ast.Name):
            return n.id
        if isinstance(n, (ast.Attribute, ast.Subscript, ast.Starred)):
            n = n.value
        elif isinstance(n, ast.Call) and isinstance(n.func, ast.Attribute) and ast.unparse(n.func) in VIEW_FUNCS \
                and n.args:
            n = n.args[0]
        elif isinstance(n, ast.Call) and isinstance(n.func, ast.Name) and n.func.id in VIEW_FUNCS and n.args:
            n = n.args[0]
        elif isinstance(n, ast.Call) and isinstance(n.func, ast.Attribute):
            if n.func.attr in FRESH_METHODS:
                return None
            n = n.func.value
        else:
            return None


def _param_writes(fn, qual):
    """statements of `fn` that write *through* a parameter (or through a name bound to something reached from a
    parameter by attributes / subscripts / method calls): element or attribute assignment, augmented assignment,
    `del`, a mutating method.  Rebinding a name is not a write; a name stops being an alias only through an unconditional
    rebinding at the top level of the body to something that does not hang on a parameter (the scan does not
    follow control flow otherwise)."""
    a = fn.args
    alias = {x.arg for x in a.posonlyargs + a.args + a.kwonlyargs}
    for x in (a.vararg, a.kwarg):
        if x is not None:
            alias.add(x.arg)
    out = []

    def targets(t):
        if isinstance(t, (ast.Tuple, ast.List)):
            for e in t.elts:
                yield from targets(e)
        else:
            yield t

    def visit(stmts, top=False):
        for s in stmts:
            if isinstance(s, (ast.FunctionDef, ast.ClassDef)):
                continue
            if isinstance(s, (ast.Assign, ast.AnnAssign, ast.AugAssign)):
                tg = s.targets if isinstance(s, ast.Assign) else [s.target]
                for t0 in tg:
                    for t in targets(t0):
                        if isinstance(t, (ast.Subscript, ast.Attribute)) and _root(t) in alias:
                            out.append((qual, ast.unparse(s)))
                        elif isinstance(t, ast.Name):
                            if isinstance(s, ast.AugAssign):
                                if t.id in alias:     # `x += ...` may work in place on a list / an array
                                    out.append((qual, ast.unparse(s)))
                            elif s.value is not None and _root(s.value) in alias:
                                alias.add(t.id)
                            elif top and isinstance(s, ast.Assign) and len(tg) == 1 and t0 is t:
                                # an unconditional rebinding at the top level of the body (the defensive
                                # `x = dict(x)` / `x = list(x)` idiom) dominates everything after it;
                                # nested rebindings never remove an alias (the scan does not follow control flow)
                                alias.discard(t.id)
            elif isinstance(s, ast.Delete):
                for t in s.targets:
                    if isinstance(t, (ast.Subscript, ast.Attribute)) and _root(t) in alias:
                        out.append((qual, ast.unparse(s)))
            for n in ast.walk(s) if not isinstance(s, (ast.If, ast.For, ast.While, ast.Try, ast.With)) else \
                    ast.walk(ast.Module(body=[getattr(s, "test", None) and ast.Expr(s.test) or ast.Pass()]
                                        + ([ast.Expr(s.iter)] if isinstance(s, ast.For) else []), type_ignores=[])):
                if (isinstance(n, ast.Call) and isinstance(n.func, ast.Attribute) and n.func.attr in MUTATORS
                        and _root(n.func.value) in alias):
                    out.append((qual, ast.unparse(n)))
            if isinstance(s, ast.For):
                for t in targets(s.target):
                    if isinstance(t, ast.Name) and _root(s.iter) in alias:
                        alias.add(t.id)
            for part in ("body", "orelse", "finalbody"):
                if isinstance(s, (ast.If, ast.For, ast.While, ast.Try, ast.With)):
                    visit(getattr(s, part, []) or [])
            if isinstance(s, ast.Try):
                for h in s.handlers:
                    visit(h.body)
    visit(_body(fn), top=True)
    return out


def _reordered(fn, which, coordmap_method, TieBroken):
    """`Image.reordered_axes` / `reordered_reference`: default order, name lookup, coordmap argument"""
    body = _body(fn)
    first = body[0] if body else None
    if not (isinstance(first, ast.If) and ast.unparse(first.test) == "order is None" and len(first.body) == 1
            and isinstance(first.body[0], ast.Assign) and ast.unparse(first.body[0].targets[0]) == "order"):
        raise TieBroken(f"{which}: default-order branch not recognised")
    tr = _Tr(TieBroken, which, lists=["order"])
    default = tr.list_(first.body[0].value)
    el = first.orelse
    if not (len(el) == 1 and isinstance(el[0], ast.If) and not el[0].orelse and len(el[0].body) == 1):
        raise TieBroken(f"{which}: name branch not recognised")
    names = (ast.unparse(el[0].test), ast.unparse(el[0].body[0]))
    call = _one(_calls(fn, f"self.coordmap.{coordmap_method}"), f"{which}: {coordmap_method} call", TieBroken)
    if len(call.args) != 1 or call.keywords:
        raise TieBroken(f"{which}: {coordmap_method} arguments")
    return default, names, tr.list_(call.args[0]), tr


def translate(repo, TieBroken):
    def parse(rel):
        try:
            return ast.parse(open(os.path.join(repo, rel)).read())
        except Exception as e:  # pragma: no cover
            raise TieBroken(f"{rel} does not parse: {e}")

    im = parse("nipy/core/image/image.py")
    il = parse("nipy/core/image/image_list.py")
    sp = parse("nipy/core/image/image_spaces.py")
    ac = parse("nipy/core/reference/array_coords.py")
    L = ["/- GENERATED by harness/props/c02_translate.py from the text of nipy/core/image/image.py,",
         "   image_list.py, image_spaces.py and nipy/core/reference/array_coords.py - do not edit.",
         "   Props/C02Source.lean proves that these are what the model implements. -/",
         "import NipyVerif.Model.C02C",
         "namespace NipyVerif.C02.Gen",
         "open NipyVerif.C02", ""]

    # ---------------------------------------------------------------- Image.reordered_axes
    fn = _func(im, "reordered_axes", TieBroken, "Image")
    default, names, dom_arg, tr = _reordered(fn, "reordered_axes", "reordered_domain", TieBroken)
    tcall = _one(_calls(fn, "np.transpose"), "reordered_axes: np.transpose call", TieBroken)
    if len(tcall.args) != 2 or tcall.keywords:
        raise TieBroken("reordered_axes: np.transpose arguments")
    tr_data, tr_arg = ast.unparse(tcall.args[0]), tr.list_(tcall.args[1])
    # the transposition sits under `if <test>: new_data = np.transpose(...) else: new_data = self._data`
    guard = [n for n in _body(fn) if isinstance(n, ast.If) and _calls(n, "np.transpose")]
    g = _one(guard, "reordered_axes: guard of the transposition", TieBroken)
    if not (len(g.body) == 1 and len(g.orelse) == 1 and ast.unparse(g.body[0]).startswith("new_data = ")
            and ast.unparse(g.orelse[0]).startswith("new_data = ")):
        raise TieBroken("reordered_axes: guard of the transposition has an unexpected shape")
    skip_test = tr.bool_(g.test)
    ret = _one([n for n in _body(fn) if isinstance(n, ast.Return)], "reordered_axes: return", TieBroken)
    L += ["/-! ## `Image.reordered_axes` -/",
          f"def reorderedAxesDefault (ndim : Nat) : List Nat := {default}",
          "/-- second argument of `np.transpose(self.get_fdata(), …)` -/",
          f"def reorderedAxesTransposeArg (order : List Nat) : List Nat := {tr_arg}",
          "/-- argument of `self.coordmap.reordered_domain(…)` -/",
          f"def reorderedAxesDomainArg (order : List Nat) : List Nat := {dom_arg}",
          "/-- the data are transposed only when this holds (otherwise `self._data` is passed on) -/",
          f"def reorderedAxesTransposes (ndim : Nat) (order : List Nat) : Bool := {skip_test}",
          _strlist("reorderedAxesText", [tr_data, ast.unparse(g.orelse[0]), names[0], names[1], ast.unparse(ret)],
                   "what is transposed, the untransposed branch, the name branch, the returned object"), ""]

    fn = _func(im, "reordered_reference", TieBroken, "Image")
    default, names, rng_arg, _ = _reordered(fn, "reordered_reference", "reordered_range", TieBroken)
    ret = _one([n for n in _body(fn) if isinstance(n, ast.Return)], "reordered_reference: return", TieBroken)
    L += ["/-! ## `Image.reordered_reference` -/",
          f"def reorderedReferenceDefault (ndim : Nat) : List Nat := {default}",
          f"def reorderedReferenceRangeArg (order : List Nat) : List Nat := {rng_arg}",
          _strlist("reorderedReferenceText", [names[0], names[1], ast.unparse(ret)]), ""]

    # ---------------------------------------------------------------- rollimg
    fn = _func(im, "rollimg", TieBroken)
    body = _body(fn)
    res = [ast.unparse(s) for s in body[:2]]
    tr = _Tr(TieBroken, "rollimg", ints=["axis", "start"])
    term, ret = tr.program(body[2:], "order")
    L += ["/-! ## `rollimg` -/",
          _strlist("rollimgResolve", res, "how `axis` and `start` become input axis numbers"),
          f"def rollimgOrder (ndim : Nat) (axis start : Int) : List Nat :=\n  {term}",
          f"def rollimgReturn : String := {_lean_str(ret)}", ""]

    # ---------------------------------------------------------------- rollaxis
    fn = _func(im, "rollaxis", TieBroken)
    body = _body(fn)
    neg = [s for s in body if isinstance(s, ast.If) and ast.unparse(s.test) == "isinstance(axis, int) and axis < 0"]
    neg = _one(neg, "rollaxis: negative-axis correction", TieBroken)
    if not (len(neg.body) == 1 and isinstance(neg.body[0], ast.Assign)
            and ast.unparse(neg.body[0].targets[0]) == "axis" and not neg.orelse):
        raise TieBroken("rollaxis: negative-axis correction has an unexpected shape")
    tr = _Tr(TieBroken, "rollaxis", ints=["axis"])
    neg_term = f"if {tr.bool_(neg.test.values[1])} then {tr.int_(neg.body[0].value)} else axis"
    inv = _one([s for s in body if isinstance(s, ast.If) and ast.unparse(s.test) == "inverse"],
               "rollaxis: inverse branch", TieBroken)
    inv_guards = [ast.unparse(s) for s in inv.body if isinstance(s, ast.If)]
    inv_term, inv_ret = _Tr(TieBroken, "rollaxis(inverse)", ints=["axis"]).program(
        [s for s in inv.body if not isinstance(s, ast.If)], "order")
    k0 = [i for i, s in enumerate(body) if isinstance(s, ast.If) and ast.unparse(s.test) == "axis == -1"]
    k0 = _one(k0, "rollaxis: `if axis == -1`", TieBroken)
    fwd_term, fwd_ret = _Tr(TieBroken, "rollaxis(forward)", ints=["axis"]).program(body[k0:], "order")
    i_inv = body.index(inv)
    if not (body.index(neg) < i_inv < k0):
        raise TieBroken("rollaxis: statement order changed")
    L += ["/-! ## `rollaxis` -/",
          f"def rollaxisNegAxis (ndim : Nat) (axis : Int) : Int := {neg_term}",
          f"def rollaxisInverseOrder (ndim : Nat) (axis : Int) : List Nat :=\n  {inv_term}",
          f"def rollaxisOrder (ndim : Nat) (axis : Int) : List Nat :=\n  {fwd_term}",
          _strlist("rollaxisReturns", [inv_ret, fwd_ret]),
          _strlist("rollaxisInverseGuards", inv_guards),
          _strlist("rollaxisResolve", [ast.unparse(s) for s in body[i_inv + 1:k0]],
                   "membership test and name resolution between the inverse branch and the order computation"),
          ""]

    # ---------------------------------------------------------------- Image.__getitem__
    fn = _func(im, "__getitem__", TieBroken, "Image")
    body = _body(fn)
    d = [s for s in body if isinstance(s, ast.Assign) and ast.unparse(s.targets[0]) == "data"]
    d = _one(d, "Image.__getitem__: data", TieBroken).value
    gg = [s for s in body if isinstance(s, ast.Assign) and ast.unparse(s.targets[0]) == "g"]
    gg = _one(gg, "Image.__getitem__: g", TieBroken).value
    if not (isinstance(d, ast.Subscript) and isinstance(gg, ast.Subscript) and isinstance(gg.value, ast.Call)
            and ast.unparse(gg.value.func) == "ArrayCoordMap" and len(gg.value.args) == 2
            and not gg.value.keywords):
        raise TieBroken("Image.__getitem__: unexpected shape of data / g")

    def idx_term(n):
        if isinstance(n, ast.Name) and n.id == "slice_object":
            return "slice_object"
        raise TieBroken("Image.__getitem__: index is not `slice_object`: " + ast.unparse(n))
    L += ["/-! ## `Image.__getitem__` -/",
          "/-- index applied to the data array -/",
          f"def getitemDataIndex (slice_object : List Idx) : List Idx := {idx_term(d.slice)}",
          "/-- index applied to the `ArrayCoordMap` -/",
          f"def getitemCoordIndex (slice_object : List Idx) : List Idx := {idx_term(gg.slice)}",
          _strlist("getitemText", [ast.unparse(d.value)] + [ast.unparse(a) for a in gg.value.args]
                   + [ast.unparse(s) for s in body if s not in ()
                      and not (isinstance(s, ast.Assign) and ast.unparse(s.targets[0]) in ("data", "g"))],
                   "the indexed array, the arguments of ArrayCoordMap(…), the remaining statements"), ""]

    # ---------------------------------------------------------------- ArrayCoordMap.__getitem__: Ellipsis
    fn = _func(ac, "__getitem__", TieBroken, "ArrayCoordMap")
    ell = _one([s for s in _body(fn) if isinstance(s, ast.If) and ast.unparse(s.test) == "have_ellipsis"],
               "ArrayCoordMap.__getitem__: `if have_ellipsis`", TieBroken)
    want = {"ellipsis_start": "list(slicers).index(Ellipsis)",
            "inds_after_ellipsis": "slicers[ellipsis_start + 1:]",
            "n_ellipses": "len(self.shape) - ellipsis_start - len(inds_after_ellipsis)",
            "slicers": "slicers[:ellipsis_start] + n_ellipses * (slice(None),) + inds_after_ellipsis"}
    got = {ast.unparse(s.targets[0]): s.value for s in ell.body if isinstance(s, ast.Assign)}
    if list(got) != list(want) or len(ell.body) != 4:
        raise TieBroken("ArrayCoordMap.__getitem__: Ellipsis expansion has unexpected statements")
    # the four statements are translated structurally (slices of `slicers`, integer arithmetic, replication)
    tr = _Tr(TieBroken, "ArrayCoordMap.__getitem__", ints=["ellipsis_start"], lists=["inds_after_ellipsis"],
             nat_names={"len(self.shape)": "nshape"})
    if ast.unparse(got["ellipsis_start"]) != want["ellipsis_start"]:
        raise TieBroken("ArrayCoordMap.__getitem__: ellipsis_start = " + ast.unparse(got["ellipsis_start"]))
    v = got["inds_after_ellipsis"]
    if not (isinstance(v, ast.Subscript) and ast.unparse(v.value) == "slicers" and isinstance(v.slice, ast.Slice)
            and v.slice.upper is None and v.slice.step is None and v.slice.lower is not None):
        raise TieBroken("ArrayCoordMap.__getitem__: inds_after_ellipsis = " + ast.unparse(v))
    after = f"slicers.drop (Int.toNat {tr.int_(v.slice.lower)})"
    n_ell = tr.int_(got["n_ellipses"])
    tr.ints.add("n_ellipses")
    v = got["slicers"]
    parts = []
    while isinstance(v, ast.BinOp) and isinstance(v.op, ast.Add):
        parts.insert(0, v.right)
        v = v.left
    parts.insert(0, v)
    terms = []
    for p in parts:
        s = ast.unparse(p)
        if isinstance(p, ast.Name) and p.id == "inds_after_ellipsis":
            terms.append("inds_after_ellipsis")
        elif (isinstance(p, ast.Subscript) and ast.unparse(p.value) == "slicers" and isinstance(p.slice, ast.Slice)
              and p.slice.lower is None and p.slice.step is None and p.slice.upper is not None):
            terms.append(f"slicers.take (Int.toNat {tr.int_(p.slice.upper)})")
        elif (isinstance(p, ast.BinOp) and isinstance(p.op, ast.Mult)
              and ast.unparse(p.right) in ("(slice(None),)", "(slice(None, None, None),)")):
            terms.append(f"List.replicate (Int.toNat {tr.int_(p.left)}) fullSlice")
        else:
            raise TieBroken("ArrayCoordMap.__getitem__: unexpected summand " + s)
    ret = _one([s for s in _body(fn) if isinstance(s, ast.Return)], "ArrayCoordMap.__getitem__: return", TieBroken)
    L += ["/-! ## `ArrayCoordMap.__getitem__`: Ellipsis expansion -/",
          "def acmEllipsisExpand (nshape : Nat) (slicers : List Slicer) : List Slicer :=",
          "  let ellipsis_start : Int := (slicers.idxOf Slicer.ell : Nat)",
          f"  let inds_after_ellipsis : List Slicer := {after}",
          f"  let n_ellipses : Int := {n_ell}",
          "  " + " ++ ".join(terms),
          f"def acmGetitemReturn : String := {_lean_str(ast.unparse(ret))}", ""]

    # ---------------------------------------------------------------- _slice
    fn = _func(ac, "_slice", TieBroken)
    body = _body(fn)
    pad = body[0]
    if not (isinstance(pad, ast.If) and ast.unparse(pad.test) == "len(slices) < coordmap.ndims[0]"
            and len(pad.body) == 1 and not pad.orelse and ast.unparse(pad.body[0]) ==
            "slices = list(slices) + [slice(None, None, None)] * (coordmap.ndims[0] - len(slices))"):
        raise TieBroken("_slice: padding with full slices not recognised: " + ast.unparse(pad)[:120])
    loop = _one([s for s in body if isinstance(s, ast.For) and ast.unparse(s.iter) == "enumerate(slices)"],
                "_slice: loop over the slices", TieBroken)
    if ast.unparse(loop.target) != "(i, __slice)":
        raise TieBroken("_slice: loop header " + ast.unparse(loop.target) + " in " + ast.unparse(loop.iter))
    if ast.unparse(loop.body[0]) != "ranges[i] = ranges[i][__slice]":
        raise TieBroken("_slice: first statement of the loop: " + ast.unparse(loop.body[0]))
    rng_init = _one([s for s in body if isinstance(s, ast.Assign) and ast.unparse(s.targets[0]) == "ranges"],
                    "_slice: ranges", TieBroken)
    br = [s for s in loop.body if isinstance(s, ast.If) and ast.unparse(s.test) == "ranges[i].shape == ()"]
    br = _one(br, "_slice: branch on the shape of ranges[i]", TieBroken)
    if not (len(br.orelse) == 1 and isinstance(br.orelse[0], ast.If)
            and ast.unparse(br.orelse[0].test) == "ranges[i].shape[0] > 1" and br.orelse[0].orelse):
        raise TieBroken("_slice: elif / else of the branch on ranges[i].shape")

    def picked(n, scalar):
        """expressions over `ranges[i]`: a Python int (`scalar`) or a 1-D array `v`"""
        s = ast.unparse(n)
        if isinstance(n, ast.Constant) and isinstance(n.value, (int, float)) and float(n.value) == int(n.value):
            return f"({int(n.value)} : Int)"
        if scalar and s == "int(ranges[i])":
            return "v"
        if not scalar and s == "ranges[i].shape[0]":
            return "(v.length : Int)"
        if (not scalar and isinstance(n, ast.Subscript) and ast.unparse(n.value) == "ranges[i]"
                and isinstance(n.slice, ast.Constant) and isinstance(n.slice.value, int) and n.slice.value >= 0):
            return f"(v.getD {n.slice.value} 0)"
        if isinstance(n, ast.BinOp) and isinstance(n.op, ast.Sub):
            return f"({picked(n.left, scalar)} - {picked(n.right, scalar)})"
        raise TieBroken("_slice: unexpected expression " + s)

    def branch(stmts, scalar):
        vals, keep = {}, False
        for s in stmts:
            if isinstance(s, ast.Assign) and ast.unparse(s.targets[0]) in ("step", "start", "l"):
                vals[ast.unparse(s.targets[0])] = picked(s.value, scalar)
            elif ast.unparse(s) == "keep_in_output.append(i)":
                keep = True
            else:
                raise TieBroken("_slice: unexpected statement in a branch: " + ast.unparse(s))
        if set(vals) != {"step", "start", "l"}:
            raise TieBroken("_slice: a branch does not set step, start and l")
        return f"({vals['step']}, {vals['start']}, Int.toNat {vals['l']}, {'true' if keep else 'false'})"
    b_scalar = branch(br.body, True)
    b_many = branch(br.orelse[0].body, False)
    b_one = branch(br.orelse[0].orelse, False)
    nm = _one([s for s in loop.body if isinstance(s, ast.If) and any(
        isinstance(x, ast.Assign) and ast.unparse(x.targets[0]) == "name" for x in s.body)],
        "_slice: name of the sliced axis", TieBroken)
    name_test = _Tr(TieBroken, "_slice", ints=["step"]).bool_(nm.test)
    nm_then, nm_else = ast.unparse(nm.body[0].value), ast.unparse(nm.orelse[0].value) if nm.orelse else "<absent>"
    sfx = nm.body[0].value
    if not (isinstance(sfx, ast.BinOp) and isinstance(sfx.op, ast.Add) and isinstance(sfx.right, ast.Constant)
            and isinstance(sfx.right.value, str) and ast.unparse(sfx.left) == nm_else):
        raise TieBroken("_slice: name of a sliced axis: " + nm_then)
    at = _one(_calls(loop, "AffineTransform"), "_slice: per-axis AffineTransform", TieBroken)
    mat = at.args[2] if len(at.args) == 3 else None
    if not (mat is not None and isinstance(mat, ast.Call) and ast.unparse(mat.func) == "np.array"
            and isinstance(mat.args[0], ast.List) and all(isinstance(r, ast.List) for r in mat.args[0].elts)):
        raise TieBroken("_slice: per-axis affine is not np.array([[..], [..]])")

    def entry(n):
        if isinstance(n, ast.Name) and n.id in ("step", "start"):
            return n.id
        if isinstance(n, ast.Constant) and isinstance(n.value, int):
            return f"({n.value} : Rat)"
        raise TieBroken("_slice: per-axis affine entry " + ast.unparse(n))
    mat_term = "[" + ", ".join("[" + ", ".join(entry(e) for e in r.elts) + "]" for r in mat.args[0].elts) + "]"
    shape_app = [s for s in loop.body if isinstance(s, ast.If) and ast.unparse(s.test) == "i in keep_in_output"]
    shape_app = _one(shape_app, "_slice: newshape", TieBroken)
    tail = [ast.unparse(s) for s in body[body.index(loop) + 1:]]
    L += ["/-! ## `_slice` -/",
          "/-- padding with full slices (the `if len(slices) < coordmap.ndims[0]` statement, recognised verbatim) -/",
          "def slicePad (ndim : Nat) (slices : List Slicer) : List Slicer :=",
          "  if slices.length < ndim then slices ++ List.replicate (ndim - slices.length) fullSlice else slices",
          "/-- `ranges[i][__slice]`: a NumPy integer (integer index) or a 1-D array of indices -/",
          "inductive Picked", "  | scalar (v : Int)", "  | arr (v : List Int)",
          "/-- `(step, start, l, i ∈ keep_in_output)` of one axis: the three branches on `ranges[i].shape` -/",
          "def sliceAxis : Picked → Int × Int × Nat × Bool",
          f"  | .scalar v => {b_scalar}",
          f"  | .arr v => if decide ((v.length : Int) > 1) then {b_many}",
          f"      else {b_one}",
          "/-- the 2x2 affine of one axis -/",
          f"def sliceAxisMatrix (step start : Rat) : List (List Rat) := {mat_term}",
          "/-- the axis is renamed when this holds -/",
          f"def sliceRenames (step : Int) : Bool := {name_test}",
          f"def sliceSuffix : String := {_lean_str(sfx.right.value)}",
          _strlist("sliceText", [ast.unparse(rng_init)] + [ast.unparse(s) for s in loop.body if isinstance(s, ast.Try)]
                   + [ast.unparse(shape_app)] + tail,
                   "the index ranges, the empty-slice refusal, the new shape, and everything after the loop "
                   "(product, origin, column copy into A, compose)"), ""]

    # ---------------------------------------------------------------- Grid.__getitem__
    fn = _func(ac, "__getitem__", TieBroken, "Grid")
    body = _body(fn)
    loop = _one([x for x in body if isinstance(x, ast.For) and ast.unparse(x.iter) == "enumerate(results)"],
                "Grid.__getitem__: loop over the results", TieBroken)
    if ast.unparse(loop.target) != "(i, result)" or len(loop.body) != 3:
        raise TieBroken("Grid.__getitem__: loop shape")
    br, st, ap = loop.body

    def gexpr(n):
        src = ast.unparse(n)
        if isinstance(n, ast.Constant) and isinstance(n.value, (int, float)) and float(n.value) == int(n.value):
            return f"({int(n.value)} : Rat)"
        if (isinstance(n, ast.Subscript) and ast.unparse(n.value) == "result" and isinstance(n.slice, ast.Constant)
                and isinstance(n.slice.value, int) and n.slice.value >= 0):
            return f"(v.getD {n.slice.value} 0)"
        if isinstance(n, ast.BinOp) and isinstance(n.op, ast.Sub):
            return f"({gexpr(n.left)} - {gexpr(n.right)})"
        raise TieBroken("Grid.__getitem__: unexpected expression " + src)
    ok = (isinstance(br, ast.If) and ast.unparse(br.test) == "result.shape[0] > 1" and len(br.body) == 1
          and len(br.orelse) == 1 and all(isinstance(x, ast.Assign) and ast.unparse(x.targets[0]) == "step"
                                          for x in (br.body[0], br.orelse[0]))
          and isinstance(st, ast.Assign) and ast.unparse(st.targets[0]) == "start")
    if not ok:
        raise TieBroken("Grid.__getitem__: step / start statements")
    at = _one(_calls(ap, "AffineTransform"), "Grid.__getitem__: per-axis AffineTransform", TieBroken)
    gm = at.args[2] if len(at.args) == 3 else None
    if not (gm is not None and isinstance(gm, ast.Call) and ast.unparse(gm.func) == "np.array"
            and isinstance(gm.args[0], ast.List) and all(isinstance(r, ast.List) for r in gm.args[0].elts)):
        raise TieBroken("Grid.__getitem__: per-axis affine is not np.array([[..], [..]])")
    gm_term = "[" + ", ".join("[" + ", ".join(entry(e) for e in r.elts) + "]" for r in gm.args[0].elts) + "]"
    L += ["/-! ## `Grid.__getitem__` -/",
          "/-- `(step, start)` of one axis from the points `np.ogrid` gives for it -/",
          "def gridAxis (v : List Rat) : Rat × Rat :=",
          f"  (if decide ((v.length : Int) > 1) then {gexpr(br.body[0].value)} else {gexpr(br.orelse[0].value)}, "
          f"{gexpr(st.value)})",
          f"def gridAxisMatrix (step start : Rat) : List (List Rat) := {gm_term}",
          _strlist("gridText", [ast.unparse(x) for x in body if x is not loop] + [ast.unparse(a) for a in at.args[:2]]),
          ""]

    # ---------------------------------------------------------------- get_list_data
    fn = _func(il, "get_list_data", TieBroken, "ImageList")
    body = _body(fn)
    tr = _Tr(TieBroken, "get_list_data", ints=["axis", "out_dim"])
    od = _one([s for s in body if isinstance(s, ast.Assign) and ast.unparse(s.targets[0]) == "out_dim"],
              "get_list_data: out_dim", TieBroken)
    if ast.unparse(od.value) != "len(img_shape) + 1":
        raise TieBroken("get_list_data: out_dim = " + ast.unparse(od.value))
    ref = [s for s in body if isinstance(s, ast.If) and isinstance(s.test, ast.BoolOp) and "out_dim" in ast.unparse(s.test)]
    ref = _one(ref, "get_list_data: refusal test", TieBroken)
    if not (len(ref.body) == 1 and isinstance(ref.body[0], ast.Raise)):
        raise TieBroken("get_list_data: refusal test does not raise")
    neg = _one([s for s in body if isinstance(s, ast.If) and ast.unparse(s.test) == "axis < 0"],
               "get_list_data: negative axis", TieBroken)
    if not (len(neg.body) == 1 and isinstance(neg.body[0], ast.AugAssign) and isinstance(neg.body[0].op, ast.Add)
            and ast.unparse(neg.body[0].target) == "axis" and not neg.orelse):
        raise TieBroken("get_list_data: negative-axis correction")
    neg_term = f"if {tr.bool_(neg.test)} then axis + {tr.int_(neg.body[0].value)} else axis"
    roll = _one(_calls(fn, "np.rollaxis"), "get_list_data: np.rollaxis", TieBroken)
    if not (len(roll.args) == 3 and ast.unparse(roll.args[0]) == "v"):
        raise TieBroken("get_list_data: np.rollaxis arguments")
    ts = _one([s for s in body if isinstance(s, ast.Assign) and ast.unparse(s.targets[0]) == "target_shape"],
              "get_list_data: target_shape", TieBroken)
    if ast.unparse(ts.value) != "img_shape[0:axis] + (ilen,) + img_shape[axis:]":
        raise TieBroken("get_list_data: target_shape = " + ast.unparse(ts.value))
    if not (body.index(ref) < body.index(neg) < body.index(ts)):
        raise TieBroken("get_list_data: statement order changed")
    L += ["/-! ## `ImageList.get_list_data` -/",
          f"def listDataRefuses (out_dim axis : Int) : Bool := {tr.bool_(ref.test)}",
          f"def listDataAxis (out_dim axis : Int) : Int := {neg_term}",
          "/-- `np.rollaxis(v, from, to)` with the list axis first in `v` -/",
          f"def listDataRoll (axis : Int) : Int × Int := ({tr.int_(roll.args[1])}, {tr.int_(roll.args[2])})",
          "/-- `target_shape` (recognised verbatim: `img_shape[0:axis] + (ilen,) + img_shape[axis:]`) -/",
          "def listDataShape (img_shape : List Nat) (ilen : Nat) (axis : Int) : List Nat :=",
          "  img_shape.take (Int.toNat axis) ++ [ilen] ++ img_shape.drop (Int.toNat axis)",
          _strlist("listDataFill", [ast.unparse(s) for s in body if isinstance(s, ast.For)]
                   + [ast.unparse(s) for s in body if isinstance(s, ast.Assign)
                      and ast.unparse(s.targets[0]) in ("img_shape", "ilen", "tmp_shape", "v")]), ""]

    # ---------------------------------------------------------------- plumbing, statement by statement
    L += ["/-! ## plumbing whose whole text matters -/",
          _strlist("iterAxisText", _text(_func(im, "iter_axis", TieBroken))),
          _strlist("synchronizedOrderText", _text(_func(im, "synchronized_order", TieBroken))),
          _strlist("subsampleText", _text(_func(im, "subsample", TieBroken))),
          _strlist("fromImageText", _text(_func(il, "from_image", TieBroken, "ImageList"))),
          _strlist("listGetitemText", _text(_func(il, "__getitem__", TieBroken, "ImageList"))),
          _strlist("asXyzImageText", _text(_func(sp, "as_xyz_image", TieBroken))),
          _strlist("isXyzAffableText", _text(_func(sp, "is_xyz_affable", TieBroken))),
          ""]

    # ---------------------------------------------------------------- slices.py: xslice / yslice / zslice
    sl = parse("nipy/core/reference/slices.py")

    def rat(n, env, where):
        src = ast.unparse(n)
        if isinstance(n, ast.Name) and n.id in env:
            return env[n.id]
        if isinstance(n, ast.Constant) and isinstance(n.value, (int, float)) and not isinstance(n.value, bool) \
                and float(n.value) == int(n.value):
            return f"({int(n.value)} : Rat)"
        if isinstance(n, ast.BinOp) and type(n.op) in (ast.Add, ast.Sub, ast.Mult, ast.Div):
            op = {ast.Add: "+", ast.Sub: "-", ast.Mult: "*", ast.Div: "/"}[type(n.op)]
            return f"({rat(n.left, env, where)} {op} {rat(n.right, env, where)})"
        if isinstance(n, ast.UnaryOp) and isinstance(n.op, ast.USub):
            return f"(-{rat(n.operand, env, where)})"
        raise TieBroken(f"{where}: unexpected expression {src}")

    L += ["/-! ## slices.py: the plane slices (`a`, `b`: the two specs in the order of the signature) -/"]
    for fname in ("xslice", "yslice", "zslice"):
        fn = _func(sl, fname, TieBroken)
        params = [a.arg for a in fn.args.args]
        if len(params) != 4 or fn.args.defaults:
            raise TieBroken(f"{fname}: signature ({', '.join(params)})")
        env = {params[0]: "fixed"}
        ticks, origin, cols, dom, rng_expr, Tmat, ret = {}, None, None, None, None, None, None
        for st in _body(fn):
            src = ast.unparse(st)
            if isinstance(st, ast.Return):
                ret = src
                continue
            if not (isinstance(st, ast.Assign) and len(st.targets) == 1):
                raise TieBroken(f"{fname}: unexpected statement {src}")
            t, v = st.targets[0], st.value
            if isinstance(t, ast.Tuple) and isinstance(v, ast.Name) and v.id in params[1:3]:
                # ((lo, hi), no) = spec
                ok = (len(t.elts) == 2 and isinstance(t.elts[0], ast.Tuple) and len(t.elts[0].elts) == 2
                      and all(isinstance(e, ast.Name) for e in t.elts[0].elts) and isinstance(t.elts[1], ast.Name))
                if not ok:
                    raise TieBroken(f"{fname}: unpacking {src}")
                ab = "a" if v.id == params[1] else "b"
                env[t.elts[0].elts[0].id] = ab + "lo"
                env[t.elts[0].elts[1].id] = ab + "hi"
                env[t.elts[1].id] = f"({ab}no : Rat)"
            elif isinstance(t, ast.Name) and t.id.endswith("_tick"):
                ticks[t.id] = rat(v, env, fname)
            elif isinstance(t, ast.Name) and t.id == "origin" and isinstance(v, ast.List):
                origin = v
            elif isinstance(t, ast.Name) and t.id == "colvectors":
                if not (isinstance(v, ast.Call) and ast.unparse(v.func) == "np.asarray" and len(v.args) == 1
                        and isinstance(v.args[0], ast.List) and all(isinstance(r, ast.List) for r in v.args[0].elts)):
                    raise TieBroken(f"{fname}: colvectors = {ast.unparse(v)}")
                cols = v.args[0]
            elif isinstance(t, ast.Name) and t.id == "affine_domain":
                if not (isinstance(v, ast.Call) and ast.unparse(v.func) == "CoordinateSystem"
                        and isinstance(v.args[0], ast.List)
                        and all(isinstance(e, ast.Constant) and isinstance(e.value, str) for e in v.args[0].elts)):
                    raise TieBroken(f"{fname}: affine_domain = {ast.unparse(v)}")
                dom = [e.value for e in v.args[0].elts]
            elif isinstance(t, ast.Name) and t.id == "affine_range":
                rng_expr = ast.unparse(v)
            elif isinstance(t, ast.Name) and t.id == "T":
                Tmat = ast.unparse(v)
            else:
                raise TieBroken(f"{fname}: unexpected statement {src}")
        if None in (origin, cols, dom, rng_expr, Tmat, ret) or len(ticks) != 2:
            raise TieBroken(f"{fname}: a piece of the affine is missing")
        # the ticks in the order of the specs
        tick_of = {}
        for nm, term in ticks.items():
            ab = "a" if "alo" in term or "ahi" in term else "b"
            if ab in tick_of or ("alo" in term or "ahi" in term) == ("blo" in term or "bhi" in term):
                raise TieBroken(f"{fname}: {nm} mixes the two specs")
            tick_of[ab] = term
            env[nm] = "t" + ab
        if set(tick_of) != {"a", "b"}:
            raise TieBroken(f"{fname}: ticks")
        L += [f"def {fname}TickA (alo ahi : Rat) (ano : Nat) : Rat := {tick_of['a']}",
              f"def {fname}TickB (blo bhi : Rat) (bno : Nat) : Rat := {tick_of['b']}",
              f"def {fname}Origin (fixed alo ahi blo bhi : Rat) : List Rat := ["
              + ", ".join(rat(e, env, fname) for e in origin.elts) + "]",
              f"def {fname}Cols (ta tb : Rat) : List (List Rat) := ["
              + ", ".join("[" + ", ".join(rat(e, env, fname) for e in r.elts) + "]" for r in cols.elts) + "]",
              f"def {fname}Domain : List String := [" + ", ".join(_lean_str(x) for x in dom) + "]",
              _strlist(f"{fname}Text", [rng_expr, Tmat, ret])]
    fn = _func(sl, "bounding_box", TieBroken)
    L += [_strlist("boundingBoxText", _text(fn)), ""]

    # ---------------------------------------------------------------- ImageList.from_image: the dropout flag
    fn = _func(il, "from_image", TieBroken, "ImageList")
    dv = _one([x for x in _body(fn) if isinstance(x, ast.Assign) and ast.unparse(x.targets[0]) == "dropout"],
              "ImageList.from_image: dropout", TieBroken).value

    def flag(n):
        if isinstance(n, ast.BoolOp):
            return "(" + (" && " if isinstance(n.op, ast.And) else " || ").join(flag(v) for v in n.values) + ")"
        if isinstance(n, ast.Name) and n.id == "dropout":
            return "dropout"
        if (isinstance(n, ast.Compare) and len(n.ops) == 1 and isinstance(n.left, ast.Name)
                and n.left.id in ("out_ax", "in_ax") and isinstance(n.comparators[0], ast.Constant)
                and n.comparators[0].value is None and isinstance(n.ops[0], (ast.Is, ast.IsNot))):
            return f"{n.left.id}.isSome" if isinstance(n.ops[0], ast.IsNot) else f"{n.left.id}.isNone"
        if isinstance(n, ast.UnaryOp) and isinstance(n.op, ast.Not):
            return f"(!{flag(n.operand)})"
        raise TieBroken("ImageList.from_image: dropout = " + ast.unparse(n))
    L += ["/-! ## `ImageList.from_image`: whether the output axis is dropped from the items -/",
          f"def fromImageDropout (dropout : Bool) (in_ax out_ax : Option Nat) : Bool := {flag(dv)}", ""]

    # ---------------------------------------------------------------- Image.__init__ / ArrayCoordMap validation
    fn = _func(im, "__init__", TieBroken, "Image")
    chk = [x for x in _body(fn) if isinstance(x, ast.If) and "function_domain.ndim" in ast.unparse(x.test)]
    chk = _one(chk, "Image.__init__: axis-count check", TieBroken)
    if not (len(chk.body) == 1 and isinstance(chk.body[0], ast.Raise) and not chk.orelse
            and ast.unparse(chk.body[0].exc.func) == "ValueError"):
        raise TieBroken("Image.__init__: axis-count check does not raise ValueError")
    nd_src = _one([x for x in _body(fn) if isinstance(x, ast.Assign) and ast.unparse(x.targets[0]) == "ndim"],
                  "Image.__init__: ndim", TieBroken)
    if ast.unparse(nd_src.value) != "len(data.shape)":
        raise TieBroken("Image.__init__: ndim = " + ast.unparse(nd_src.value))
    tr = _Tr(TieBroken, "Image.__init__", nat_names={"coordmap.function_domain.ndim": "cmap_ndim", "ndim": "data_ndim"})
    fn = _func(ac, "__getitem__", TieBroken, "ArrayCoordMap")
    val = [ast.unparse(x) for x in _body(fn) if not (isinstance(x, ast.If) and ast.unparse(x.test) == "have_ellipsis")
           and not isinstance(x, ast.Return)]
    L += ["/-! ## `Image.__init__`: the axis-count check; `ArrayCoordMap.__getitem__`: what it accepts -/",
          "/-- `Image(data, coordmap)` raises `ValueError` when this holds -/",
          f"def imageInitRefuses (cmap_ndim data_ndim : Nat) : Bool := {tr.bool_(chk.test)}",
          _strlist("acmValidateText", val),
          _strlist("fromShapeText", _text(_func(ac, "from_shape", TieBroken, "ArrayCoordMap"))), ""]

    # ---------------------------------------------------------------- coordinate_map.py: axis identifiers
    cmf = parse("nipy/core/reference/coordinate_map.py")
    fn = _func(cmf, "input_axis_index", TieBroken)
    ib = _one([x for x in _body(fn) if isinstance(x, ast.If) and ast.unparse(x.test) == "isinstance(axis_id, int)"],
              "input_axis_index: integer branch", TieBroken)
    ok = (len(ib.body) == 2 and isinstance(ib.body[0], ast.If) and not ib.body[0].orelse
          and len(ib.body[0].body) == 1 and isinstance(ib.body[0].body[0], ast.Assign)
          and ast.unparse(ib.body[0].body[0].targets[0]) == "axis_id"
          and ast.unparse(ib.body[1]) == "return axis_id" and not ib.orelse)
    if not ok:
        raise TieBroken("input_axis_index: integer branch has an unexpected shape")
    tr = _Tr(TieBroken, "input_axis_index", ints=["axis_id"], nat_names={"len(in_names)": "nin"})
    iai = f"if {tr.bool_(ib.body[0].test)} then {tr.int_(ib.body[0].body[0].value)} else axis_id"
    fn2 = _func(cmf, "io_axis_indices", TieBroken)
    ib2 = _one([x for x in _body(fn2) if isinstance(x, ast.If) and ast.unparse(x.test) == "isinstance(axis_id, int)"],
               "io_axis_indices: integer branch", TieBroken)
    if not (len(ib2.body) == 1 and isinstance(ib2.body[0], ast.Assign)
            and ast.unparse(ib2.body[0].targets[0]) == "in_dim"):
        raise TieBroken("io_axis_indices: integer branch has an unexpected shape")
    tr2 = _Tr(TieBroken, "io_axis_indices", ints=["axis_id"], nat_names={"len(in_dims)": "nin"})
    ioi = tr2.int_(ib2.body[0].value)
    L += ["/-! ## coordinate_map.py: how axis identifiers become axis numbers -/",
          f"def inputAxisIndexInt (nin : Nat) (axis_id : Int) : Int := {iai}",
          f"def ioAxisIndicesInt (nin : Nat) (axis_id : Int) : Int := {ioi}",
          _strlist("inputAxisIndexText", _text(fn)),
          _strlist("ioAxisIndicesText", _text(fn2)),
          _strlist("axmapText", _text(_func(cmf, "axmap", TieBroken))),
          _strlist("dropIoDimText", _text(_func(cmf, "drop_io_dim", TieBroken))), ""]

    # ---------------------------------------------------------------- signatures (argument order and defaults)
    sigs = [(im, None, n) for n in ("rollimg", "rollaxis", "iter_axis", "synchronized_order", "subsample")] + \
           [(im, "Image", n) for n in ("reordered_axes", "reordered_reference", "from_image")] + \
           [(il, "ImageList", n) for n in ("from_image", "get_list_data")] + \
           [(sp, None, n) for n in ("as_xyz_image", "xyz_affine", "is_xyz_affable")] + [(ac, None, "_slice")] + \
           [(cmf, None, n) for n in ("input_axis_index", "io_axis_indices", "axmap", "drop_io_dim")]
    L += ["/-! ## signatures: argument order and defaults the callers above rely on -/",
          "def signatures : List (String × String) :=\n  [" + ",\n   ".join(
              f"({_lean_str((c + '.' if c else '') + n)}, {_lean_str(ast.unparse(_func(t, n, TieBroken, c).args))})"
              for t, c, n in sigs) + "]", ""]

    # ---------------------------------------------------------------- frame: no write through a parameter
    manip = [(im, "Image", n) for n in ("reordered_reference", "reordered_axes", "renamed_axes", "renamed_reference",
                                        "__getitem__", "__array__", "get_fdata", "from_image")] + \
            [(im, None, n) for n in ("subsample", "fromarray", "rollaxis", "rollimg", "iter_axis",
                                     "synchronized_order", "is_image")] + \
            [(il, "ImageList", n) for n in ("from_image", "__getitem__", "get_list_data", "__array__", "__iter__")] + \
            [(sp, None, n) for n in ("xyz_affine", "is_xyz_affable", "as_xyz_image")] + \
            [(ac, "ArrayCoordMap", n) for n in ("__getitem__", "from_shape", "_evaluate")] + \
            [(ac, "Grid", "__getitem__"), (ac, None, "_slice")] + \
            [(cmf, None, n) for n in ("input_axis_index", "io_axis_indices", "axmap", "drop_io_dim", "_fix0", "orth_axes",
                                      "reordered_domain", "reordered_range", "renamed_domain", "renamed_range",
                                      "shifted_range_origin", "compose", "product")] + \
            [(cmf, "AffineTransform", n) for n in ("reordered_domain", "reordered_range", "renamed_domain",
                                                   "renamed_range", "__call__")]
    writes, scanned = [], []
    for tree, cls, name in manip:
        qual = (cls + "." if cls else "") + name
        writes += _param_writes(_func(tree, name, TieBroken, cls), qual)
        scanned.append(qual)
    # in-place by contract: listed, so that a new one (or the loss of one) is noticed
    inplace = []
    for tree, cls, name in [(im, "Image", "__setitem__"), (im, "Image", "_setheader"), (il, "ImageList", "__setitem__")]:
        qual = cls + "." + name
        inplace += _param_writes(_func(tree, name, TieBroken, cls), qual)
    L += ["/-! ## frame condition on the text -/",
          "/-- statements of the manipulation functions that write through a parameter (element / attribute",
          "    assignment, augmented assignment, `del`, a mutating method on a parameter or on something reached",
          "    from one by attributes, subscripts and method calls) -/",
          "def parameterWrites : List (String × String) :=\n  [" + ",\n   ".join(
              f"({_lean_str(q)}, {_lean_str(t)})" for q, t in writes) + "]",
          _strlist("scannedFunctions", scanned),
          "/-- the same scan on the methods that work in place by contract -/",
          "def inplaceWrites : List (String × String) :=\n  [" + ",\n   ".join(
              f"({_lean_str(q)}, {_lean_str(t)})" for q, t in inplace) + "]",
          "", "end NipyVerif.C02.Gen", ""]
    return [("NipyVerif/Gen/C02Source.lean", "\n".join(L))]
