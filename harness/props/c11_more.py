"""C11, second part: further routines of graph.py / bipartite_graph.py / fast_distance.py —
queries (degrees, incidences, list_of_neighbors, is_connected, main_cc), builders
(complete_graph, wgraph_from_adjacency, wgraph_from_coo_matrix from coo / csr input),
set_gaussian, the base `Graph` class, BipartiteGraph operations, voronoi_diagram, and the
translator that regenerates the lattice direction tables of `graph_3d_grid` from the source.
Each helper appends (model line, implementation observation) pairs and oracle failures.
"""
from __future__ import annotations

import ast
import itertools
import os
from fractions import Fraction

import numpy as np

from harness.core import REPO, TieBroken
from harness.util import errname
from harness.util import fr as _fr

INF = float("inf")


def fr(x):
    x = float(x)
    if x != x:
        return "nan"
    if x in (INF, -INF):
        return "inf" if x > 0 else "-inf"
    return _fr(x)


def frs(xs):
    return " ".join(fr(x) for x in xs)


def ll(rows):
    return " ; ".join(" ".join(str(int(x)) for x in r) for r in rows)


def gline(V, edges):
    return f"{V} {len(edges)} " + " ".join(f"{u} {v} {fr(w)}" for u, v, w in edges)


def mat(M):
    M = np.asarray(M, float)
    if M.ndim == 1:
        M = M.reshape(-1, 1)
    return f"{M.shape[0]} {M.shape[1]} " + frs(M.ravel().tolist())


# ----------------------------------------------------------------------
# queries on one weighted graph
# ----------------------------------------------------------------------
def query_lines(g, V, cur, sym, which, add, fail):
    """`which` in deg linc rinc lon isc mcc; `g` is the live object, `cur` its current (u, v, w) rows"""
    gl = gline(V, cur)
    if which == "deg":
        r, l = g.degrees()
        r, l = [int(x) for x in np.asarray(r).ravel()], [int(x) for x in np.asarray(l).ravel()]
        add(f"deg {gl}", " ".join(map(str, r)) + " | " + " ".join(map(str, l)))
        wr = [sum(1 for a, _, _ in cur if a == v) for v in range(V)]
        wl = [sum(1 for _, b, _ in cur if b == v) for v in range(V)]
        if r != wr or l != wl:
            fail(f"degrees() = {r}, {l} but the edges leaving / entering each vertex number {wr}, {wl}")
    elif which in ("linc", "rinc"):
        inc = g.left_incidence() if which == "linc" else g.right_incidence()
        add(f"{which} {gl}", ll(inc))
        k = 0 if which == "linc" else 1
        want = [[i for i, e in enumerate(cur) if e[k] == v] for v in range(V)]
        if [list(map(int, r)) for r in inc] != want:
            fail(f"{'left' if k == 0 else 'right'}_incidence() = {inc}, expected {want}")
    elif which == "lon":
        lon = g.list_of_neighbors()
        add(f"lon {gl}", ll(lon))
        want = [sorted({b for a, b, _ in cur if a == v}) for v in range(V)]
        if [list(map(int, r)) for r in lon] != want:
            fail(f"list_of_neighbors() = {lon}, expected {want}")
    elif which == "isc":
        r = g.is_connected()
        add(f"isc {gl}", "1" if r else "0")
        if sym:
            from harness.props.C11 import ref_components
            k = max(ref_components(V, cur)) + 1
            if bool(r) != (k == 1):
                fail(f"is_connected() = {r} but the graph has {k} component(s)")
    elif which == "mcc":
        r = g.main_cc()
        if not cur:
            add(f"mcc {gl}", "int0" if np.ndim(r) == 0 and int(r) == 0 else str(r))
        else:
            r = [int(x) for x in np.atleast_1d(r)]
            add(f"mcc {gl}", " ".join(map(str, r)))
            if sym:
                from harness.props.C11 import ref_components
                want = ref_components(V, cur)
                sizes = [want.count(j) for j in range(max(want) + 1)]
                labs = {want[v] for v in r}
                if len(labs) != 1 or sizes[next(iter(labs))] != max(sizes) or len(r) != max(sizes):
                    fail(f"main_cc() = {r} is not a largest component (sizes {sizes})")


def gauss_line(G, mk, V, edges, X, sigma, add, fails):
    """set_gaussian on a fresh object; exponent compared exactly, exp checked by the oracle"""
    gl = gline(V, edges)
    X = np.asarray(X, float)
    g = mk()
    line = f"gauss {gl} {fr(sigma)} {mat(X)}"
    try:
        g.set_gaussian(X.copy(), sigma)
    except ValueError:
        add(line, "error:valueError")
        if sigma >= 0 and X.shape[0] == V:
            fails.append(f"set_gaussian(sigma={sigma}) raised ValueError on a valid embedding")
        return
    except Exception as e:
        fails.append(f"set_gaussian(sigma={sigma}) raised {type(e).__name__}: {e} (E={len(edges)})")
        return
    w = np.asarray(g.weights, float)
    with np.errstate(all="ignore"):
        add(line, " ".join("nan" if x != x else fr(np.log(x)) for x in w.tolist()))
    Xm = X.reshape(V, -1)
    d2 = np.array([((Xm[a] - Xm[b]) ** 2).sum() for a, b, _ in edges])
    with np.errstate(all="ignore"):
        s = d2.mean() if sigma == 0 else sigma
        want = np.exp(-d2 / (2 * s))
    if w.shape != want.shape or not np.allclose(w, want, rtol=1e-12, atol=0, equal_nan=True):
        fails.append(f"set_gaussian(sigma={sigma}): weights {w.tolist()[:6]} are not exp(-d^2/(2 sigma)) = "
                     f"{want.tolist()[:6]}")
    elif [tuple(map(int, e)) for e in np.asarray(g.edges).tolist()] != [(a, b) for a, b, _ in edges]:
        fails.append("set_gaussian changed the edges")


def builder_lines(G, V, edges, A, add, fails):
    """wgraph_from_adjacency / wgraph_from_coo_matrix (coo keeps rows as given, csr merges) on the data of a graph"""
    from scipy.sparse import coo_matrix, csc_matrix, csr_matrix
    from harness.props.C11 import gobs, gedges, dense

    def one(name, line, f, want_dense, keep_rows=None):
        try:
            g = f()
        except Exception as e:
            add(line, errname(e))
            fails.append(f"{name} raised {type(e).__name__}: {e} (V={V}, edges={edges[:8]})")
            return
        add(line, gobs(g, sort=keep_rows is None))
        if int(g.V) != V or not np.array_equal(dense(V, gedges(g)), want_dense):
            fails.append(f"{name}: adjacency matrix differs from the input matrix (edges {edges[:8]})")
        elif keep_rows is not None and gedges(g) != keep_rows:
            fails.append(f"{name}: rows {gedges(g)[:8]} differ from the stored entries {keep_rows[:8]}")

    one("wgraph_from_adjacency", f"fromadj {V} {V} " + frs(A.ravel().tolist()), lambda: G.wgraph_from_adjacency(A.copy()), A)
    if edges:
        i = np.array([e[0] for e in edges]); j = np.array([e[1] for e in edges]); w = np.array([e[2] for e in edges], float)
        one("wgraph_from_coo_matrix(coo)", f"fromcoo {gline(V, edges)}",
            lambda: G.wgraph_from_coo_matrix(coo_matrix((w, (i, j)), shape=(V, V))), A, keep_rows=list(edges))
        one("wgraph_from_coo_matrix(csr)", f"fromcsr {gline(V, edges)}",
            lambda: G.wgraph_from_coo_matrix(csr_matrix((w, (i, j)), shape=(V, V))), A)
        # column-compressed input comes back column by column; int32 / int64 index arrays, Fortran-ordered dense input
        csc = csc_matrix((w, (i, j)), shape=(V, V))
        cm = sorted({(a, b) for a, b, _ in edges}, key=lambda p_: (p_[1], p_[0]))
        one("wgraph_from_coo_matrix(csc)", f"fromcsc {gline(V, edges)}", lambda: G.wgraph_from_coo_matrix(csc), A,
            keep_rows=[(a, b, float(A[a, b])) for a, b in cm])
        one("wgraph_from_coo_matrix(lil)", f"fromcsr {gline(V, edges)}",
            lambda: G.wgraph_from_coo_matrix(coo_matrix((w, (i.astype(np.int64), j.astype(np.int64))), shape=(V, V)).tolil()), A)
        one("wgraph_from_adjacency(Fortran order)", f"fromadj {V} {V} " + frs(A.ravel().tolist()),
            lambda: G.wgraph_from_adjacency(np.asfortranarray(A)), A)
    try:
        G.wgraph_from_coo_matrix(coo_matrix(np.ones((2, 3))))
        fails.append("wgraph_from_coo_matrix accepted a non-square matrix")
    except ValueError:
        pass


def base_graph_oracle(G, V, edges, fails):
    """the unweighted base class answers like the weighted graph with the same rows"""
    E = np.array([[u, v] for u, v, _ in edges], dtype=np.intp) if edges else None
    try:
        b = G.Graph(V, edges=E) if edges else G.Graph(V)
        w = G.WeightedGraph(V, E, np.ones(len(edges))) if edges else G.WeightedGraph(V)
        if int(b.get_V()) != V or int(b.get_E()) != len(edges) or list(b.get_vertices()) != list(range(V)):
            fails.append("Graph accessors get_V / get_E / get_vertices disagree with the constructor arguments")
        if [tuple(map(int, r)) for r in np.asarray(b.get_edges()).reshape(-1, 2).tolist()] != [(u, v) for u, v, _ in edges]:
            fails.append("Graph.get_edges() differs from the edges given")
        if list(w.get_weights()) != [1.0] * len(edges):
            fails.append("get_weights() differs from the weights given")
        if not np.array_equal(b.to_coo_matrix().toarray(), w.to_coo_matrix().toarray()) or \
                not np.array_equal(b.adjacency().toarray(), w.adjacency().toarray()):
            fails.append("Graph.to_coo_matrix()/adjacency() differ from the edge-count matrix")
        if list(b.cc()) != list(w.cc()):
            fails.append(f"Graph.cc() = {list(b.cc())} differs from WeightedGraph.cc() = {list(w.cc())} on the same rows")
        if edges:
            rb, lb = b.degrees(); rw, lw = w.degrees()
            if list(rb) != list(rw) or list(lb) != list(lw):
                fails.append("Graph.degrees() differs from WeightedGraph.degrees()")
        mb, mw = b.main_cc(), w.main_cc()
        if list(np.atleast_1d(mb)) != list(np.atleast_1d(mw)):
            fails.append("Graph.main_cc() differs from WeightedGraph.main_cc()")
    except Exception as e:
        fails.append(f"base Graph class raised {type(e).__name__}: {e} (V={V}, edges={edges[:8]})")
    for bad in ([[0, V]], [[0, 1, 2]]):
        try:
            G.Graph(V, edges=np.array(bad, dtype=np.intp))
            fails.append(f"Graph accepted the edge array {bad} on {V} vertices")
        except (ValueError, IndexError):
            pass
    try:
        G.Graph(0)
        fails.append("Graph(0) accepted")
    except ValueError:
        pass
    try:
        G.WeightedGraph(V, np.zeros((2, 2), dtype=np.intp), np.ones(3))
        fails.append("WeightedGraph accepted 3 weights for 2 edges")
    except ValueError:
        pass


# ----------------------------------------------------------------------
# bipartite graphs
# ----------------------------------------------------------------------
def gen_bip(rng):
    V, W = rng.choice([1, 2, 3, 4, 6]), rng.choice([1, 2, 3, 4, 6])
    if rng.random() < 0.3:
        W = V
    m = rng.choice([0, 1, 2, 4, 7, 12])
    e = [[rng.randrange(V), rng.randrange(W), rng.choice([0.5, 1.0, 2.0, -1.0, 1.0, 0.0])] for _ in range(m)]
    side = rng.choice(["l", "l", "r", "r", "r"])
    size = {"l": V, "r": V}[side]
    if rng.random() < 0.15:
        size = rng.choice([V + 1, max(0, V - 1), W])
    valid = [1 if rng.random() < 0.6 else 0 for _ in range(size)]
    if rng.random() < 0.08:
        valid = [0] * size
    return {"kind": "bip", "V": V, "W": W, "e": e, "side": side, "valid": valid, "ren": int(rng.random() < 0.7)}


def bip_case(c):
    from nipy.algorithms.graph import bipartite_graph as B
    from harness.util import Snapshot
    V, W, e = c["V"], c["W"], [tuple(x) for x in c["e"]]
    lines, impl, fails = [], [], []

    def add(line, obs):
        lines.append(line); impl.append(obs)

    def rows(g):
        if not int(g.E):
            return []
        return [(int(a), int(b), float(w)) for (a, b), w in zip(np.asarray(g.edges).reshape(-1, 2).tolist(),
                                                                np.asarray(g.weights, float).ravel().tolist())]

    def btxt(g):
        r = rows(g)
        return " ".join([str(int(g.V)), str(int(g.W)), str(len(r))] + [f"{a} {b} {fr(w)}" for a, b, w in r])

    def mkb():
        if e:
            return B.BipartiteGraph(V, W, np.array([[a, b] for a, b, _ in e], dtype=np.int_), np.array([w for _, _, w in e], float))
        return B.BipartiteGraph(V, W)
    bl = f"{V} {W} {len(e)} " + " ".join(f"{a} {b} {fr(w)}" for a, b, w in e)
    try:
        g = mkb()
        add(f"bnew {bl}", btxt(g))
        if rows(g) != e or int(g.V) != V or int(g.W) != W:
            fails.append("BipartiteGraph constructor: stored rows differ from the arguments")
    except Exception as ex:
        fails.append(f"BipartiteGraph({V}, {W}, ...) raised {type(ex).__name__}: {ex}")
        return {"lines": lines, "impl": impl, "oracle": fails[0], "nontrivial": True, "tags": ["bip"], "mutated": None}
    try:
        h = g.copy()
        if rows(h) != e or int(h.V) != V or int(h.W) != W or (e and (h.edges is g.edges or h.weights is g.weights)):
            fails.append("BipartiteGraph.copy() is not an independent copy")
    except Exception as ex:
        fails.append(f"BipartiteGraph({V}, {W}{', edges, weights' if e else ''}).copy() raised {type(ex).__name__}: {ex} "
                     f"({len(e)} edges)")
    for bad in ((0, W, None), (V, 0, None), (V, W, [[V, 0]]), (V, W, [[0, W]])):
        try:
            if bad[2] is None:
                B.BipartiteGraph(bad[0], bad[1])
            else:
                B.BipartiteGraph(bad[0], bad[1], np.array(bad[2]), np.ones(1))
            fails.append(f"BipartiteGraph accepted V={bad[0]} W={bad[1]} edges={bad[2]}")
        except ValueError:
            pass
    # bipartite_graph_from_adjacency on the dense matrix of the rows (no duplicates there)
    A = np.zeros((V, W))
    for a, b, w in e:
        A[a, b] += w
    try:
        h = B.bipartite_graph_from_adjacency(A.copy())
        M = np.zeros((V, W))
        for a, b, w in rows(h):
            M[a, b] += w
        if not np.array_equal(M, A) or len({(a, b) for a, b, _ in rows(h)}) != len(rows(h)) or any(w == 0 for _, _, w in rows(h)):
            fails.append(f"bipartite_graph_from_adjacency: rows {rows(h)[:8]} do not reproduce the matrix")
    except Exception as ex:
        fails.append(f"bipartite_graph_from_adjacency raised {type(ex).__name__}: {ex}")
    # bipartite_graph_from_coo_matrix keeps the stored entries (zeros, repeated positions) as rows
    if e:
        from scipy.sparse import coo_matrix
        try:
            x = coo_matrix((np.array([w for _, _, w in e], float), (np.array([a for a, _, _ in e]), np.array([b for _, b, _ in e]))),
                           shape=(V, W))
            h = B.bipartite_graph_from_coo_matrix(x)
            add(f"bfromcoo {bl}", btxt(h))
            if rows(h) != e:
                fails.append(f"bipartite_graph_from_coo_matrix: rows {rows(h)[:8]} differ from the stored entries {e[:8]}")
        except Exception as ex:
            add(f"bfromcoo {bl}", errname(ex))
            fails.append(f"bipartite_graph_from_coo_matrix raised {type(ex).__name__}: {ex} on stored entries {e[:8]}")
    # subgraph_left / subgraph_right
    valid = np.array(c["valid"], dtype=bool)
    ren = bool(c["ren"])
    side = c["side"]
    snap = Snapshot(edges=g.edges, weights=g.weights, valid=valid)
    vl = f"{int(ren)} {len(valid)} " + " ".join(str(int(x)) for x in valid)
    try:
        h = g.subgraph_left(valid, ren) if side == "l" else g.subgraph_right(valid, ren)
        obs = "none" if h is None else btxt(h)
    except Exception as ex:
        h, obs = ex, errname(ex)
    add(f"{'bsl' if side == 'l' else 'bsr'} {bl} {vl}", obs)
    n_other = V if side == "l" else W
    if len(valid) == n_other and (side == "l" or V == W):
        # the documented behaviour: keep the edges whose (left / right) end is retained
        k = 0 if side == "l" else 1
        if isinstance(h, Exception):
            fails.append(f"subgraph_{'left' if side == 'l' else 'right'}(valid={c['valid']}, renumb={ren}) raised "
                         f"{type(h).__name__}: {h}")
        elif valid.sum() == 0:
            if h is not None:
                fails.append("bipartite subgraph of no vertex is not None")
        elif h is None:
            fails.append("bipartite subgraph returned None although vertices are kept")
        else:
            rn = np.concatenate(([0], np.cumsum(valid)))
            want = [((int(rn[a]) if (ren and k == 0) else a), (int(rn[b]) if (ren and k == 1) else b), w)
                    for a, b, w in e if valid[(a, b)[k]]]
            if e and rows(h) != want:
                fails.append(f"subgraph_{'left' if side == 'l' else 'right'}(valid={c['valid']}, renumb={ren}) rows {rows(h)[:8]}, "
                             f"expected {want[:8]}")
            elif not e and rows(h) != []:
                fails.append("bipartite subgraph of an edgeless graph has edges")
    return {"lines": lines, "impl": impl, "oracle": fails[0] if fails else None, "nontrivial": bool(e),
            "tags": ["bip", "bip:" + side, "bip:renumb" if ren else "bip:keep"], "mutated": snap.changed()}


# ----------------------------------------------------------------------
# voronoi_diagram (oracle only: np.argsort decides between equidistant seeds)
# ----------------------------------------------------------------------
def gen_vd(rng):
    dim = rng.choice([1, 2, 2, 3])
    ns = rng.choice([1, 2, 2, 3, 4, 6])
    seeds = []
    while len(seeds) < ns:
        p = [float(rng.randrange(0, 6)) for _ in range(dim)]
        if p not in seeds:
            seeds.append(p)
    nsm = rng.choice([1, 3, 8, 20])
    samples = [[rng.randrange(0, 21) / 4 for _ in range(dim)] for _ in range(nsm)]
    return {"kind": "vd", "seeds": seeds, "samples": samples}


def vd_pairs(S, X):
    """the two nearest seeds of every sample as `voronoi_diagram` obtains them (argsort decides between ties)"""
    from nipy.algorithms.graph.bipartite_graph import cross_knn
    j = np.asarray(cross_knn(X, S, 2).edges)[:, 1]
    return [(int(j[2 * s]), int(j[2 * s + 1])) for s in range(len(X))]


def vdiag_line(S, X, g, add):
    """model line of voronoi_diagram: the pairs are a parameter the model certifies, the rest is as written"""
    pairs = vd_pairs(S, X)
    E = int(g.E)
    ed = [(int(a), int(b)) for a, b in np.asarray(g.edges).reshape(-1, 2).tolist()] if E else []
    w = np.asarray(g.weights, float).ravel().tolist() if E else []
    rows = sorted(zip(ed, w))
    with np.errstate(all="ignore"):
        logs = " ".join("nan" if x != x else fr(np.log(x)) for _, x in rows)
    add(f"vdiag {mat(S)} {mat(X)} {len(pairs)} " + " ".join(f"{a} {b}" for a, b in pairs),
        " ".join([str(int(g.V)), str(len(rows))] + [f"{a} {b}" for (a, b), _ in rows]) + " | " + logs + " | ok")


def vd_oracle(S, X, g):
    """the graph links exactly pairs of seeds that are the two nearest ones of some sample; Gaussian weights"""
    V = len(S)
    E = int(g.E)
    ed = [(int(a), int(b)) for a, b in np.asarray(g.edges).reshape(-1, 2).tolist()] if E else []
    w = np.asarray(g.weights, float).ravel()
    D = ((X[:, None, :] - S[None, :, :]) ** 2).sum(2)
    must, may = set(), set()
    for row in D:
        srt = np.sort(row)
        near = [j for j in range(V) if row[j] <= srt[1]]
        for a in near:
            for b in near:
                if a != b and (row[a] == srt[0] or row[b] == srt[0]):
                    may.add((a, b))
        if srt[0] < srt[1] and (V == 2 or srt[1] < srt[2]):
            a, b = int(np.argsort(row)[0]), int(np.argsort(row)[1])
            must |= {(a, b), (b, a)}
    got = set(ed)
    if len(got) != len(ed) or len(w) != len(ed) or np.shape(g.edges)[0] != len(ed):
        return "voronoi_diagram: repeated edges or inconsistent arrays"
    if not must <= got or not got <= may or any((b, a) not in got for a, b in got):
        return (f"voronoi_diagram: edges {sorted(got)} are not the (symmetric) pairs of the two nearest seeds of "
                f"the samples (required {sorted(must)}, admissible {sorted(may)}; seeds={S.tolist()}, samples={X.tolist()})")
    if ed:
        d2 = np.array([((S[a] - S[b]) ** 2).sum() for a, b in ed])
        want = np.exp(-d2 / (2 * d2.mean()))
        if not np.allclose(w, want, rtol=1e-12):
            return "voronoi_diagram: weights are not the Gaussian function of the seed distances"
    return None


def vd_case(c, G):
    S = np.array(c["seeds"], float)
    X = np.array(c["samples"], float)
    V = len(S)
    fails, lines, impl = [], [], []
    try:
        g = G.WeightedGraph(V)
        with np.errstate(all="ignore"):
            g.voronoi_diagram(S.copy(), X.copy())
        if V == 1:
            if int(g.E) != 0 or np.size(g.weights) != 0:
                fails.append("voronoi_diagram with a single seed has edges")
        else:
            vdiag_line(S, X, g, lambda l, o: (lines.append(l), impl.append(o)))
            msg = vd_oracle(S, X, g)
            if msg:
                fails.append(msg)
    except Exception as e:
        fails.append(f"voronoi_diagram raised {type(e).__name__}: {e} (seeds={c['seeds']}, {len(X)} samples)")
    for badS, badX in ((S[:-1], X), (S, np.zeros((3, S.shape[1] + 1)))):
        try:
            G.WeightedGraph(V).voronoi_diagram(badS, badX)
            fails.append("voronoi_diagram accepted inconsistent seeds / samples")
        except ValueError:
            pass
        except Exception:
            pass
    return {"lines": lines, "impl": impl, "oracle": fails[0] if fails else None, "nontrivial": len(X) >= 1,
            "tags": ["voronoi_diagram"], "mutated": None}


# ----------------------------------------------------------------------
# translator: direction tables of graph_3d_grid
# ----------------------------------------------------------------------
class _Poly:
    """polynomial in m with integer coefficients (degree <= 2)"""
    def __init__(self, c):
        self.c = list(c) + [0] * (3 - len(c))

    @staticmethod
    def of(node):
        if isinstance(node, ast.Constant) and isinstance(node.value, int):
            return _Poly([node.value])
        if isinstance(node, ast.Name) and node.id == "m":
            return _Poly([0, 1])
        if isinstance(node, ast.UnaryOp) and isinstance(node.op, ast.USub):
            p = _Poly.of(node.operand)
            return _Poly([-x for x in p.c])
        if isinstance(node, ast.BinOp):
            if isinstance(node.op, ast.Pow):
                if isinstance(node.left, ast.Name) and node.left.id == "m" and isinstance(node.right, ast.Constant) \
                        and node.right.value in (1, 2):
                    return _Poly([0, 0, 1] if node.right.value == 2 else [0, 1])
                raise TieBroken("graph_3d_grid: power other than m ** 2")
            a, b = _Poly.of(node.left), _Poly.of(node.right)
            if isinstance(node.op, ast.Add):
                return _Poly([x + y for x, y in zip(a.c, b.c)])
            if isinstance(node.op, ast.Sub):
                return _Poly([x - y for x, y in zip(a.c, b.c)])
            if isinstance(node.op, ast.Mult):
                out = [0] * 5
                for i, x in enumerate(a.c):
                    for j, y in enumerate(b.c):
                        out[i + j] += x * y
                if out[3] or out[4]:
                    raise TieBroken("graph_3d_grid: degree above 2 in a direction code")
                return _Poly(out[:3])
        raise TieBroken(f"graph_3d_grid: unrecognised entry {ast.dump(node)[:80]}")


def grid_tables():
    """parse m = a * lxyz.max(0).sum() + b, the lists n6 / n18 / n26 and the l1dist arguments"""
    p = os.path.join(REPO, "nipy/algorithms/graph/graph.py")
    try:
        tree = ast.parse(open(p).read())
    except (OSError, SyntaxError) as e:
        raise TieBroken(f"cannot parse graph.py: {e}")
    fn = next((n for n in ast.walk(tree) if isinstance(n, ast.FunctionDef) and n.name == "graph_3d_grid"), None)
    if fn is None:
        raise TieBroken("graph_3d_grid not found")
    base, tabs, calls = None, {}, {}
    for st in fn.body:
        if isinstance(st, ast.Assign) and len(st.targets) == 1 and isinstance(st.targets[0], ast.Name):
            name = st.targets[0].id
            if name == "m":
                src = ast.unparse(st.value).replace(" ", "")
                import re
                mm = re.fullmatch(r"(\d+)\*lxyz\.max\(0\)\.sum\(\)\+(\d+)", src)
                if not mm:
                    raise TieBroken(f"graph_3d_grid: base of the positional code is `{ast.unparse(st.value)}`, "
                                    f"not `a * lxyz.max(0).sum() + b`")
                base = (int(mm.group(1)), int(mm.group(2)))
            elif name in ("n6", "n18", "n26"):
                if not isinstance(st.value, ast.List):
                    raise TieBroken(f"graph_3d_grid: {name} is not a list literal")
                rows = []
                for el in st.value.elts:
                    if not (isinstance(el, ast.Call) and ast.unparse(el.func) == "np.array" and len(el.args) == 1
                            and isinstance(el.args[0], ast.List) and len(el.args[0].elts) == 3):
                        raise TieBroken(f"graph_3d_grid: row of {name} is not np.array([a, b, c])")
                    rows.append([_Poly.of(x).c for x in el.args[0].elts])
                tabs[name] = rows
            elif name == "lxyz" and ast.unparse(st.value).replace(" ", "") != "xyz-xyz.min(0)":
                raise TieBroken("graph_3d_grid: lxyz is not xyz - xyz.min(0)")
    for n in ast.walk(fn):
        if isinstance(n, ast.Call) and isinstance(n.func, ast.Name) and n.func.id == "create_edges" and len(n.args) >= 3:
            tab = ast.unparse(n.args[1])
            try:
                calls[tab] = int(float(ast.unparse(n.args[2])))
            except ValueError:
                raise TieBroken("graph_3d_grid: l1dist argument is not a number")
    if base is None or set(tabs) != {"n6", "n18", "n26"} or calls != {"n6": 1, "n18": 2, "n26": 3}:
        raise TieBroken(f"graph_3d_grid: shape not recognised (base={base}, tables={sorted(tabs)}, l1dist={calls})")
    src = ast.unparse(fn)
    for needle in ("if k >= 18:", "if k == 26:", "np.argsort(v1)", "sv1[:-1] - sv1[1:] == -l1dist",
                   "np.hstack((left, o1z, o1z1))", "np.hstack((right, o1z1, o1z))", "np.sqrt(l1dist) * np.ones(q)"):
        if needle not in src:
            raise TieBroken(f"graph_3d_grid: `{needle}` not found in the function text")
    # the lattice offset each direction code detects: D0(o) = l1, D1(o) = D2(o) = 0
    out = {}
    for name, l1 in calls.items():
        rows = []
        for row in tabs[name]:
            sols = [o for o in itertools.product((-1, 0, 1), repeat=3)
                    if [sum(o[c] * row[c][k] for c in range(3)) for k in range(3)] == [l1, 0, 0]]
            if len(sols) != 1:
                raise TieBroken(f"graph_3d_grid: direction code {row} of {name} detects {len(sols)} unit offsets")
            rows.append((row, sols[0]))
        out[name] = rows
    return base, out, calls


def grid_lean_text():
    base, tabs, calls = grid_tables()

    def poly(c):
        return f"({c[0]}, {c[1]}, {c[2]})"

    def row(r):
        return f"(({poly(r[0][0])}, {poly(r[0][1])}, {poly(r[0][2])}), ({r[1][0]}, {r[1][1]}, {r[1][2]}))"
    lines = [
        "/- GENERATED by harness/props/c11_more.py from nipy/algorithms/graph/graph.py::graph_3d_grid — do not edit.",
        "   `baseA * lxyz.max(0).sum() + baseB` is the base `m` of the positional code; every row of `n6`/`n18`/`n26`",
        "   is the triple of polynomials `c0 + c1 m + c2 m²` multiplying (x, y, z), followed by the unit lattice offset",
        "   whose code difference is the `l1dist` of its family. -/",
        "namespace NipyVerif.C11.Gen",
        "",
        "/-- coefficients `(c0, c1, c2)` of `c0 + c1 m + c2 m²` -/",
        "abbrev Poly := Int × Int × Int",
        "/-- a direction code and the lattice offset it detects -/",
        "abbrev Row := (Poly × Poly × Poly) × (Int × Int × Int)",
        "",
        f"def baseA : Int := {base[0]}",
        f"def baseB : Int := {base[1]}",
    ]
    for name in ("n6", "n18", "n26"):
        lines.append(f"def {name} : List Row := [" + ",\n  ".join(row(r) for r in tabs[name]) + "]")
        lines.append(f"def l{name[1:]} : Int := {calls[name]}")
    lines += ["", "end NipyVerif.C11.Gen", ""]
    return "\n".join(lines)
