"""C17 — group statistics equal their definitions; permutations enumerate exactly.

Correspondence (Lean model `NipyVerif.C17`):
  * C level, on lib/fff re-compiled from the tree under test (harness/cshim.py):
    fff_onesample_permute_signs, fff_permutation, fff_combination,
    fff_twosample_permutation (+ counting mode) / fff_twosample_apply_permutation,
    one- and two-sample statistics, Gaussian mixed-effects EM;
  * Python level: labs.utils.routines.permutations/combinations, labs.group.onesample /
    twosample `stat(..., axis, Magics)` (compiled glue), algorithms.statistics.onesample /
    mixed_effects_stat, labs.group.permutation_test.pvalue.
  * every flag of both statistic enums dispatched by numeric value through tables regenerated from
    the C / .pyx text (harness/props/c17_tables.py -> Gen/C17Tables.lean): `osf`, `tsf`, `mfxflag`;
    statistic along any axis of an N-d array of any layout (`axis`, `axis2`); Gaussian likelihood ratio
    (`lrgmfx`); two-level linear model loops on general designs (`glm2`, `vbglm`, `memx`, `tsmfx`,
    `tsdesign`); permutation_test counting (`pvalc`, `calib`, `csize`, `poolp`, `region`, `hthresh`).
  * wave 5: function bodies regenerated statement by statement from the Python / C text
    (harness/props/c17_source.py -> Gen/C17Source.lean; theorems `*_from_source` in Props/C17Source.lean) and run
    by the driver next to the hand-written model on the same inputs (Model/C17Src.lean): `srcpvalc`, `srchthresh`,
    `srcgmfx`, `srcmem`, `srcvaratio`, `srcos sign|mean`, `srcts wilcoxon`, `srczclip` (zscore = isf of the clip),
    `srcfisher` (pseudo p-values of compute_cluster_stats / compute_region_stat; `-sum(log p)` finished here).
Oracle: the property clauses evaluated on the real code with independent exact
definitions (fractions): definitions, antisymmetry, base shift law, axis independence, validity /
distinctness / completeness of the seeded relabellings, validity of the null sample, p-values in (0, 1].
"""
from __future__ import annotations

import ctypes as C
import itertools
import math
import warnings
from fractions import Fraction as F

import sys

import numpy as np

if hasattr(sys, "set_int_max_str_digits"):
    sys.set_int_max_str_digits(0)   # exact EM iterates have long numerators

from harness.core import REPO, PropertyCheck, TieBroken
from harness.props import c17_tables, c17_source
from harness.util import Snapshot, close, cmp_rats, fr, frs, parse_rats, plist, pmat

# flag values: read from the C headers / .pyx dictionaries of the tree under test (c17_tables); the
# literal tables below are only the fall-back that keeps the module importable when the sources
# cannot be parsed (translators() then reports the broken tie)
OS_FLAGS = {"mean": 0, "median": 1, "student": 2, "laplace": 3, "tukey": 4, "sign": 5, "wilcoxon": 6,
            "elr": 7, "grubb": 8, "mean_mfx": 10, "median_mfx": 11, "student_mfx": 12, "sign_mfx": 15,
            "wilcoxon_mfx": 16, "elr_mfx": 17, "mean_gauss_mfx": 19}
TS_FLAGS = {"student": 2, "wilcoxon": 6, "student_mfx": 12}   # values of the C header (the .pyx enum values are ignored by Cython)
try:
    _TABLES = c17_tables.parse_all(REPO)
    _one, _two = c17_tables.flag_values(_TABLES)
    if set(_one) >= set(OS_FLAGS) and set(_two) >= set(TS_FLAGS):
        OS_FLAGS, TS_FLAGS = _one, _two
    _TABLES_ERR = None
except c17_tables.ParseError as _e:          # pragma: no cover
    _TABLES, _TABLES_ERR = None, str(_e)
KEY_NEG_AXIS = "pyx-negative-axis"
OS_RFX = ["mean", "median", "student", "laplace", "sign", "wilcoxon"]
OS_RFX_ALL = OS_RFX + ["tukey", "elr", "grubb"]
# cluster / region p-values of calibrate(): exercised in thorough only until
# proposed_fixes/C17-calibrate-cluster-region-pvalues.patch is applied (then set True)
CLUSTERS_IN_QUICK = True
# The null sample (`random_Tvalues`) of the permutation_test classes must consist of `ndraws` statistics
# of relabelled voxels.  Two configurations violate that on the tree as found: permutation_test_twosample
# with axis=1 splits the relabelled sample along the draws axis (n1 "draws" that are statistics of nothing),
# and every class computes the null sample of a mixed-effects statistic with the default niter=5 instead
# of the `niter` it was given.  The clause is checked for those configurations once
# proposed_fixes/C17-permutation-test-null-sample.patch is applied (then set True; VERIF_C17_ASSUME_FIXED=1
# turns it on for a run against a patched tree)
import os as _os
STRICT_NULL_DRAWS = True       # fix db051be is in /repo
# `_fff_onesample_median_mfx` ignores its baseline (the weighted median is returned as is, every other
# statistic - including the fixed-effects median and mean_mfx - is taken relative to `base`): the niter=0
# reduction to the median statistic and the base shift law are checked for median_mfx with base != 0 once
# proposed_fixes/C17-median-mfx-baseline.patch is applied (then set True)
STRICT_MEDIAN_MFX_BASE = True  # fix 7fc564d is in /repo
OS_MFX = ["mean_gauss_mfx", "student_mfx", "mean_mfx", "sign_mfx", "wilcoxon_mfx", "elr_mfx", "median_mfx"]


# ----------------------------------------------------------------------
# ctypes view of lib/fff (rebuilt from the tree under test)
# ----------------------------------------------------------------------
class _V(C.Structure):
    _fields_ = [("size", C.c_size_t), ("stride", C.c_size_t), ("data", C.POINTER(C.c_double)),
                ("owner", C.c_int)]


class _OSM(C.Structure):   # fff_onesample_stat_mfx
    _fields_ = [("flag", C.c_int), ("base", C.c_double), ("empirical", C.c_int), ("niter", C.c_uint),
                ("constraint", C.c_uint), ("params", C.c_void_p), ("compute", C.c_void_p)]


class _TSM(C.Structure):   # fff_twosample_stat_mfx
    _fields_ = [("n1", C.c_uint), ("n2", C.c_uint), ("flag", C.c_int), ("niter", C.c_uint),
                ("params", C.c_void_p), ("compute", C.c_void_p)]


class _M(C.Structure):   # fff_matrix
    _fields_ = [("size1", C.c_size_t), ("size2", C.c_size_t), ("tda", C.c_size_t),
                ("data", C.POINTER(C.c_double)), ("owner", C.c_int)]


class _EM(C.Structure):  # fff_glm_twolevel_EM
    _fields_ = [("n", C.c_size_t), ("p", C.c_size_t), ("b", C.POINTER(_V)), ("s2", C.c_double),
                ("z", C.POINTER(_V)), ("vz", C.POINTER(_V)), ("Qz", C.POINTER(_V)), ("niter", C.c_uint)]


_LIB = None


def _lib():
    global _LIB
    if _LIB is None:
        from harness import cshim
        L = cshim.load("fff")
        PV, PU = C.POINTER(_V), C.POINTER(C.c_uint)
        L.fff_onesample_permute_signs.argtypes = [PV, PV, C.c_double]
        L.fff_onesample_permute_signs.restype = None
        L.fff_permutation.argtypes = [PU, C.c_uint, C.c_ulong]
        L.fff_permutation.restype = None
        L.fff_combination.argtypes = [PU, C.c_uint, C.c_uint, C.c_ulong]
        L.fff_combination.restype = None
        L.fff_twosample_permutation.argtypes = [PU, PU, C.c_uint, C.c_uint, C.POINTER(C.c_double)]
        L.fff_twosample_permutation.restype = C.c_uint
        L.fff_twosample_apply_permutation.argtypes = [PV, PV, PV, PV, PV, PV, C.c_uint, PU, PU]
        L.fff_twosample_apply_permutation.restype = None
        L.fff_onesample_stat_new.argtypes = [C.c_uint, C.c_int, C.c_double]
        L.fff_onesample_stat_new.restype = C.c_void_p
        L.fff_onesample_stat_eval.argtypes = [C.c_void_p, PV]
        L.fff_onesample_stat_eval.restype = C.c_double
        L.fff_onesample_stat_delete.argtypes = [C.c_void_p]
        L.fff_onesample_stat_mfx_new.argtypes = [C.c_uint, C.c_int, C.c_double]
        L.fff_onesample_stat_mfx_new.restype = C.POINTER(_OSM)
        L.fff_onesample_stat_mfx_eval.argtypes = [C.POINTER(_OSM), PV, PV]
        L.fff_onesample_stat_mfx_eval.restype = C.c_double
        L.fff_onesample_stat_mfx_delete.argtypes = [C.POINTER(_OSM)]
        L.fff_onesample_stat_gmfx_pdf_fit.argtypes = [C.POINTER(C.c_double), C.POINTER(C.c_double),
                                                      C.POINTER(_OSM), PV, PV]
        L.fff_onesample_stat_gmfx_pdf_fit.restype = None
        L.fff_twosample_stat_new.argtypes = [C.c_uint, C.c_uint, C.c_int]
        L.fff_twosample_stat_new.restype = C.c_void_p
        L.fff_twosample_stat_eval.argtypes = [C.c_void_p, PV]
        L.fff_twosample_stat_eval.restype = C.c_double
        L.fff_twosample_stat_delete.argtypes = [C.c_void_p]
        L.fff_twosample_stat_mfx_new.argtypes = [C.c_uint, C.c_uint, C.c_int]
        L.fff_twosample_stat_mfx_new.restype = C.POINTER(_TSM)
        L.fff_twosample_stat_mfx_eval.argtypes = [C.POINTER(_TSM), PV, PV]
        L.fff_twosample_stat_mfx_eval.restype = C.c_double
        L.fff_twosample_stat_mfx_delete.argtypes = [C.POINTER(_TSM)]
        PM = C.POINTER(_M)
        L.fff_glm_twolevel_EM_new.argtypes = [C.c_size_t, C.c_size_t]
        L.fff_glm_twolevel_EM_new.restype = C.POINTER(_EM)
        L.fff_glm_twolevel_EM_init.argtypes = [C.POINTER(_EM)]
        L.fff_glm_twolevel_EM_init.restype = None
        L.fff_glm_twolevel_EM_run.argtypes = [C.POINTER(_EM), PV, PV, PM, PM, C.c_uint]
        L.fff_glm_twolevel_EM_run.restype = None
        L.fff_glm_twolevel_EM_delete.argtypes = [C.POINTER(_EM)]
        L.fff_glm_twolevel_EM_delete.restype = None
        _LIB = L
    return _LIB


def _vec(a):
    assert a.dtype == np.float64 and a.flags.c_contiguous
    return _V(a.size, 1, a.ctypes.data_as(C.POINTER(C.c_double)), 0)


def _mat(a):
    assert a.dtype == np.float64 and a.flags.c_contiguous and a.ndim == 2
    return _M(a.shape[0], a.shape[1], a.shape[1], a.ctypes.data_as(C.POINTER(C.c_double)), 0)


def c_glm2(X, P, y, vy, niter):
    """fff_glm_twolevel_EM_init + _run on design X (n x p) with projector P (p x n) -> (b, s2)"""
    X = np.ascontiguousarray(X, dtype=float); P = np.ascontiguousarray(P, dtype=float)
    y = np.ascontiguousarray(y, dtype=float); vy = np.ascontiguousarray(vy, dtype=float)
    L = _lib()
    em = L.fff_glm_twolevel_EM_new(X.shape[0], X.shape[1])
    L.fff_glm_twolevel_EM_init(em)
    mx, mp, a, b = _mat(X), _mat(P), _vec(y), _vec(vy)
    L.fff_glm_twolevel_EM_run(em, C.byref(a), C.byref(b), C.byref(mx), C.byref(mp), niter)
    bv = em.contents.b.contents
    out = [bv.data[i * bv.stride] for i in range(bv.size)], em.contents.s2
    L.fff_glm_twolevel_EM_delete(em)
    return out


class _TSP(C.Structure):  # fff_twosample_mfx (static in fff_twosample_stat.c)
    _fields_ = [("em", C.POINTER(_EM)), ("niter", C.POINTER(C.c_uint)), ("work", C.POINTER(_V)),
                ("X", C.POINTER(_M)), ("PX", C.POINTER(_M)), ("PPX", C.POINTER(_M))]


def c_tsdesign(n1, n2):
    """the matrices `_fff_twosample_mfx_assembly` stores in a freshly built two-sample MFX statistic"""
    L = _lib()
    s = L.fff_twosample_stat_mfx_new(n1, n2, TS_FLAGS["student_mfx"])
    par = C.cast(s.contents.params, C.POINTER(_TSP)).contents
    out = []
    for m in (par.X.contents, par.PX.contents, par.PPX.contents):
        out.append([[m.data[i * m.tda + j] for j in range(m.size2)] for i in range(m.size1)])
    L.fff_twosample_stat_mfx_delete(s)
    return out


def glm_ll(y, vy, X, b, s2):
    y = np.asarray(y, float); vy = np.asarray(vy, float)
    r = y - np.asarray(X, float) @ np.asarray(b, float)
    w = vy + s2
    return -0.5 * float(np.sum(np.log(w) + r * r / w))


def c_signs(x, magic):
    x = np.ascontiguousarray(x, dtype=float)
    xx = np.zeros_like(x)
    vx, vxx = _vec(x), _vec(xx)
    _lib().fff_onesample_permute_signs(C.byref(vxx), C.byref(vx), float(magic))
    return xx


def c_perm(n, magic):
    buf = (C.c_uint * max(n, 1))()
    _lib().fff_permutation(buf, n, magic)
    return list(buf)[:n]


def c_comb(k, n, magic):
    buf = (C.c_uint * max(k, 1))()
    _lib().fff_combination(buf, k, n, magic)
    return list(buf)[:k]


def c_tscount(n1, n2):
    m = C.c_double(0.0)
    _lib().fff_twosample_permutation(None, None, n1, n2, C.byref(m))
    return m.value


def c_tsperm(n1, n2, magic):
    """-> (nex, idx1, idx2, magic_after)"""
    i1 = (C.c_uint * max(n1, 1))()
    i2 = (C.c_uint * max(n2, 1))()
    m = C.c_double(float(magic))
    nex = _lib().fff_twosample_permutation(i1, i2, n1, n2, C.byref(m))
    return nex, list(i1)[:nex], list(i2)[:nex], m.value


def c_tsapply(x1, x2, magic, v1=None, v2=None):
    x1 = np.ascontiguousarray(x1, dtype=float); x2 = np.ascontiguousarray(x2, dtype=float)
    n1, n2 = x1.size, x2.size
    i1 = (C.c_uint * max(n1, 1))()
    i2 = (C.c_uint * max(n2, 1))()
    m = C.c_double(float(magic))
    nex = _lib().fff_twosample_permutation(i1, i2, n1, n2, C.byref(m))
    px = np.zeros(n1 + n2)
    a, b, p = _vec(x1), _vec(x2), _vec(px)
    if v1 is None:
        _lib().fff_twosample_apply_permutation(C.byref(p), None, C.byref(a), None, C.byref(b), None,
                                               nex, i1, i2)
        return px, None
    v1 = np.ascontiguousarray(v1, dtype=float); v2 = np.ascontiguousarray(v2, dtype=float)
    pv = np.zeros(n1 + n2)
    va, vb, vp = _vec(v1), _vec(v2), _vec(pv)
    _lib().fff_twosample_apply_permutation(C.byref(p), C.byref(vp), C.byref(a), C.byref(va), C.byref(b),
                                           C.byref(vb), nex, i1, i2)
    return px, pv


# A statistic object is re-used by the compiled glue for every voxel and every relabelling: what it returns must be
# a function of the data it is given, not of what it evaluated before.  Every wrapper below therefore evaluates the
# data twice: on a fresh object, and on a second object that has first been used on other data (the same block
# reversed and magnified); a difference is recorded here and turned into an oracle failure by `run_case`.
REUSE_MISMATCH = []


def _prime(a):
    a = np.asarray(a, dtype=float)
    return np.ascontiguousarray(a[::-1] * 1024.0 + 3.0)


def _same_float(a, b):
    return a == b or (a != a and b != b)


def c_os(stat, x, base):
    x = np.ascontiguousarray(x, dtype=float)
    L = _lib()
    s = L.fff_onesample_stat_new(x.size, OS_FLAGS[stat], float(base))
    v = _vec(x)
    t = L.fff_onesample_stat_eval(s, C.byref(v))
    L.fff_onesample_stat_delete(s)
    s = L.fff_onesample_stat_new(x.size, OS_FLAGS[stat], float(base))
    xp = _prime(x); vp = _vec(xp)
    L.fff_onesample_stat_eval(s, C.byref(vp))
    t2 = L.fff_onesample_stat_eval(s, C.byref(v))
    L.fff_onesample_stat_delete(s)
    if not _same_float(t, t2):
        REUSE_MISMATCH.append(f"fff_onesample_stat ({stat}, base={base}): {t!r} on a fresh object, {t2!r} on an object "
                              f"that had evaluated other data before (x={x.tolist()})")
    return t


def c_osmfx_empirical(stat, n):
    L = _lib()
    s = L.fff_onesample_stat_mfx_new(n, OS_FLAGS[stat], 0.0)
    e = int(s.contents.empirical)
    L.fff_onesample_stat_mfx_delete(s)
    return e


def c_osmfx(stat, x, var, base, niter):
    x = np.ascontiguousarray(x, dtype=float); var = np.ascontiguousarray(var, dtype=float)
    L = _lib()
    s = L.fff_onesample_stat_mfx_new(x.size, OS_FLAGS[stat], float(base))
    s.contents.niter = niter
    vx, vv = _vec(x), _vec(var)
    t = L.fff_onesample_stat_mfx_eval(s, C.byref(vx), C.byref(vv))
    L.fff_onesample_stat_mfx_delete(s)
    s = L.fff_onesample_stat_mfx_new(x.size, OS_FLAGS[stat], float(base))
    s.contents.niter = niter
    xp, vp = _prime(x), np.ascontiguousarray(var[::-1] * 4.0 + 0.5)
    wx, wv = _vec(xp), _vec(vp)
    L.fff_onesample_stat_mfx_eval(s, C.byref(wx), C.byref(wv))
    t2 = L.fff_onesample_stat_mfx_eval(s, C.byref(vx), C.byref(vv))
    L.fff_onesample_stat_mfx_delete(s)
    if not _same_float(t, t2):
        REUSE_MISMATCH.append(f"fff_onesample_stat_mfx ({stat}, base={base}, niter={niter}): {t!r} on a fresh object, "
                              f"{t2!r} on an object that had evaluated other data before (x={x.tolist()}, "
                              f"var={var.tolist()})")
    return t


def c_gmfx_fit(x, var, niter, constraint):
    x = np.ascontiguousarray(x, dtype=float); var = np.ascontiguousarray(var, dtype=float)
    L = _lib()
    s = L.fff_onesample_stat_mfx_new(x.size, OS_FLAGS["student_mfx"], 0.0)
    s.contents.niter = niter
    s.contents.constraint = constraint
    mu, v = C.c_double(0.0), C.c_double(0.0)
    vx, vv = _vec(x), _vec(var)
    L.fff_onesample_stat_gmfx_pdf_fit(C.byref(mu), C.byref(v), s, C.byref(vx), C.byref(vv))
    L.fff_onesample_stat_mfx_delete(s)
    return mu.value, v.value


def c_ts(stat, px, n1):
    px = np.ascontiguousarray(px, dtype=float)
    L = _lib()
    s = L.fff_twosample_stat_new(n1, px.size - n1, TS_FLAGS[stat])
    v = _vec(px)
    t = L.fff_twosample_stat_eval(s, C.byref(v))
    L.fff_twosample_stat_delete(s)
    s = L.fff_twosample_stat_new(n1, px.size - n1, TS_FLAGS[stat])
    pp = _prime(px); vp = _vec(pp)
    L.fff_twosample_stat_eval(s, C.byref(vp))
    t2 = L.fff_twosample_stat_eval(s, C.byref(v))
    L.fff_twosample_stat_delete(s)
    if not _same_float(t, t2):
        REUSE_MISMATCH.append(f"fff_twosample_stat ({stat}, n1={n1}): {t!r} on a fresh object, {t2!r} on an object that "
                              f"had evaluated other data before (x={px.tolist()})")
    return t


def c_tsmfx(px, pv, n1, niter):
    px = np.ascontiguousarray(px, dtype=float); pv = np.ascontiguousarray(pv, dtype=float)
    L = _lib()
    s = L.fff_twosample_stat_mfx_new(n1, px.size - n1, TS_FLAGS["student_mfx"])
    s.contents.niter = niter
    a, b = _vec(px), _vec(pv)
    t = L.fff_twosample_stat_mfx_eval(s, C.byref(a), C.byref(b))
    L.fff_twosample_stat_mfx_delete(s)
    s = L.fff_twosample_stat_mfx_new(n1, px.size - n1, TS_FLAGS["student_mfx"])
    s.contents.niter = niter
    pp, pq = _prime(px), np.ascontiguousarray(pv[::-1] * 4.0 + 0.5)
    wa, wb = _vec(pp), _vec(pq)
    L.fff_twosample_stat_mfx_eval(s, C.byref(wa), C.byref(wb))
    t2 = L.fff_twosample_stat_mfx_eval(s, C.byref(a), C.byref(b))
    L.fff_twosample_stat_mfx_delete(s)
    if not _same_float(t, t2):
        REUSE_MISMATCH.append(f"fff_twosample_stat_mfx (n1={n1}, niter={niter}): {t!r} on a fresh object, {t2!r} on an "
                              f"object that had evaluated other data before (x={px.tolist()}, var={pv.tolist()})")
    return t


# ----------------------------------------------------------------------
# independent definitions (exact)
# ----------------------------------------------------------------------
def sgn(q):
    return int(q > 0) - int(q < 0)


def bits(n, magic):
    return [(magic >> i) & 1 for i in range(n)]


def flip(x, magic):
    return [-v if b else v for v, b in zip(x, bits(len(x), magic))]


def d_mean(x, base):
    return sum(x, F(0)) / len(x) - base


def d_median(x, base):
    s = sorted(x); n = len(s)
    return (s[n // 2] if n % 2 else (s[n // 2 - 1] + s[n // 2]) / 2) - base


def d_sign(x, base):
    return F(sum(sgn(v - base) for v in x), len(x))


def d_wilcoxon_range(x, base):
    """signed-rank sum / n^2; ranks of tied |residuals| are assigned in input order by the
    library (stable sort); returns (library value, min over tie orders, max over tie orders)"""
    r = [v - base for v in x]
    n = len(r)
    order = sorted(range(n), key=lambda i: abs(r[i]))          # stable
    lib = sum((k + 1) * sgn(r[i]) for k, i in enumerate(order))
    lo = hi = 0
    k = 0
    while k < n:
        j = k
        while j < n and abs(r[order[j]]) == abs(r[order[k]]):
            j += 1
        sg = sorted(sgn(r[order[t]]) for t in range(k, j))
        ranks = list(range(k + 1, j + 1))
        lo += sum(a * b for a, b in zip(ranks, sorted(sg, reverse=True)))
        hi += sum(a * b for a, b in zip(ranks, sg))
        k = j
    return F(lib, n * n), F(lo, n * n), F(hi, n * n)


def d_student(x, base):
    n = len(x)
    m = sum(x, F(0)) / n
    var = sum((v - m) ** 2 for v in x) / n
    d = m - base
    if d == 0:
        return 0.0
    if var == 0:
        return math.inf * sgn(d)
    return sgn(d) * math.sqrt((n - 1) * d * d / var)


def d_laplace(x, base):
    n = len(x)
    med = d_median(x, F(0))
    s = sum(abs(v - med) for v in x) / n
    s0 = max(sum(abs(v - base) for v in x) / n, s)
    sg = sgn(med - base)
    if sg == 0:
        return 0.0
    if s == 0:
        return None
    return sg * math.sqrt(2 * n * math.log(float(s0 / s)))


def d_tukey(x, base):
    n = len(x)
    med = d_median(x, F(0))
    s = d_median([abs(v - med) for v in x], F(0))
    s0 = max(d_median([abs(v - base) for v in x], F(0)), s)
    sg = sgn(med - base)
    if sg == 0:
        return 0.0
    if s == 0:
        return sg * math.inf
    return sg * math.sqrt(2 * n * math.log(float(s0 / s)))


def d_grubb(x):
    n = len(x)
    m = sum(x, F(0)) / n
    var = sum((v - m) ** 2 for v in x) / n
    if var == 0:
        return 0.0
    return math.sqrt(float(max((v - m) ** 2 for v in x) / var))


def d_elr(x, base):
    """empirical likelihood ratio for the mean: sign * sqrt(2 sum log(1 + lam r_i)), lam the root of
    sum r_i / (1 + lam r_i) = 0 in (-1/max r, -1/min r) (independent bisection)"""
    r = [float(v - base) for v in x]
    sg = sgn(sum(x, F(0)) / len(x) - base)
    if sg == 0:
        return 0.0
    if not (any(v > 0 for v in r) and any(v < 0 for v in r)):
        return sg * math.inf
    lo, hi = -1.0 / max(r), -1.0 / min(r)
    g = lambda lam: sum(v / (1.0 + lam * v) for v in r)       # decreasing in lam
    a, b = lo, hi
    for _ in range(200):
        mid = 0.5 * (a + b)
        if g(mid) > 0:
            a = mid
        else:
            b = mid
    lam = 0.5 * (a + b)
    return sg * math.sqrt(max(0.0, 2.0 * sum(math.log(1.0 + lam * v) for v in r)))


def d_ts_student(x1, x2):
    n1, n2 = len(x1), len(x2)
    m1 = sum(x1, F(0)) / n1; m2 = sum(x2, F(0)) / n2
    ss = sum((v - m1) ** 2 for v in x1) + sum((v - m2) ** 2 for v in x2)
    df = max(n1 + n2 - 2, 1)
    if ss == 0:
        return None
    return sgn(m1 - m2) * math.sqrt((m1 - m2) ** 2 / (ss / df))


def d_ts_wilcoxon(x1, x2):
    return sum(F(sum(sgn(a - b) for b in x2), len(x2)) for a in x1)


def gmfx_em(x, var, niter, mean0=None):
    """float reference of the Gaussian two-level EM; mean0 fixes the mean (null model)"""
    x = np.asarray(x, float); var = np.asarray(var, float)
    if mean0 is None:
        m = x.mean(); v = ((x - m) ** 2).mean()
    else:
        m = mean0; v = ((x - m) ** 2).mean()
    for _ in range(niter):
        a = 1.0 / (var + v)
        mi = (v * x + var * m) * a
        vi = a * var * v
        if mean0 is None:
            m1 = mi.mean()
        else:
            m1 = m
        v = (vi + mi ** 2).mean() - 2 * m1 * mi.mean() + m1 ** 2 if mean0 is not None else (vi + mi ** 2).mean() - m1 ** 2
        m = m1
    return m, v


def gmfx_nll(x, var, m, v):
    x = np.asarray(x, float); var = np.asarray(var, float)
    s = var + v
    return 0.5 * float(np.sum(np.log(s) + (x - m) ** 2 / s))


def _dy(rng, lo=-8, hi=8, den=4):
    return rng.randrange(lo * den, hi * den + 1) / den


def _sample(rng, n):
    """dyadic sample with ties / zeros / equal magnitudes of opposite sign on purpose"""
    mode = rng.random()
    if mode < 0.25:
        pool = [_dy(rng) for _ in range(max(2, n // 2))]
        x = [rng.choice(pool) * rng.choice([1, 1, -1]) for _ in range(n)]
    elif mode < 0.35:
        x = [float(rng.choice([-2, -1, 0, 0, 1, 2])) for _ in range(n)]
    else:
        x = [_dy(rng) for _ in range(n)]
    if len(set(x)) == 1:
        x[0] += 1.0
    return x


def _size(rng):
    return rng.choice([2, 2, 3, 3, 4, 5, 6, 7, 8, 10, 12, 16, 23, 31, 40])


def _var(rng, n):
    return [rng.choice([0.0, 0.25, 0.5, 1.0, 2.0, 4.0, 0.125]) for _ in range(n)]


# line kinds that have a twin built from the regenerated source terms (`src` + kind, Model/C17Src.lean)
SRC_MIRROR = {"pvalc", "hthresh", "gmfx", "mem", "varatio"}


class C17(PropertyCheck):
    id = "C17"
    title = "Group statistics equal their definitions; permutations enumerate exactly"
    lean_modules = ["NipyVerif.Props.C17", "NipyVerif.Props.C17B", "NipyVerif.Props.C17C", "NipyVerif.Props.C17D", "NipyVerif.Props.C17E", "NipyVerif.Props.C17Source"]
    driver = "Drivers/C17.lean"
    rule = ("cases are (kind, sizes, dyadic data, baseline, magic numbers) from a seeded PRNG plus the "
            "exhaustive enumerations the property names (all sign patterns n<=10, all two-group splits "
            "n1+n2<=10, all permutations n<=6/7, all combinations n<=10) in thorough; every flag of both "
            "statistic enums (dispatched by numeric value), N-d arrays of every layout along every axis, "
            "general second-level designs, permutation tests with cluster / region / graph / diameter options; "
            "non-trivial = at least 3 subjects or a non-zero magic number; distinct by full JSON of the case")
    assumptions = [
        "sqrt/log at the end of Student, Laplace, Tukey, Grubb and the Gaussian likelihood-ratio statistics are "
        "outside the model: the model gives the sign and the last rational quantities (square, scale pair, exact EM "
        "fits), the harness finishes the value numerically and compares at 1e-9 (1e-7 for likelihood ratios)",
        "empirical likelihood ratio (elr): the model gives the sign and whether the statistic is 0 / infinite / finite "
        "(theorems osElr_odd, osElr_shift); the finite value (Newton root of the Lagrange multiplier, then log) is "
        "oracle-only, against an independent bisection root at 1e-6",
        "magic numbers are modelled as naturals; the C code carries them in double / unsigned long, exact "
        "below 2^53 / 2^64 (theorems carry k <= n and range hypotheses; boundary magic numbers 2^31..2^40 are "
        "probed on the real code by the oracle)",
        "glibc qsort on the small arrays used is a stable merge sort: ties of |residual| in the Wilcoxon "
        "statistic are ranked in input order (the oracle additionally accepts nothing outside the range "
        "spanned by all tie orders)",
        "empirical (non-Gaussian) mixed-effects EM statistics (exp/log inside the loop: mean_mfx, median_mfx, sign_mfx, "
        "wilcoxon_mfx, elr_mfx) are checked by the oracle only: niter=0 reductions to the fixed-effects definitions, "
        "antisymmetry, base shift law, sign; the model covers their constructor dispatch and `empirical` field",
        "the pseudo-inverse of a general second-level design (np.linalg.pinv) is a parameter of the model: the matrix "
        "the implementation computed is handed over (the oracle certifies P X = I); for the two-sample design the "
        "projectors are explicit rationals and proved to be a left inverse (tsPX_left_inverse)",
        "theorems about EM steps carry non-degeneracy hypotheses (s_i + v != 0, v != 0; satisfied by positive variances, "
        "examples given); convergence / monotone likelihood of the iterations is not proved (oracle: signs, symmetries)",
        "np.random draws inside permutation_test are inputs: the null sample and the relabellings calibrate draws are "
        "handed to the model; cluster labels (connected components, C11/C12) are inputs of the counting model as the "
        "implementation's own functions computed them; inside calibrate the Fisher values are inputs too, but "
        "compute_cluster_stats / compute_region_stat themselves are now modelled (pseudo p-values and the -sum(log p) "
        "statement regenerated from the source, `log` a leaf finished numerically at 1e-9; theorems fisher_nonneg_from_source, "
        "fisher_mono_from_source under `log <= 0 on (0, 1]`)",
        "source tie (Gen/C17Source.lean): numeric library calls are named leaves of the regenerated terms - `sqrt` (hypothesis "
        "sqrt a * sqrt a = a for a >= 0 where a theorem needs it), `log`, `norm.isf`; NumPy broadcasting is read for ONE column "
        "(vectors over subjects, `_stretch` / `np.multiply.outer(ones, .)` = broadcast of a per-column value); the C statements "
        "are read through the C-expression reader of C20 with `*buf` pointers renamed to the current sample and doubles as exact "
        "rationals; loop headers / pointer bookkeeping are matched as text (a changed shape is TieBroken, not a silent pass); "
        "`Sreduction` of estimate_varatio is the decimal 0.99 in the regenerated term and the double 0.99 in the hand-written "
        "line (compared at 1e-8); height_threshold_from_source holds for levels pval <= 1",
        "np.argsort inside the corrected region p-values is modelled as a stable sort (theorem region_corr_p_in_unit only "
        "uses rank >= #smaller, true of every argsort); on ties the corrected values are not compared",
        "the compiled Cython glue (.pyx) cannot be rebuilt here: Python-level stat()/permutations() "
        "observations come from the installed extension linked against the pinned lib/fff; the flag enums, "
        "constructor dispatch and id dictionaries are re-read from the C / .pyx text by the translator",
    ]
    level_note = ("proved for all sizes: fff_permutation / fff_combination / two-sample relabelling are bijections onto "
                  "permutations / k-subsets / n1-subsets with magic 0 = identity (C17B); every rational one- and two-sample "
                  "statistic: textbook form, antisymmetry, base shift law, axis independence, flag tables (C17C); every "
                  "p-value kind of permutation_test in (0, 1], identity relabelling reproduces the observed statistic, "
                  "height threshold (C17D); Gaussian EM step closed form / fixed point <=> score equations / oddness, "
                  "E-step forms agree, two-sample projectors (C17E); source tie (C17Source, 51 theorems): the bodies of "
                  "pvalue, height_threshold (whole body), every p-value expression and counting comparison of calibrate, the "
                  "pseudo p-values / Fisher statements of compute_cluster_stats / compute_region_stat (non-negative, monotone), "
                  "the zscore clip, MixedEffectsModel._one_step / fit (= memStep / memFit), mfx_stat (contrast mask, F >= 0, t "
                  "odd), t_stat, estimate_varatio (whole function: no iterate outside the model any more) and estimate_mean, the "
                  "FFF_* macros, _fff_onesample_mean / student / sign_stat / laplace / tukey, the loop of _fff_onesample_gmfx_EM "
                  "(= gmfxEM, both constraint modes), _fff_twosample_student / wilcoxon / student_mfx tail are regenerated from "
                  "the text and proved to be what the model implements. Hypotheses: non-degenerate variances in EM-step "
                  "theorems; sorted null sample for the height threshold. Oracle only: sqrt/log tails, elr finite value, "
                  "empirical-likelihood EM statistics, likelihood monotonicity, median / Wilcoxon signed-rank / elr / grubb "
                  "bodies are hand-written models (compared, not regenerated), sorted_values / max_dist / peak_XYZ against "
                  "harness definitions, diameter-constrained clusters (experimental, may raise on plateaus). Gated until the "
                  "proposed fixes are applied: null-sample validity for two-sample axis=1 / mfx niter != 5, median_mfx "
                  "baseline, negative axis in the .pyx glue (known-finding key pyx-negative-axis)")
    finding_keys = {KEY_NEG_AXIS: "labs.group.onesample/twosample stat(..., axis=-k): a negative axis is neither refused "
                                  "nor normalised; n is read from the C shape pointer at a negative offset and the result "
                                  "is garbage (onesample.pyx / twosample.pyx: `n = <unsigned int>Y.shape[axis]`)"}

    # ------------------------------------------------------------------
    def translators(self):
        """flag enums, constructor dispatch tables and the .pyx id dictionaries -> Gen/C17Tables.lean"""
        try:
            t = c17_tables.parse_all(REPO)
        except c17_tables.ParseError as e:
            raise TieBroken(f"C17 tables: {e}")
        one, two = c17_tables.flag_values(t)
        if not (set(one) >= set(OS_RFX_ALL + OS_MFX) and set(two) >= {"student", "wilcoxon", "student_mfx"}):
            raise TieBroken("C17 tables: a statistic id of the property is no longer in the stats dictionaries")
        from harness import cshim
        cshim.build("fff")       # once, in the parent: workers then only dlopen the cached library
        try:
            src = c17_source.lean_text(REPO)
        except c17_source.SourceError as e:
            raise TieBroken(f"C17 source expressions: {e}")
        return [("NipyVerif/Gen/C17Tables.lean", c17_tables.lean_text(t)),
                ("NipyVerif/Gen/C17Source.lean", src)]

    # ------------------------------------------------------------------
    def generate(self, rng, tier):
        q = tier == "quick"
        cases = []
        n_rel, n_os, n_mfx, n_ts, n_py, n_pt = (120, 600, 300, 400, 120, 48) if q else (2000, 20000, 8000, 12000, 2500, 1000)
        # seeded relabellings, random probes
        for _ in range(n_rel):
            n = _size(rng)
            cases.append({"kind": "signs", "n": n,
                          "magics": sorted({0, (1 << n) - 1, rng.randrange(1 << n), rng.randrange(1 << n),
                                            1 << (n - 1), rng.randrange(1 << min(n, 8))})})
            n = rng.choice([1, 2, 3, 4, 5, 6, 8, 10, 12, 15, 20])
            fac = math.factorial(n)
            cases.append({"kind": "perm", "n": n,
                          "magics": sorted({0, fac - 1, rng.randrange(fac), rng.randrange(fac),
                                            rng.randrange(min(fac, 5000))})})
            n = rng.choice([1, 2, 3, 4, 5, 6, 8, 10, 13, 20, 30, 40])
            k = rng.randrange(0, n + 1)
            cnk = math.comb(n, k)
            cases.append({"kind": "comb", "n": n, "k": k,
                          "magics": sorted({0, cnk - 1, rng.randrange(cnk), rng.randrange(cnk)})})
            n1 = rng.choice([1, 2, 3, 4, 5, 6, 8, 11, 15, 20]); n2 = rng.choice([1, 2, 3, 4, 5, 7, 9, 12, 20])
            tot = math.comb(n1 + n2, n1)
            cases.append({"kind": "tsperm", "n1": n1, "n2": n2,
                          "magics": sorted({0, 1, tot - 1, tot, rng.randrange(tot), rng.randrange(tot),
                                            rng.randrange(min(tot, 300))})})
        # boundary magic numbers for large samples (property: sample sizes up to 40)
        for n in ([31, 32, 33, 40] if q else range(28, 41)):
            ms = {0, (1 << n) - 1, 1 << (n - 1), (1 << (n - 1)) + 1}
            for e in (30, 31, 32, 33):
                if e < n:
                    ms |= {1 << e, (1 << e) + 1, (1 << e) + (1 << (e - 1))}
            cases.append({"kind": "signs", "n": n, "magics": sorted(ms)})
        # exhaustive enumerations
        for n in (range(1, 9) if q else range(1, 11)):
            cases.append({"kind": "signs_all", "n": n})
        for n in (range(1, 6) if q else range(1, 8)):
            cases.append({"kind": "perm_all", "n": n})
        for n in (range(1, 8) if q else range(1, 11)):
            for k in range(0, n + 1):
                cases.append({"kind": "comb_all", "n": n, "k": k})
        lim = 8 if q else 10
        for n1 in range(1, lim):
            for n2 in range(1, lim - n1 + 1):
                cases.append({"kind": "ts_all", "n1": n1, "n2": n2})
        # one-sample statistics (C level)
        for _ in range(n_os):
            n = _size(rng)
            x = _sample(rng, n)
            base = rng.choice([0.0, 0.0, 0.0, 1.0, -0.5, 2.25, x[0], float(np.median(x))])
            cases.append({"kind": "os", "stat": rng.choice(OS_RFX_ALL), "x": x, "base": base,
                          "magic": rng.choice([0, 0, rng.randrange(1 << n), (1 << n) - 1])})
        for _ in range(n_mfx):
            n = rng.choice([2, 3, 4, 5, 6, 8, 12, 20])
            x = _sample(rng, n)
            cases.append({"kind": "osmfx", "stat": rng.choice(OS_MFX), "x": x, "var": _var(rng, n),
                          "base": rng.choice([0.0, 0.0, 0.0, 1.0, -0.5, 2.25]),
                          "niter": rng.choice([0, 0, 1, 2, 3, 5])})
        # two-sample statistics
        for _ in range(n_ts):
            n1 = rng.choice([1, 2, 3, 4, 5, 7, 10, 20]); n2 = rng.choice([1, 2, 3, 4, 6, 9, 20])
            if n1 + n2 < 3:
                n2 += 1
            x = _sample(rng, n1 + n2)
            tot = math.comb(n1 + n2, n1)
            cases.append({"kind": "ts", "stat": rng.choice(["student", "wilcoxon", "wilcoxon", "student", "student_mfx"]),
                          "x1": x[:n1], "x2": x[n1:], "v1": _var(rng, n1), "v2": _var(rng, n2),
                          "niter": rng.choice([0, 1, 3, 5]),
                          "magic": rng.choice([0, 0, rng.randrange(tot), tot - 1])})
        # Python level: compiled glue (axis, Magics), routines, estimate_mean, MixedEffectsModel
        for _ in range(n_py):
            n = rng.choice([2, 3, 4, 5, 8, 12])
            shape = rng.choice([(n,), (n, 3), (2, n), (2, n, 3), (n, 1, 2)])
            axis = [i for i, s in enumerate(shape) if s == n][0] if n in shape else 0
            cases.append({"kind": "pyaxis", "stat": rng.choice(["mean", "median", "student", "sign", "wilcoxon", "laplace"]),
                          "shape": list(shape), "axis": axis, "seed": rng.randrange(10 ** 6),
                          "base": rng.choice([0.0, 0.0, 1.0, -0.5]),
                          "magics": [rng.randrange(1 << n) for _ in range(rng.choice([1, 2, 3]))],
                          "two": rng.random() < 0.4, "n2": rng.choice([2, 3, 4])})
            n = rng.choice([2, 3, 4, 5, 8, 12])
            cases.append({"kind": "pymfx", "y": _sample(rng, n),
                          "sd": [rng.choice([0.5, 1.0, 2.0, 0.25, 4.0]) for _ in range(n)],
                          "zero_sd": rng.random() < 0.15, "niter": rng.choice([0, 1, 2, 3]),
                          "seed": rng.randrange(10 ** 6)})
            n = rng.choice([1, 2, 3, 4, 5, 6, 9]); k = rng.randrange(0, n + 1)
            cases.append({"kind": "pyperm", "n": n, "k": k, "m": rng.choice([1, 2, 5]),
                          "magic": rng.randrange(0, 5000)})
        # statistic along an axis of an N-d array, every entry against the model (all RFX flags).
        # A negative axis (NumPy convention) is neither refused nor honoured by the compiled glue
        # (`Y.shape[axis]` on the C shape pointer): cases with one are generated once the finding
        # `pyx-negative-axis` is listed in known_findings.json (the .pyx cannot be rebuilt here).
        # (The defect is repaired in lib/fff_python_wrapper/fffpy.c - see known_findings.json, property C20 - and is
        # checked there on the C re-compiled from the tree.  The installed extension modules are stale: running a
        # negative axis through them corrupts the heap of the worker process, so no such case is generated here.)
        neg_ok = False
        for _ in range(150 if q else 1500):
            n = rng.choice([2, 3, 3, 4, 5, 6, 8])
            nd = rng.choice([1, 2, 2, 3, 3, 4])
            shape = [rng.choice([1, 2, 3]) for _ in range(nd)]
            axis = rng.randrange(nd)
            shape[axis] = n
            two = rng.random() < 0.35
            n2 = rng.choice([1, 2, 3, 4])
            tot = math.comb(n + n2, n)
            cases.append({"kind": "axis", "shape": shape, "axis": axis, "seed": rng.randrange(10 ** 6),
                          "stat": rng.choice(["student", "wilcoxon"]) if two else rng.choice(OS_RFX_ALL),
                          "base": rng.choice([0.0, 0.0, 1.0, -0.5, 2.25]),
                          "layout": rng.choice(["C", "C", "F", "T"]), "neg_axis": (rng.random() < 0.2) and neg_ok,
                          "two": two, "n2": n2,
                          "magics": ([rng.randrange(tot + 2) for _ in range(rng.choice([1, 2, 3]))] if two else
                                     [rng.randrange(1 << n) for _ in range(rng.choice([1, 2, 3]))])
                                    if rng.random() < 0.85 else None})
        # permutation tests
        for _ in range(n_pt):
            n = rng.choice([2, 2, 3, 3, 4, 5])
            cases.append({"kind": "ptest", "n": n, "p": rng.choice([2, 3, 4]), "seed": rng.randrange(10 ** 6),
                          "stat": rng.choice(["student", "mean", "wilcoxon", "sign"]),
                          "ndraws": rng.choice([4, 8, 16, 50]), "shift": rng.choice([0.0, 1.0, 3.0]),
                          "nperms": rng.choice([None, None, 3, 1000]),
                          "two": rng.random() < 0.35, "n2": rng.choice([2, 3])})
        # ---- optional / rarely used arguments of every named routine --------------------------
        n_va, n_ms, n_ax, n_po = (150, 120, 90, 90) if q else (2500, 2000, 1500, 600)
        for _ in range(n_va):
            n = rng.choice([2, 3, 4, 5, 6, 8, 12, 20, 40]); p = rng.choice([1, 1, 2, 3])
            cases.append({"kind": "varatio", "n": n, "p": p, "seed": rng.randrange(10 ** 6),
                          "df": rng.choice(["none", "ones", "const", "const", "rand", "rand", "rand", "unit-sum"]),
                          "niter": rng.choice([0, 1, 2, 3, 3, 10]), "default_niter": rng.random() < 0.15,
                          "scalar_sd": rng.random() < 0.15})
        for _ in range(n_ms):
            n = rng.choice([4, 5, 6, 8, 12]); p = rng.choice([1, 2, 3])
            cases.append({"kind": "mfxstat", "n": n, "p": p, "seed": rng.randrange(10 ** 6),
                          "design": rng.choice(["ones", "group", "group", "group+cov"]),
                          "column": rng.choice([0, 1, 1, 2]), "niter": rng.choice([0, 1, 2, 5, 8]),
                          "default_niter": rng.random() < 0.15})
        for _ in range(80 if q else 1500):
            n = rng.choice([3, 4, 4, 5, 6, 8, 8, 12])
            pp = rng.choice([1, 1, 2, 3])
            # (niter=0 asks for no fit at all: two_level_glm then returns (0, inf) for one column and
            #  fails to reshape its scalar inf for several; only the one-column form is exercised)
            cases.append({"kind": "vbglm", "n": n, "p": pp, "seed": rng.randrange(10 ** 6),
                          # "origin" / "group+cov0": the constant is NOT in the column space (residuals do not sum to 0)
                          "design": (rng.choice(["ones", "group", "group", "group+cov", "origin", "group+cov0"])
                                     if n >= 4 else rng.choice(["ones", "origin"])),
                          "n1": rng.randrange(1, n),
                          "niter": rng.choice([0, 1, 1, 2, 2, 5, 10] if pp == 1 else [1, 1, 2, 2, 5, 10])})
        for _ in range(n_ax):
            n = rng.choice([2, 3, 4, 5, 8])
            shape = rng.choice([(n,), (n, 3), (2, n), (2, n, 3), (n, 1, 2)])
            axis = [i for i, s_ in enumerate(shape) if s_ == n][0]
            cases.append({"kind": "pymfxaxis", "shape": list(shape), "axis": axis, "seed": rng.randrange(10 ** 6),
                          "stat": rng.choice(OS_MFX), "base": rng.choice([0.0, 0.0, 1.0, -0.5]),
                          "niter": rng.choice([0, 1, 2, 5]), "default_niter": rng.random() < 0.2,
                          "magics": [rng.randrange(1 << n) for _ in range(rng.choice([1, 2]))],
                          "constraint": rng.choice([0, 0, 1]), "two": rng.random() < 0.3, "n2": rng.choice([2, 3, 4])})
        for _ in range(n_po):
            n = rng.choice([2, 3, 3, 4, 5])
            mfx = rng.random() < 0.4
            cases.append({"kind": "ptopt", "n": n, "p": rng.choice([2, 3, 4, 5]), "seed": rng.randrange(10 ** 6),
                          "stat": rng.choice(["mean_gauss_mfx", "sign_mfx", "mean_mfx", "student_mfx"]) if mfx
                          else rng.choice(["student", "mean", "wilcoxon", "sign", "median", "laplace"]),
                          "mfx": mfx, "base": rng.choice([0.0, 0.0, 0.5, -1.0]), "axis": rng.choice([0, 1]),
                          "niter": rng.choice([0, 1, 3, 5]), "ndraws": rng.choice([8, 16, 50]),
                          "shift": rng.choice([0.0, 1.0, 3.0]), "nperms": rng.choice([None, None, 5]),
                          "two": rng.random() < 0.35, "n2": rng.choice([2, 3]),
                          "clusters": (CLUSTERS_IN_QUICK or not q) and rng.random() < 0.5,
                          "graph": rng.random() < 0.2, "diam": rng.choice([None, None, 1, 2])})
        # ---- wave 5: Fisher statistics of clusters / regions called directly (the pseudo p-values and the
        # `-sum(log p)` statement are regenerated from the source): the same numbers as float64 / float32 / integer
        # statistic maps, null samples with ties, statistic values beyond both ends of the null sample, voxels
        # without label, empty clusters / regions, one voxel, every `cluster_stats` selection
        for _ in range(120 if q else 2500):
            cases.append({"kind": "fisher", "p": rng.choice([1, 2, 3, 5, 8, 13]), "ndraws": rng.choice([1, 2, 3, 8, 20, 64]),
                          "seed": rng.randrange(10 ** 6), "dtype": rng.choice(["f8", "f8", "f4", "i8", "i1", "i4"]),
                          "labels": rng.choice(["none", "one", "some", "some", "all-distinct"]),
                          "stats": rng.choice([["size", "Fisher"], ["size", "Fisher"], ["Fisher"], ["size"]]),
                          "layout": rng.choice(["C", "strided", "readonly"])})
        return cases

    # ------------------------------------------------------------------
    def _fisher(self, c):
        from nipy.labs.group import permutation_test as pt
        r = np.random.RandomState(c["seed"])
        p, nd = c["p"], c["ndraws"]
        draws = np.sort(r.randint(-8, 9, nd) / 4.0)
        if c["dtype"].startswith("i"):
            T = r.randint(-3, 4, p).astype(c["dtype"])
        else:
            T = (r.randint(-10, 11, p) / 4.0).astype(c["dtype"])
        if c["layout"] == "strided":
            buf = np.zeros(2 * p, T.dtype); buf[::2] = T; T = buf[::2]
        elif c["layout"] == "readonly":
            T.setflags(write=False); draws.setflags(write=False)
        k = {"none": 0, "one": 1, "some": max(1, p // 2), "all-distinct": p}[c["labels"]]
        if k == 0:
            labels = -np.ones(p, int)
        elif c["labels"] == "all-distinct":
            labels = r.permutation(p)
        else:
            labels = r.randint(-1, k, p)
            labels[r.randint(p)] = k - 1            # max(labels) + 1 == k
        label_values = sorted(set(int(v) for v in labels if v >= 0)) + [k + 1]      # the last region is empty
        snap = Snapshot(T=T, labels=labels, draws=draws)
        size, fisher = pt.compute_cluster_stats(T, labels, draws, list(c["stats"]))
        rf = pt.compute_region_stat(T, labels, np.array(label_values), draws)
        mut = snap.changed()
        lines, impl, fail = [], [], None
        Tl = [float(v) for v in T]
        lines.append(f"srcfisher {plist(Tl)} {plist(draws.tolist())}")
        impl.append(("fisher", labels.tolist(), label_values, None if fisher is None else np.asarray(fisher, float).tolist(),
                     np.asarray(rf, float).tolist()))
        if size is not None:
            lines.append(f"csize {len(labels)} {' '.join(str(int(v)) for v in labels)}" if len(labels) else "csize 0")
            impl.append(("rats", [float(v) for v in np.asarray(size)]))
        if ("size" in c["stats"]) != (size is not None) or ("Fisher" in c["stats"]) != (fisher is not None):
            fail = f"compute_cluster_stats(cluster_stats={c['stats']}) returned size={size!r} Fisher={fisher!r}"
        allf = list(np.asarray(rf, float)) + ([] if fisher is None else list(np.asarray(fisher, float)))
        if fail is None and not all(math.isfinite(v) and v >= 0 for v in allf):
            fail = (f"a Fisher statistic is negative or not finite: clusters {fisher!r}, regions {rf!r} "
                    f"(T={Tl}, labels={labels.tolist()}, draws={draws.tolist()})")
        if fail is None and fisher is not None and k > 0:
            # a region made of the voxels of cluster i has the Fisher value of cluster i
            for j, lv in enumerate(label_values[:-1]):
                if not close(float(rf[j]), float(np.asarray(fisher, float)[lv]), 1e-12, 1e-12):
                    fail = f"region {lv}: Fisher {rf[j]!r} but the cluster of the same voxels has {fisher[lv]!r}"
                    break
        # small helpers of the same module, against their definitions (oracle only)
        XYZ = r.randint(0, 5, (3, p))
        snap2 = Snapshot(XYZ=XYZ, T=T, labels=labels)
        if fail is None:
            sv = [float(v) for v in pt.sorted_values(np.asarray(T))]
            if sv != sorted(set(Tl)):
                fail = f"sorted_values({Tl}) = {sv}: not the distinct values in ascending order"
        if fail is None:
            I = np.where(labels == (label_values[0] if k > 0 else -1))[0]
            J = np.where(labels != (label_values[0] if k > 0 else -1))[0]
            d = float(pt.max_dist(XYZ, I, J))
            want = max([int(np.sum((XYZ[:, i] - XYZ[:, j]) ** 2)) for i in I for j in J], default=0)
            if not close(d * d, float(want), 1e-9, 1e-9):
                fail = f"max_dist(XYZ={XYZ.tolist()}, I={I.tolist()}, J={J.tolist()}) = {d}, squared maximum distance is {want}"
        if fail is None and k > 0:
            C_ = np.asarray(pt.peak_XYZ(XYZ, T, labels, np.array(label_values[:-1])))
            for j, lv in enumerate(label_values[:-1]):
                I = np.where(labels == lv)[0]
                best = I[int(np.argmax(np.asarray(T)[I]))]
                if C_.shape != (3, len(label_values) - 1) or C_[:, j].tolist() != XYZ[:, best].tolist():
                    fail = (f"peak_XYZ: label {lv} -> {C_[:, j].tolist() if C_.ndim == 2 else C_!r}, the first voxel of maximal "
                            f"statistic in it is {XYZ[:, best].tolist()} (T={Tl}, labels={labels.tolist()})")
                    break
        mut = mut or snap2.changed()
        return {"lines": lines, "impl": impl, "oracle": fail, "nontrivial": p >= 2 or nd >= 2,
                "tags": ["fisher", "fisher-" + c["dtype"], "fisher-" + c["labels"], "fisher-" + c["layout"]], "mutated": mut}

    # ------------------------------------------------------------------
    def run_case(self, case):
        warnings.filterwarnings("ignore")
        del REUSE_MISMATCH[:]
        r = getattr(self, "_" + case["kind"])(case)
        # the terms regenerated from the source text (Gen/C17Source.lean) are run on the same inputs as the
        # hand-written model and compared with the same observation of the implementation
        lines, impl = r.get("lines"), r.get("impl")
        if lines is not None and impl is not None and len(lines) == len(impl):
            for k in range(len(lines)):
                head = lines[k].split(" ", 1)[0]
                if head in SRC_MIRROR or lines[k].startswith(("os sign ", "os mean ", "ts wilcoxon ")):
                    lines.append("src" + lines[k])
                    impl.append(impl[k])
        if REUSE_MISMATCH:
            if r.get("oracle") is None:
                r["oracle"] = "statistic depends on what the object evaluated before: " + REUSE_MISMATCH[0]
            r["tags"] = list(r.get("tags", [])) + ["object-reuse-mismatch"]
            del REUSE_MISMATCH[:]
        return r

    # ---- relabellings ---------------------------------------------------
    def _signs(self, c):
        n = c["n"]
        x = np.arange(1, n + 1, dtype=float)
        lines, impl, fail = [], [], None
        for m in c["magics"]:
            xx = c_signs(x, m)
            pat = [1 if v < 0 else 0 for v in xx]
            lines.append(f"signs {n} {m}")
            impl.append(("text", " ".join(map(str, pat))))
            if fail is None:
                if not np.array_equal(np.abs(xx), x):
                    fail = f"permute_signs(n={n}, magic={m}) is not a sign flip of the data: {xx.tolist()}"
                elif m < (1 << n) and pat != bits(n, m):
                    bad = [i for i in range(n) if pat[i] != bits(n, m)[i]]
                    fail = (f"fff_onesample_permute_signs(n={n}, magic={m}): flipped subjects "
                            f"{[i for i in range(n) if pat[i]]} but the magic number encodes "
                            f"{[i for i in range(n) if bits(n, m)[i]]} (first difference at subject {bad[0]}); "
                            f"magic numbers in [0, 2^{n}) no longer enumerate distinct sign patterns")
                elif m == 0 and any(pat):
                    fail = f"magic 0 is not the identity relabelling for n={n}"
        return {"lines": lines, "impl": impl, "oracle": fail, "nontrivial": True,
                "tags": ["signs", "signs-n>31" if n > 31 else "signs-n<=31"]}

    def _signs_all(self, c):
        n = c["n"]
        x = np.arange(1, n + 1, dtype=float)
        seen = {}
        lines, impl, fail = [], [], None
        for m in range(1 << n):
            xx = c_signs(x, m)
            pat = tuple(1 if v < 0 else 0 for v in xx)
            lines.append(f"signs {n} {m}")
            impl.append(("text", " ".join(map(str, pat))))
            if fail is None and pat in seen:
                fail = f"sign patterns of magic {seen[pat]} and {m} coincide for n={n}"
            seen[pat] = m
        if fail is None and len(seen) != 1 << n:
            fail = f"{len(seen)} distinct sign patterns for n={n}, expected {1 << n}"
        if fail is None and seen.get(tuple([0] * n)) != 0:
            fail = f"identity sign pattern is not magic 0 for n={n}"
        return {"lines": lines, "impl": impl, "oracle": fail, "nontrivial": n >= 2,
                "tags": ["signs-exhaustive"]}

    def _perm(self, c):
        n = c["n"]
        lines, impl, fail = [], [], None
        for m in c["magics"]:
            p = c_perm(n, m)
            lines += [f"perm {n} {m}", f"permarr {n} {m}"]   # Lehmer-code model and array-level (memmove) model
            impl += [("text", " ".join(map(str, p)))] * 2
            if fail is None and sorted(p) != list(range(n)):
                fail = f"fff_permutation(n={n}, magic={m}) = {p} is not a permutation of 0..{n - 1}"
            if fail is None and m == 0 and p != list(range(n)):
                fail = f"fff_permutation(n={n}, magic=0) = {p} is not the identity"
        return {"lines": lines, "impl": impl, "oracle": fail, "nontrivial": n >= 3, "tags": ["perm"]}

    def _perm_all(self, c):
        n = c["n"]
        seen = {}
        lines, impl, fail = [], [], None
        for m in range(math.factorial(n)):
            p = tuple(c_perm(n, m))
            lines += [f"perm {n} {m}", f"permarr {n} {m}"]
            impl += [("text", " ".join(map(str, p)))] * 2
            if fail is None and sorted(p) != list(range(n)):
                fail = f"fff_permutation(n={n}, magic={m}) = {list(p)} is not a permutation"
            if fail is None and p in seen:
                fail = f"fff_permutation(n={n}) gives {list(p)} for magic {seen[p]} and {m}"
            seen[p] = m
        if fail is None and len(seen) != math.factorial(n):
            fail = f"{len(seen)} distinct permutations for n={n}"
        return {"lines": lines, "impl": impl, "oracle": fail, "nontrivial": n >= 3,
                "tags": ["perm-exhaustive"]}

    def _comb(self, c):
        n, k = c["n"], c["k"]
        lines, impl, fail = [], [], None
        for m in c["magics"]:
            s = c_comb(k, n, m)
            lines.append(f"comb {k} {n} {m}")
            impl.append(("text", " ".join(map(str, s))))
            if fail is None and (any(b <= a for a, b in zip(s, s[1:])) or any(v >= n for v in s)):
                fail = f"fff_combination(k={k}, n={n}, magic={m}) = {s} is not an increasing subset of 0..{n - 1}"
            if fail is None and m == 0 and s != list(range(k)):
                fail = f"fff_combination(k={k}, n={n}, magic=0) = {s} is not the first combination"
        return {"lines": lines, "impl": impl, "oracle": fail, "nontrivial": 0 < k < n, "tags": ["comb"]}

    def _comb_all(self, c):
        n, k = c["n"], c["k"]
        seen = {}
        lines, impl, fail = [], [], None
        tot = math.comb(n, k)
        for m in range(tot):
            s = tuple(c_comb(k, n, m))
            lines.append(f"comb {k} {n} {m}")
            impl.append(("text", " ".join(map(str, s))))
            if fail is None and (any(b <= a for a, b in zip(s, s[1:])) or any(v >= n for v in s)):
                fail = f"fff_combination(k={k}, n={n}, magic={m}) = {list(s)} is not an increasing subset"
            if fail is None and s in seen:
                fail = f"fff_combination(k={k}, n={n}) gives {list(s)} for magic {seen[s]} and {m}"
            seen[s] = m
        if fail is None and len(seen) != tot:
            fail = f"{len(seen)} distinct combinations, expected C({n},{k})={tot}"
        return {"lines": lines, "impl": impl, "oracle": fail, "nontrivial": 0 < k < n,
                "tags": ["comb-exhaustive"]}

    def _ts_obs(self, n1, n2, m):
        nex, i1, i2, after = c_tsperm(n1, n2, m)
        lab1 = np.arange(n1, dtype=float); lab2 = np.arange(n1, n1 + n2, dtype=float)
        px, _ = c_tsapply(lab1, lab2, m)
        tot = math.comb(n1 + n2, n1)
        if m >= tot:
            o1 = f"count {int(after)}" if after == int(after) else f"count {after}"
        else:
            o1 = f"{nex} | {' '.join(map(str, i1))} | {' '.join(map(str, i2))}"
        return o1, [int(v) for v in px]

    def _tsperm(self, c):
        n1, n2 = c["n1"], c["n2"]
        tot = math.comb(n1 + n2, n1)
        lines, impl, fail = [], [], None
        cnt = c_tscount(n1, n2)
        lines.append(f"tscount {n1} {n2}")
        impl.append(("text", str(int(cnt)) if cnt == int(cnt) and abs(cnt) < 1e300 else repr(cnt)))
        if cnt != tot:
            fail = f"count_permutations({n1},{n2}) = {cnt}, the number of two-group splits is C({n1 + n2},{n1}) = {tot}"
        for m in c["magics"]:
            o1, px = self._ts_obs(n1, n2, m)
            lines += [f"tsperm {n1} {n2} {m}", f"tsapply {n1} {n2} {m}"]
            impl += [("text", o1), ("text", " ".join(map(str, px)))]
            if fail is None and sorted(px) != list(range(n1 + n2)):
                fail = f"two-sample relabelling (n1={n1}, n2={n2}, magic={m}) = {px} is not a permutation of the subjects"
            if fail is None and m == 0 and px != list(range(n1 + n2)):
                fail = f"two-sample magic 0 is not the identity relabelling: {px}"
        return {"lines": lines, "impl": impl, "oracle": fail, "nontrivial": n1 + n2 >= 3, "tags": ["tsperm"]}

    def _ts_all(self, c):
        n1, n2 = c["n1"], c["n2"]
        tot = math.comb(n1 + n2, n1)
        lines, impl, fail = [], [], None
        cnt = c_tscount(n1, n2)
        lines.append(f"tscount {n1} {n2}")
        impl.append(("text", str(int(cnt)) if cnt == int(cnt) and abs(cnt) < 1e300 else repr(cnt)))
        if cnt != tot:
            fail = f"count_permutations({n1},{n2}) = {cnt}, expected C({n1 + n2},{n1}) = {tot}"
        seen = {}
        for m in range(tot):
            o1, px = self._ts_obs(n1, n2, m)
            lines += [f"tsperm {n1} {n2} {m}", f"tsapply {n1} {n2} {m}"]
            impl += [("text", o1), ("text", " ".join(map(str, px)))]
            g1 = frozenset(px[:n1])
            if fail is None and sorted(px) != list(range(n1 + n2)):
                fail = f"two-sample relabelling (n1={n1}, n2={n2}, magic={m}) = {px} is not a permutation"
            if fail is None and g1 in seen:
                fail = (f"two-sample magic numbers {seen[g1]} and {m} (n1={n1}, n2={n2}) give the same split "
                        f"{sorted(g1)}")
            seen[g1] = m
        if fail is None and len(seen) != tot:
            fail = f"{len(seen)} distinct splits for n1={n1}, n2={n2}, expected {tot}"
        if fail is None and seen.get(frozenset(range(n1))) != 0:
            fail = "the identity split is not magic 0"
        return {"lines": lines, "impl": impl, "oracle": fail, "nontrivial": n1 + n2 >= 3,
                "tags": ["ts-exhaustive"]}

    # ---- one-sample statistics -----------------------------------------
    def _os(self, c):
        stat, x, base, m = c["stat"], c["x"], c["base"], c["magic"]
        n = len(x)
        xa = np.array(x, dtype=float)
        snap = Snapshot(x=xa)
        xp = c_signs(xa, m)
        t = c_os(stat, xp, base)
        mut = snap.changed()
        # dispatch through the numeric flag (tables regenerated from the C sources) and, for the
        # statistics of the base protocol, by name
        lines = [f"osf {OS_FLAGS[stat]} {fr(base)} {m} {plist(x)}"]
        impl = [("os", stat, t, n)]
        if stat in OS_RFX:
            lines.append(f"os {stat} {fr(base)} {m} {plist(x)}")
            impl.append(("os", stat, t, n))
        fx = [F(v) for v in flip(x, m)] if m < (1 << n) else [F(float(v)) for v in xp]
        fb = F(base)
        fail = None
        if [float(v) for v in fx] != xp.tolist():
            fx = [F(float(v)) for v in xp]   # relabelling errors are reported by the `signs` cases
        want = None
        tol = 1e-9
        if stat == "mean":
            want = d_mean(fx, fb)
        elif stat == "median":
            want = d_median(fx, fb)
        elif stat == "sign":
            want = d_sign(fx, fb)
        elif stat == "student":
            want = d_student(fx, fb)
        elif stat == "laplace":
            want = d_laplace(fx, fb)
        elif stat == "tukey":
            want = d_tukey(fx, fb)
        elif stat == "grubb":
            want = d_grubb(fx)
        elif stat == "elr":
            want = d_elr(fx, fb)
            tol = 1e-6
        if stat == "wilcoxon":
            lib, lo, hi = d_wilcoxon_range(fx, fb)
            if not (float(lo) - 1e-12 <= t <= float(hi) + 1e-12):
                fail = (f"wilcoxon(x={[float(v) for v in fx]}, base={base}) = {t}: outside the signed-rank "
                        f"definition [{float(lo)}, {float(hi)}] (sum of rank*sign / n^2)")
        elif want is not None and not _same(t, want, tol):
            fail = f"{stat}(x={[float(v) for v in fx]}, base={base}) = {t}, definition gives {float(want)}"
        # antisymmetry: negating data and baseline negates the statistic (Grubb's statistic is even)
        if fail is None:
            t2 = c_os(stat, -xp, -base)
            if stat == "wilcoxon":
                ok = abs(t2 + t) <= 1e-12 or lo != hi   # exact unless opposite-sign ties
                if lo != hi:
                    ok = float(lo) - 1e-12 <= -t2 <= float(hi) + 1e-12
            elif stat == "grubb":
                ok = _same(t2, t)
            else:
                ok = _same(t2, -t, tol) if not (math.isnan(t) and math.isnan(t2)) else True
            if not ok:
                fail = (f"{stat} is not {'even' if stat == 'grubb' else 'odd'}: stat(x, base)={t} but "
                        f"stat(-x, -base)={t2} for x={xp.tolist()}, base={base}")
        # base shift law: the statistic is a function of the residuals x - base (dyadic data: exact)
        if fail is None and base != 0 and not math.isnan(t):
            t0 = c_os(stat, xp - base, 0.0)
            if stat == "wilcoxon" and lo != hi:
                ok = float(lo) - 1e-12 <= t0 <= float(hi) + 1e-12
            else:
                ok = _same(t0, t, tol)
            if not ok:
                fail = (f"{stat}(x, base={base}) = {t} but the statistic of the residuals x - base against "
                        f"baseline 0 is {t0} (x={xp.tolist()})")
        return {"lines": lines, "impl": impl, "oracle": fail, "nontrivial": n >= 3 or m != 0,
                "tags": ["os", "os-" + stat], "mutated": mut}

    def _osmfx(self, c):
        stat, x, var, base, niter = c["stat"], c["x"], c["var"], c["base"], c["niter"]
        n = len(x)
        xa = np.array(x, float); va = np.array(var, float)
        snap = Snapshot(x=xa, v=va)
        t = c_osmfx(stat, xa, va, base, niter)
        mut = snap.changed()
        lines, impl, fail = [], [], None
        fx = [F(v) for v in x]; fb = F(base)
        lines.append(f"mfxflag {OS_FLAGS[stat]}")
        impl.append(("mfxflag", c_osmfx_empirical(stat, n)))
        if stat in ("mean_gauss_mfx", "student_mfx") and niter <= 3 and n <= 8:
            mu, v = c_gmfx_fit(xa, va, niter, 0)
            lines.append(f"gmfx {niter} 0 {plist(x)} {plist(var)}")
            impl.append(("rats", [mu, v]))
            mu0, v0 = c_gmfx_fit(xa, va, niter, 1)
            lines.append(f"gmfx {niter} 1 {plist(x)} {plist(var)}")
            impl.append(("rats", [mu0, v0]))
            if stat == "student_mfx" and math.isfinite(t):
                # the likelihood-ratio statistic from the model's exact fits (log evaluated here)
                lines.append(f"lrgmfx {niter} {fr(base)} {plist(x)} {plist(var)}")
                impl.append(("lr", t, list(x), list(var), base))
        if stat == "mean_gauss_mfx":
            m_ref, _ = gmfx_em(x, var, niter)
            if not close(t, m_ref - base, 1e-9, 1e-9):
                fail = f"mean_gauss_mfx(x={x}, var={var}, base={base}, niter={niter}) = {t}, EM definition gives {m_ref - base}"
        elif stat == "student_mfx":
            m_ref, v_ref = gmfx_em(x, var, niter)
            _, v0_ref = gmfx_em(x, var, niter, mean0=base)
            if v_ref > 1e-12 and v0_ref > 1e-12 and abs(m_ref - base) > 1e-9:
                lr = 2 * (gmfx_nll(x, var, base, v0_ref) - gmfx_nll(x, var, m_ref, v_ref))
                want = sgn(m_ref - base) * math.sqrt(max(lr, 0.0))
                if not close(t, want, 1e-7, 1e-7):
                    fail = (f"student_mfx(x={x}, var={var}, base={base}, niter={niter}) = {t}; the signed "
                            f"likelihood ratio of the Gaussian two-level model against mean={base} is {want}")
        elif niter == 0:
            # no EM iteration: weights 1/n at the data points => the fixed-effects definitions
            if stat == "mean_mfx":
                want = d_mean(fx, fb)
            elif stat == "sign_mfx":
                want = d_sign(fx, fb)
            elif stat == "median_mfx" and (base == 0 or STRICT_MEDIAN_MFX_BASE):
                want = d_median(fx, fb)      # uniform weights: the weighted median is the median
            elif stat == "wilcoxon_mfx":
                lib, lo, hi = d_wilcoxon_range(fx, fb)
                want = None
                if not (float(lo) - 1e-12 <= t <= float(hi) + 1e-12):
                    fail = (f"wilcoxon_mfx(x={x}, var={var}, base={base}, niter=0) = {t}; with uniform weights "
                            f"at the data points the weighted signed-rank statistic is {float(lib)}")
            else:
                want = None
            if want is not None and not _same(t, want):
                fail = (f"{stat}(x={x}, var={var}, base={base}, niter=0) = {t}; with uniform weights at the "
                        f"data points the definition gives {float(want)}")
        if fail is None and stat in ("elr_mfx",) and math.isfinite(t) and t != 0:
            # sign of a likelihood-ratio statistic = sign of (estimated mean - baseline)
            mm = c_osmfx("mean_mfx", xa, va, base, niter)
            if abs(mm) > 1e-9 and sgn(t) != sgn(mm):
                fail = (f"elr_mfx(x={x}, var={var}, base={base}, niter={niter}) = {t} has the sign opposite to "
                        f"the estimated effect mean_mfx = {mm}")
        # (skipped when a data point sits exactly on the baseline and EM has run: the fitted centre
        # then differs from the baseline by rounding only, and sign/rank statistics jump there)
        on_base = niter > 0 and any(abs(v - base) < 1e-9 for v in x)
        # mean_mfx / median_mfx run their (truncated) EM on the raw data and subtract the baseline afterwards: the
        # iterates start from the absolute origin, so at a finite number of iterations the estimate of x and that of
        # x - base differ (they meet in the limit); the shift law is exact only for niter = 0 there
        em_on_raw = stat in ("mean_mfx", "median_mfx") and niter > 0
        if fail is None and base != 0 and (stat != "median_mfx" or STRICT_MEDIAN_MFX_BASE) and not on_base \
                and not em_on_raw:
            # every statistic is a function of the residuals x - base
            t0 = c_osmfx(stat, xa - base, va, 0.0, niter)
            if math.isfinite(t) and math.isfinite(t0) and not close(t, t0, 1e-6, 1e-7):
                fail = (f"{stat}(x, var, base={base}, niter={niter}) = {t} but the same statistic of the residuals "
                        f"x - base against baseline 0 is {t0} (x={x}, var={var})")
        if fail is None and stat != "median_mfx":
            t2 = c_osmfx(stat, -xa, va, -base, niter)
            if math.isfinite(t) and math.isfinite(t2) and not close(t2, -t, 1e-6, 1e-7):
                fail = (f"{stat} is not odd: stat(x,var,base)={t}, stat(-x,var,-base)={t2} for x={x}, var={var}, "
                        f"base={base}, niter={niter}")
        return {"lines": lines, "impl": impl, "oracle": fail, "nontrivial": n >= 3,
                "tags": ["osmfx", "osmfx-" + stat, f"niter={'0' if niter == 0 else '>0'}"], "mutated": mut}

    # ---- two-sample statistics -----------------------------------------
    def _ts(self, c):
        stat, x1, x2, m = c["stat"], c["x1"], c["x2"], c["magic"]
        n1, n2 = len(x1), len(x2)
        a1, a2 = np.array(x1, float), np.array(x2, float)
        v1, v2 = np.array(c["v1"], float), np.array(c["v2"], float)
        snap = Snapshot(a1=a1, a2=a2, v1=v1, v2=v2)
        lines, impl, fail = [], [], None
        if stat == "student_mfx":
            px, pv = c_tsapply(a1, a2, m, v1, v2)
            t = c_tsmfx(px, pv, n1, c["niter"])
            # relabelling moves variances with the data
            lab, _ = c_tsapply(np.arange(n1, dtype=float), np.arange(n1, n1 + n2, dtype=float), m)
            allx = np.concatenate([a1, a2]); allv = np.concatenate([v1, v2])
            idx = lab.astype(int)
            if not (np.array_equal(px, allx[idx]) and np.array_equal(pv, allv[idx])):
                fail = f"apply_permutation(magic={m}) does not move the first-level variances with their data"
            Xc, PXc, PPXc = c_tsdesign(n1, n2)
            lines.append(f"tsdesign {n1} {n2}")
            impl.append(("mats", [Xc, PXc, PPXc]))
            if 1 <= c["niter"] <= 2 and n1 + n2 <= 8 and np.all(pv > 0) and math.isfinite(t):
                lines.append(f"tsmfx {c['niter']} {plist(px[:n1].tolist())} {plist(px[n1:].tolist())} "
                             f"{plist(pv[:n1].tolist())} {plist(pv[n1:].tolist())}")
                impl.append(("tsmfx", t, px.tolist(), pv.tolist(), n1))
            # antisymmetry under exchange of the group labels
            if fail is None:
                sw = c_tsmfx(np.concatenate([px[n1:], px[:n1]]), np.concatenate([pv[n1:], pv[:n1]]), n2, c["niter"])
                if math.isfinite(t) and math.isfinite(sw) and not close(sw, -t, 1e-6, 1e-7):
                    fail = (f"two-sample student_mfx is not antisymmetric under exchange of the groups: {t} vs {sw} "
                            f"(x1={px[:n1].tolist()}, x2={px[n1:].tolist()}, v1={pv[:n1].tolist()}, v2={pv[n1:].tolist()}, niter={c['niter']})")
        else:
            px, _ = c_tsapply(a1, a2, m)
            t = c_ts(stat, px, n1)
            lines.append(f"ts {stat} {m} {plist(x1)} {plist(x2)}")
            impl.append(("os", stat, t))
            f1 = [F(float(v)) for v in px[:n1]]; f2 = [F(float(v)) for v in px[n1:]]
            if stat == "student":
                want = d_ts_student(f1, f2)
                if want is not None and not _same(t, want):
                    fail = f"two-sample student(x1={px[:n1].tolist()}, x2={px[n1:].tolist()}) = {t}, definition gives {want}"
            else:
                want = d_ts_wilcoxon(f1, f2)
                if not _same(t, want):
                    fail = f"two-sample wilcoxon(x1={px[:n1].tolist()}, x2={px[n1:].tolist()}) = {t}, definition gives {float(want)}"
            if fail is None:
                sw = c_ts(stat, np.concatenate([px[n1:], px[:n1]]), n2)
                wantsw = -t if stat == "student" else -t * n2 / n1
                if math.isfinite(t) and not _same(sw, wantsw):
                    fail = f"two-sample {stat} does not change sign when the group labels are exchanged: {t} vs {sw}"
        mut = snap.changed()
        return {"lines": lines, "impl": impl, "oracle": fail, "nontrivial": n1 + n2 >= 3,
                "tags": ["ts", "ts-" + stat], "mutated": mut}

    # ---- Python level ----------------------------------------------------
    def _pyaxis(self, c):
        from nipy.labs.group import onesample as los
        from nipy.labs.group import twosample as lts
        rs = np.random.RandomState(c["seed"])
        shape, axis, stat, base = tuple(c["shape"]), c["axis"], c["stat"], c["base"]
        n = shape[axis]
        Y = rs.randint(-16, 17, size=shape) / 4.0
        lines, impl, fail = [], [], None
        magics = np.array(c["magics"], dtype=float)
        if not c["two"]:
            snap = Snapshot(Y=Y, M=magics)
            T = los.stat(Y, stat, base, axis, magics)
            T0 = los.stat(Y, stat, base, axis)
            mut = snap.changed()
            want_shape = list(shape); want_shape[axis] = len(magics)
            if list(T.shape) != want_shape:
                fail = f"onesample.stat output shape {T.shape}, expected {want_shape}"
            Ym = np.moveaxis(Y, axis, 0).reshape(n, -1)
            Tm = np.moveaxis(T, axis, 0).reshape(len(magics), -1) if fail is None else None
            T0m = np.moveaxis(T0, axis, 0).reshape(1, -1)
            for j in range(Ym.shape[1] if fail is None else 0):
                col = np.ascontiguousarray(Ym[:, j])
                one = los.stat(col, stat, base, 0, magics)
                if not _arr_same(one, Tm[:, j]):
                    fail = (f"onesample.stat({stat}, axis={axis}) on shape {shape}: slice {j} gives {Tm[:, j].tolist()} "
                            f"but the same vector alone gives {one.tolist()} (not applied independently along the axis)")
                    break
                for k, m in enumerate(c["magics"]):
                    fl = np.array(flip(col.tolist(), m))
                    ref = los.stat(fl, stat, base, 0)
                    if not _arr_same(ref, Tm[k:k + 1, j]):
                        fail = (f"onesample.stat({stat}, Magics=[{m}]) = {Tm[k, j]} differs from the statistic of the "
                                f"sign-flipped data {ref.tolist()} (x={col.tolist()})")
                        break
                if fail:
                    break
                # the installed extension is linked against the pinned lib/fff (n=2 median, reported at C level)
                if j < 2 and not (n == 2 and stat in ("median", "laplace")):
                    lines.append(f"os {stat} {fr(base)} {c['magics'][0]} {plist(col.tolist())}")
                    impl.append(("os", stat, float(Tm[0, j])))
                    lines.append(f"os {stat} {fr(base)} 0 {plist(col.tolist())}")
                    impl.append(("os", stat, float(T0m[0, j])))
        else:
            n2 = c["n2"]
            sh2 = list(shape); sh2[axis] = n2
            Y2 = rs.randint(-16, 17, size=tuple(sh2)) / 4.0
            st = "student" if stat in ("mean", "median", "student", "laplace") else "wilcoxon"
            tot = math.comb(n + n2, n)
            ms = [m % tot for m in c["magics"]]
            magics = np.array(ms, dtype=float)
            snap = Snapshot(Y=Y, Y2=Y2, M=magics)
            T = lts.stat(Y, Y2, st, axis, magics)
            mut = snap.changed()
            if lts.count_permutations(n, n2) != tot:
                fail = f"count_permutations({n},{n2}) = {lts.count_permutations(n, n2)}, expected {tot}"
            Ym = np.moveaxis(Y, axis, 0).reshape(n, -1)
            Y2m = np.moveaxis(Y2, axis, 0).reshape(n2, -1)
            Tm = np.moveaxis(T, axis, 0).reshape(len(ms), -1)
            for j in range(Ym.shape[1]):
                a = np.ascontiguousarray(Ym[:, j]); b = np.ascontiguousarray(Y2m[:, j])
                one = lts.stat(a, b, st, 0, magics)
                if fail is None and not _arr_same(one, Tm[:, j]):
                    fail = (f"twosample.stat({st}, axis={axis}) on shape {shape}: slice {j} gives {Tm[:, j].tolist()} "
                            f"but the same vectors alone give {one.tolist()}")
                if j < 2:
                    lines.append(f"ts {st} {ms[0]} {plist(a.tolist())} {plist(b.tolist())}")
                    impl.append(("os", st, float(Tm[0, j])))
        return {"lines": lines, "impl": impl, "oracle": fail, "nontrivial": True,
                "tags": ["pyaxis", "py-two" if c["two"] else "py-one", f"ndim={len(shape)}"], "mutated": mut}

    def _axis(self, c):
        """`stat(Y, id, base, axis, Magics)` of the compiled glue on an N-d array of any layout: every
        output entry against the model's `statAxis` (fibre extraction + relabelling + flag dispatch)"""
        from nipy.labs.group import onesample as los
        from nipy.labs.group import twosample as lts
        rs = np.random.RandomState(c["seed"])
        shape, axis, stat, base = tuple(c["shape"]), c["axis"], c["stat"], c["base"]
        n = shape[axis]

        def lay(a):
            if c["layout"] == "F":
                return np.asfortranarray(a)
            if c["layout"] == "T" and a.ndim >= 2:     # a transposed view of a C array
                return np.ascontiguousarray(a.T).T
            return np.ascontiguousarray(a)
        Y = lay(rs.randint(-16, 17, size=shape) / 4.0)
        outer = int(np.prod(shape[:axis], dtype=int)); inner = int(np.prod(shape[axis + 1:], dtype=int))
        ax_arg = axis - len(shape) if c["neg_axis"] and not c["two"] else axis
        magics = c["magics"]
        ms = [0] if magics is None else magics
        marr = None if magics is None else np.array(magics, dtype=float)
        fail, lines, impl = None, [], []
        # the installed extension is linked against the pinned lib/fff (median of two values)
        stale = n == 2 and stat in ("median", "laplace", "tukey")
        if not c["two"]:
            snap = Snapshot(Y=Y) if marr is None else Snapshot(Y=Y, M=marr)
            try:
                T = los.stat(Y, stat, base, ax_arg) if marr is None else los.stat(Y, stat, base, ax_arg, marr)
            except Exception as e:   # noqa
                if c["neg_axis"]:
                    return {"lines": [], "impl": [], "oracle": None, "nontrivial": False,
                            "tags": ["axis", "axis-negative-refused"]}
                return {"lines": [], "impl": [], "nontrivial": True, "tags": ["axis", "raised"],
                        "oracle": f"onesample.stat({stat}, axis={ax_arg}) on shape {shape} raised {type(e).__name__}: {e}"}
            mut = snap.changed()
            want_shape = list(shape); want_shape[axis] = len(ms)
            if list(T.shape) != want_shape:
                fail = f"onesample.stat output shape {T.shape}, expected {want_shape}"
            elif not stale:
                lines.append(f"axis {OS_FLAGS[stat]} {fr(base)} {outer} {n} {inner} {len(ms)} {' '.join(map(str, ms))} "
                             f"{plist(np.ascontiguousarray(Y).ravel().tolist())}")
                impl.append(("axis", stat, np.ascontiguousarray(T).ravel().tolist(), n))
        else:
            n2 = c["n2"]
            sh2 = list(shape); sh2[axis] = n2
            Y2 = lay(rs.randint(-16, 17, size=tuple(sh2)) / 4.0)
            snap = Snapshot(Y=Y, Y2=Y2) if marr is None else Snapshot(Y=Y, Y2=Y2, M=marr)
            T = lts.stat(Y, Y2, stat, axis) if marr is None else lts.stat(Y, Y2, stat, axis, marr)
            mut = snap.changed()
            want_shape = list(shape); want_shape[axis] = len(ms)
            if list(T.shape) != want_shape:
                fail = f"twosample.stat output shape {T.shape}, expected {want_shape}"
            else:
                lines.append(f"axis2 {TS_FLAGS[stat]} {outer} {n} {n2} {inner} {len(ms)} {' '.join(map(str, ms))} "
                             f"{plist(np.ascontiguousarray(Y).ravel().tolist())} "
                             f"{plist(np.ascontiguousarray(Y2).ravel().tolist())}")
                impl.append(("axis", stat, np.ascontiguousarray(T).ravel().tolist(), n))
        # oracle: each fibre alone gives the same numbers (applied independently along the axis)
        if fail is None:
            Ym = np.moveaxis(np.asarray(Y), axis, 0).reshape(n, -1)
            Tm = np.moveaxis(np.asarray(T), axis, 0).reshape(len(ms), -1)
            for j in range(Ym.shape[1]):
                col = np.ascontiguousarray(Ym[:, j])
                if not c["two"]:
                    one = los.stat(col, stat, base, 0) if marr is None else los.stat(col, stat, base, 0, marr)
                else:
                    col2 = np.ascontiguousarray(np.moveaxis(np.asarray(Y2), axis, 0).reshape(c["n2"], -1)[:, j])
                    one = lts.stat(col, col2, stat, 0) if marr is None else lts.stat(col, col2, stat, 0, marr)
                if not _arr_same(one, Tm[:, j]):
                    fail = (f"stat({stat}, axis={axis}) on shape {shape} (layout {c['layout']}): fibre {j} gives "
                            f"{Tm[:, j].tolist()} but the same vector alone gives {np.ravel(one).tolist()}")
                    break
        return {"lines": lines, "impl": impl, "oracle": fail, "nontrivial": True,
                "tags": ["axis", "ax-two" if c["two"] else "ax-" + stat, f"ax-ndim={len(shape)}",
                         "ax-layout=" + c["layout"], "ax-magics-none" if magics is None else "ax-magics"],
                "mutated": mut}

    def _pyperm(self, c):
        from nipy.labs.utils import routines
        n, k, m, magic = c["n"], c["k"], c["m"], c["magic"]
        P = np.asarray(routines.permutations(n, m, magic)).reshape(n, m)
        Cb = np.asarray(routines.combinations(k, n, m, magic)).reshape(k, m) if k >= 1 else None
        lines, impl, fail = [], [], None
        for i in range(m):
            lines.append(f"perm {n} {magic + i}")
            impl.append(("text", " ".join(str(int(v)) for v in P[:, i])))
            if fail is None and sorted(int(v) for v in P[:, i]) != list(range(n)):
                fail = f"permutations({n}, magic={magic + i}) = {P[:, i].tolist()} is not a permutation"
            if Cb is not None:
                lines.append(f"comb {k} {n} {magic + i}")
                impl.append(("text", " ".join(str(int(v)) for v in Cb[:, i])))
                s = [int(v) for v in Cb[:, i]]
                if fail is None and (any(b <= a for a, b in zip(s, s[1:])) or any(v >= n for v in s)):
                    fail = f"combinations({k},{n}, magic={magic + i}) = {s} is not an increasing subset"
        return {"lines": lines, "impl": impl, "oracle": fail, "nontrivial": n >= 3, "tags": ["pyperm"]}

    def _pymfx(self, c):
        from nipy.algorithms.statistics import mixed_effects_stat as mes
        from nipy.algorithms.statistics import onesample as aos
        y = np.array(c["y"], float); sd = np.array(c["sd"], float)
        n = y.size
        if c["zero_sd"]:
            sd[0] = 0.0
        lines, impl, fail = [], [], None
        snap = Snapshot(y=y, sd=sd)
        est = aos.estimate_mean(y, sd)
        lines.append(f"estmean {plist(y.tolist())} {plist(sd.tolist())}")
        impl.append(("rats", [float(est["effect"]), float(est["scale"]) ** 2, float(est["sd"]) ** 2]))
        w = [F(1) / (F(s) * F(s)) if s > 0 else F(0) for s in sd.tolist()]
        fy = [F(v) for v in y.tolist()]
        eff = sum(a * b for a, b in zip(fy, w)) / sum(w)
        if not close(float(est["effect"]), float(eff), 1e-12, 1e-12):
            fail = f"estimate_mean(Y={y.tolist()}, sd={sd.tolist()}): effect {est['effect']}, the precision-weighted mean is {float(eff)}"
        sc = sum((a - eff) ** 2 * b for a, b in zip(fy, w)) / (n - 1)
        tt = float(eff) / math.sqrt(float(sc / sum(w))) if sc > 0 else 0.0
        if fail is None and sc > 0 and not close(float(est["t"]), tt, 1e-9, 1e-9):
            fail = f"estimate_mean(Y={y.tolist()}, sd={sd.tolist()}): t {est['t']}, definition effect/sqrt(scale/sum W) = {tt}"
        if fail is None:
            est2 = aos.estimate_mean(-y, sd)
            if not close(float(est2["t"]), -float(est["t"]), 1e-9, 1e-9):
                fail = f"estimate_mean t is not odd in the data: {est['t']} vs {est2['t']}"
        # axis independence of estimate_mean: columns are independent problems
        if fail is None:
            Y2 = np.stack([y, y[::-1] * 2.0], axis=1); S2 = np.stack([sd, sd[::-1]], axis=1)
            e2 = aos.estimate_mean(Y2, S2)
            eb = aos.estimate_mean(np.ascontiguousarray(Y2[:, 1]), np.ascontiguousarray(S2[:, 1]))
            if not (close(e2["effect"][0], est["effect"], 1e-12, 1e-12) and close(e2["t"][1], eb["t"], 1e-9, 1e-9)):
                fail = "estimate_mean does not treat columns independently"
        # estimate_varatio: ratio = random / fixed, fixed = mean of sd^2
        if fail is None and not c["zero_sd"]:
            vr = aos.estimate_varatio(y.copy(), sd.copy(), niter=c["niter"] + 1)
            fixed = float(np.mean(sd ** 2))
            vr = {k_: float(np.ravel(v_)[0]) for k_, v_ in vr.items()}
            if not close(vr["fixed"], fixed, 1e-12, 1e-12) or \
               not close(vr["ratio"], vr["random"] / fixed, 1e-9, 1e-9):
                fail = f"estimate_varatio(Y={y.tolist()}, sd={sd.tolist()}): fixed={vr['fixed']} ratio={vr['ratio']} random={vr['random']}"
        # mixed-effects model, one-sample design
        v1 = sd ** 2
        mod = mes.MixedEffectsModel(np.ones((n, 1)), n_iter=c["niter"]).fit(y.copy(), v1.copy())
        lines.append(f"mem {c['niter']} {plist(y.tolist())} {plist(v1.tolist())}")
        impl.append(("rats", [float(np.ravel(mod.beta_)[0]), float(np.ravel(mod.V2)[0])]))
        if fail is None and float(np.ravel(mod.V2)[0]) > 1e-9:
            Y = y.copy(); V = v1.copy()   # 1-D input (check_arrays adds the test axis)
            t = float(mes.one_sample_ttest(Y, V, n_iter=c["niter"])[0])
            tn = float(mes.one_sample_ttest(-Y, V, n_iter=c["niter"])[0])
            f = float(mes.one_sample_ftest(Y, V, n_iter=c["niter"])[0])
            if math.isfinite(t) and not close(tn, -t, 1e-6, 1e-6):
                fail = f"one_sample_ttest is not odd in the data: {t} vs {tn} (Y={y.tolist()}, V1={v1.tolist()})"
            elif math.isfinite(t) and not close(t * t, f, 1e-7, 1e-7):
                fail = f"one_sample_ttest^2 = {t * t} differs from one_sample_ftest = {f}"
            elif math.isfinite(t) and t != 0 and sgn(t) != sgn(float(np.ravel(mod.beta_)[0])):
                fail = f"one_sample_ttest sign {t} differs from the sign of the fitted mean {mod.beta_}"
            if fail is None and n >= 4:
                g = np.array([0] * (n // 2) + [1] * (n - n // 2))
                X2 = np.vstack((np.ones_like(g), g)).T
                v2fit = float(np.ravel(mes.MixedEffectsModel(X2, n_iter=c["niter"]).fit(y.copy(), v1.copy()).V2)[0])
            # (a perfectly separated sample has zero residual variance: the likelihood is then rounding noise)
            if fail is None and n >= 4 and v2fit > 1e-9:
                t2 = float(mes.two_sample_ttest(Y, V, g, n_iter=c["niter"])[0])
                t2f = float(mes.two_sample_ttest(Y, V, 1 - g, n_iter=c["niter"])[0])
                # (t = sqrt(max(0, F)): rounding of order 1e-13 in F is of order 3e-7 in t near F = 0)
                if math.isfinite(t2) and math.isfinite(t2f) and not close(t2f, -t2, 1e-6, 1e-6):
                    fail = f"two_sample_ttest does not change sign when group labels are flipped: {t2} vs {t2f}"
        mut = snap.changed()
        return {"lines": lines, "impl": impl, "oracle": fail, "nontrivial": n >= 3,
                "tags": ["pymfx", "zero-sd" if c["zero_sd"] else "pos-sd"], "mutated": mut}

    def _ptest(self, c):
        from nipy.labs.group import permutation_test as pt
        n, p, stat = c["n"], c["p"], c["stat"]
        rs = np.random.RandomState(c["seed"])
        data = rs.randint(-8, 9, size=(n, p)) / 2.0 + c["shift"]
        XYZ = np.vstack([np.arange(p), np.zeros(p, int), np.zeros(p, int)])
        np.random.seed(c["seed"])
        lines, impl, fail = [], [], None
        if not c["two"]:
            d0 = data.copy()
            P = pt.permutation_test_onesample(data, XYZ, stat_id=stat, ndraws=c["ndraws"])
            mut = None if np.array_equal(d0, data) else "data"
            T = np.atleast_1d(P.Tvalues)
            exact = []
            for j in range(p):
                col = data[:, j].tolist()
                ts = [c_os(stat, np.array(flip(col, m)), 0.0) for m in range(1 << n)]
                exact.append((sum(1 for v in ts if v >= T[j] + 1e-9) / float(1 << n),
                              sum(1 for v in ts if v >= T[j] - 1e-9) / float(1 << n)))
            nmax = 1 << n
        else:
            n2 = c["n2"]
            data2 = rs.randint(-8, 9, size=(n2, p)) / 2.0
            st = "student" if stat in ("student", "mean") else "wilcoxon"
            P = pt.permutation_test_twosample(data, data2, XYZ, stat_id=st, ndraws=c["ndraws"])
            mut = None
            T = np.atleast_1d(P.Tvalues)
            nmax = math.comb(n + n2, n)
            exact = []
            for j in range(p):
                ts = []
                for m in range(nmax):
                    px, _ = c_tsapply(data[:, j], data2[:, j], m)
                    ts.append(c_ts(st, px, n))
                exact.append((sum(1 for v in ts if v >= T[j] + 1e-9) / float(nmax),
                              sum(1 for v in ts if v >= T[j] - 1e-9) / float(nmax)))
        draws = np.atleast_1d(P.random_Tvalues)
        pv = np.atleast_1d(P.pvalue())
        # model line only under the hypothesis of `pvalue_pos` (some draw reaches T); the excluded
        # point (T above every draw) is run on the real code by the oracle below
        for j in range(min(p, 2)):
            if np.all(np.isfinite(draws)) and np.isfinite(T[j]):
                # the clamped form holds for every T (theorem pvalue_p_in_unit); where some draw reaches T
                # it is the plain pseudo p-value (pvalueClamped_eq_pvalue): both lines then
                lines.append(f"pvalc {fr(float(T[j]))} {plist(draws.tolist())}")
                impl.append(("rats", [float(pv[j])]))
                if T[j] <= draws.max():
                    lines.append(f"pval {fr(float(T[j]))} {plist(draws.tolist())}")
                    impl.append(("pv", float(pv[j])))
        if np.any(~(pv > 0)) or np.any(pv > 1):
            j = int(np.nonzero(~((pv > 0) & (pv <= 1)))[0][0])
            fail = (f"permutation_test pvalue() = {pv[j]} for voxel {j} (T={T[j]}, {len(draws)} draws, max draw "
                    f"{draws.max()}): not in (0, 1]")
        if fail is None:
            try:
                vox, _, _ = P.calibrate(nperms=c["nperms"])
            except Exception as e:   # noqa
                fail = f"calibrate(nperms={c['nperms']}) raised {type(e).__name__}: {e}"
                vox = None
            if vox is not None:
                pvals = np.atleast_1d(vox["p_values"]); cp = np.atleast_1d(vox["Corr_p_values"])
                bad = [j for j in range(p) if not (0 < pvals[j] <= 1) or not (0 < cp[j] <= 1)]
                if bad:
                    j = bad[0]
                    fail = (f"calibrate(nperms={c['nperms']}): p_values[{j}]={pvals[j]}, Corr_p_values[{j}]={cp[j]} "
                            f"not in (0, 1] (T={T[j]}; the identity relabelling always reaches T)")
                elif c["nperms"] is None or c["nperms"] >= nmax:
                    for j in range(p):
                        if not (exact[j][0] - 1e-9 <= pvals[j] <= exact[j][1] + 1e-9):
                            fail = (f"calibrate(nperms={c['nperms']}) exhaustive mode: p_values[{j}]={pvals[j]} but "
                                    f"enumerating each of the {nmax} relabellings once gives {exact[j][1]}")
                            break
                    if fail is None and len(vox["perm_maxT_values"]) != nmax:
                        fail = f"calibrate exhaustive mode used {len(vox['perm_maxT_values'])} relabellings, not {nmax}"
        return {"lines": lines, "impl": impl, "oracle": fail, "nontrivial": True,
                "tags": ["ptest", "pt-two" if c["two"] else "pt-one",
                         "exhaustive" if (c["nperms"] is None or c["nperms"] >= nmax) else "sampled"],
                "mutated": mut}


    # ---- optional arguments ----------------------------------------------
    def _varatio(self, c):
        from nipy.algorithms.statistics import onesample as aos
        n, p = c["n"], c["p"]
        rs = np.random.RandomState(c["seed"])
        Y = rs.randint(-16, 17, size=(n, p)) / 4.0
        if np.any(Y.std(0) == 0):
            Y[0] += 1.0
        sd = rs.choice([0.5, 1.0, 2.0, 0.25, 4.0, 1.5], size=(n, p))
        if c["scalar_sd"]:
            sd = np.array(float(sd[0, 0]))
        mode = c["df"]
        df = {"none": None, "ones": np.ones(n), "const": np.full(n, float(rs.choice([2, 30, 100]))),
              "rand": rs.randint(1, 120, size=n).astype(float),
              "unit-sum": np.full(n, 1.0 / 8)}[mode]
        kw = {} if c["default_niter"] else {"niter": c["niter"]}
        niter = 10 if c["default_niter"] else c["niter"]
        one_d = p == 1 and c["seed"] % 2 == 0
        Yin = Y[:, 0].copy() if one_d else Y.copy()
        sdin = sd.copy() if sd.ndim == 0 else (sd[:, 0].copy() if one_d else sd.copy())
        dfin = None if df is None else df.copy()
        lines, impl, fail = [], [], None
        try:
            res = aos.estimate_varatio(Yin, sdin, dfin, **kw)
        except Exception as e:   # noqa
            return {"lines": [], "impl": [], "nontrivial": True, "tags": ["varatio", "raised"],
                    "oracle": f"estimate_varatio(n={n}, p={p}, df={mode}, niter={niter}) raised {type(e).__name__}: {e}"}
        fixed = np.reshape(res["fixed"], (-1,)); ratio = np.reshape(res["ratio"], (-1,))
        random = np.reshape(res["random"], (-1,))
        sdf = np.broadcast_to(sd, (n, p))
        w = np.ones(n) if df is None else df
        ref = aos.estimate_varatio(Y.copy(), sdf.copy(), None, **kw)
        ref_random = np.reshape(ref["random"], (-1,))
        for j in range(p):
            fw = [F(float(v)) for v in w]; fs = [F(float(v)) ** 2 for v in sdf[:, j]]
            want = sum(a * b for a, b in zip(fw, fs)) / sum(fw)
            if not close(fixed[j], float(want), 1e-10, 1e-12):
                fail = (f"estimate_varatio(df={w.tolist() if df is not None else None}): 'fixed'[{j}]={fixed[j]} but the "
                        f"df-weighted mean of sd^2={[float(v) for v in fs]} is {float(want)}")
                break
            if math.isfinite(random[j]) and not close(ratio[j], random[j] / float(want), 1e-9, 1e-12):
                fail = (f"estimate_varatio(df={mode}, niter={niter}): 'ratio'[{j}]={ratio[j]} is not "
                        f"'random'/'fixed' = {random[j] / float(want)}")
                break
            if not _same(random[j], ref_random[j]):
                fail = (f"estimate_varatio: 'random'[{j}]={random[j]} with df={mode} differs from {ref_random[j]} with "
                        f"the default df (the random-effects variance does not depend on df)")
                break
            one = aos.estimate_varatio(np.ascontiguousarray(Y[:, j]), np.ascontiguousarray(sdf[:, j]), None, **kw)
            if not _same(float(np.ravel(one["random"])[0]), random[j]):
                fail = f"estimate_varatio does not treat column {j} independently: {random[j]} vs {one['random']} alone"
                break
            if niter <= 3 and n <= 8 and j < 2:
                S = 1.0 / (1.0 / sdf[:, j] ** 2)
                lines.append(f"varatio {niter} {fr(0.99)} {fr(float(S.min()))} {plist(Y[:, j].tolist())} "
                             f"{plist(sdf[:, j].tolist())} {plist(w.tolist())}")
                impl.append(("rats", [float(fixed[j]), float(ratio[j]), float(random[j])]))
        return {"lines": lines, "impl": impl, "oracle": fail, "nontrivial": True,
                "tags": ["varatio", "df=" + mode, f"va-niter={'default' if c['default_niter'] else niter}"]}

    def _mfxstat(self, c):
        from nipy.algorithms.statistics import mixed_effects_stat as mes
        n, p = c["n"], c["p"]
        rs = np.random.RandomState(c["seed"])
        Y = rs.randint(-16, 17, size=(n, p)) / 4.0
        V1 = rs.choice([0.0, 0.25, 0.5, 1.0, 2.0, 4.0], size=(n, p))
        g = np.array([0] * (n // 2) + [1] * (n - n // 2))
        Y[g == 1] += rs.choice([0.0, 1.0, 3.0])
        if c["design"] == "ones":
            X = np.ones((n, 1))
        elif c["design"] == "group":
            X = np.vstack((np.ones(n), g)).T
        else:
            X = np.vstack((np.ones(n), g, np.arange(n) - (n - 1) / 2.0)).T
        col = min(c["column"], X.shape[1] - 1)
        kw = {} if c["default_niter"] else {"n_iter": c["niter"]}
        niter = 5 if c["default_niter"] else c["niter"]
        if p == 1:
            Yin, Vin = Y[:, 0].copy(), V1[:, 0].copy()     # 1-D input (check_arrays adds the test axis)
        else:
            Yin, Vin = Y.copy(), V1.copy()

        def em_ref(Xd):
            P = np.linalg.pinv(Xd)
            beta = P @ Y; Yh = Xd @ beta; V2 = np.mean((Y - Yh) ** 2, 0)
            for _ in range(niter):
                prec = 1.0 / (V2 + V1)
                Y_ = prec * (V2 * Y + V1 * Yh)
                cvar = V1 * V2 * prec
                beta = P @ Y_; Yh = Xd @ beta
                V2 = np.mean((Y_ - Yh) ** 2, 0) + cvar.mean(0)
            tv = V2 + V1
            ll = -0.5 * (np.sum((Y - Yh) ** 2 / tv, 0) + np.sum(np.log(tv), 0) + np.log(2 * np.pi) * n)
            return beta, V2, ll
        fail = None
        with np.errstate(all="ignore"):
            mask = 1 - np.eye(X.shape[1])[col]
            b1, v1_, ll1 = em_ref(X)
            _, v0_, ll0 = em_ref(X * mask)
            f_ref = np.maximum(0, 2 * (ll1 - ll0))
            t_ref = np.sqrt(f_ref) * np.sign(b1[col])
            t = np.ravel(mes.mfx_stat(Yin, Vin, X, col, return_t=True, **kw)[0])
            f = np.ravel(mes.mfx_stat(Yin, Vin, X, col, return_t=False, return_f=True, **kw)[0])
            eff = np.ravel(mes.mfx_stat(Yin, Vin, X, col, return_t=False, return_effect=True, **kw)[0])
            var = np.ravel(mes.mfx_stat(Yin, Vin, X, col, return_t=False, return_var=True, **kw)[0])
        ok = (v1_ > 1e-8) & (v0_ > 1e-8) & np.isfinite(f_ref)
        for j in range(p):
            if not ok[j]:
                continue
            if not close(eff[j], b1[col, j], 1e-8, 1e-9):
                fail = f"mfx_stat(return_effect) = {eff[j]} but the EM estimate of beta[{col}] after {niter} iterations is {b1[col, j]}"
            elif not close(var[j], v1_[j], 1e-8, 1e-9):
                fail = f"mfx_stat(return_var) = {var[j]} but the EM group variance after {niter} iterations is {v1_[j]}"
            elif not close(f[j], f_ref[j], 1e-6, 1e-7):
                fail = f"mfx_stat(return_f) = {f[j]} but 2*(loglik_full - loglik_null) after {niter} EM iterations is {f_ref[j]}"
            elif not close(t[j], t_ref[j], 1e-6, 1e-7):
                fail = f"mfx_stat(return_t) = {t[j]} but sign(beta)*sqrt(F) = {t_ref[j]}"
            if fail:
                fail += f" (design={c['design']}, column={col}, Y={Y[:, j].tolist()}, V1={V1[:, j].tolist()})"
                break
        if fail is None and c["design"] == "group" and col == 1 and np.all(ok):
            with np.errstate(all="ignore"):
                tt = np.ravel(mes.two_sample_ttest(Yin, Vin, g, **kw)); ff = np.ravel(mes.two_sample_ftest(Yin, Vin, g, **kw))
            if not (_arr_same(tt, t) and _arr_same(ff, f)):
                fail = f"two_sample_ttest/ftest differ from mfx_stat on the [1, group] design: {tt} {ff} vs {t} {f}"
        if fail is None and c["design"] == "ones" and np.all(ok):
            with np.errstate(all="ignore"):
                tt = np.ravel(mes.one_sample_ttest(Yin, Vin, **kw)); ff = np.ravel(mes.one_sample_ftest(Yin, Vin, **kw))
            if not (_arr_same(tt, t) and _arr_same(ff, f)):
                fail = f"one_sample_ttest/ftest differ from mfx_stat on the constant design: {tt} {ff} vs {t} {f}"
        # the EM iterates themselves against the model (general design; pinv(X) handed over as computed)
        lines, impl = [], []
        if niter <= 2 and n <= 8:
            Pm = np.linalg.pinv(X)
            for j in range(min(p, 2)):
                mod = mes.MixedEffectsModel(X, n_iter=niter).fit(Y[:, j].copy(), V1[:, j].copy())
                lines.append(f"memx {niter} {pmat(X)} {pmat(Pm)} {plist(Y[:, j].tolist())} {plist(V1[:, j].tolist())}")
                impl.append(("state", np.ravel(mod.beta_).tolist(), float(np.ravel(mod.V2)[0])))
                if fail is None:
                    la, lb, lc = mod.log_like(Y[:, j], V1[:, j]), mod.predict(Y[:, j], V1[:, j]), mod.score(Y[:, j], V1[:, j])
                    if not (_arr_same(la, lb) and _arr_same(la, lc)):
                        fail = f"MixedEffectsModel.predict/score differ from log_like: {la} {lb} {lc}"
        # t_stat: the one-sample Student statistic of each column (baseline 0)
        with np.errstate(all="ignore"):
            ts = np.ravel(mes.t_stat(Y))
        for j in range(min(p, 2)):
            if np.std(Y[:, j]) > 0:
                lines.append(f"os student 0 0 {plist(Y[:, j].tolist())}")
                impl.append(("os", "student", float(ts[j]), n))
                if fail is None and not _same(ts[j], d_student([F(v) for v in Y[:, j].tolist()], F(0))):
                    fail = f"t_stat(Y)[{j}] = {ts[j]}, the one-sample Student statistic of {Y[:, j].tolist()} is {d_student([F(v) for v in Y[:, j].tolist()], F(0))}"
        return {"lines": lines, "impl": impl, "oracle": fail, "nontrivial": True,
                "tags": ["mfxstat", "design=" + c["design"], f"ms-niter={'default' if c['default_niter'] else niter}"]}

    def _vbglm(self, c):
        """two-level linear model loops on a general design: `fff_glm_twolevel_EM` (C, rebuilt),
        `two_level_glm` (variational Bayes), `generate_data`"""
        from nipy.algorithms.statistics import bayesian_mixed_effects as bme
        from nipy.algorithms.statistics import mixed_effects_stat as mes
        n, p, niter = c["n"], c["p"], c["niter"]
        rs = np.random.RandomState(c["seed"])
        g = np.array([1] * c["n1"] + [0] * (n - c["n1"]))
        if c["design"] == "ones":
            X = np.ones((n, 1))
        elif c["design"] == "group":
            X = np.vstack((np.ones(n), g)).T.astype(float)
        elif c["design"] == "origin":          # regression through the origin
            X = ((np.arange(n) + 1.0) / 2.0).reshape(n, 1)
        elif c["design"] == "group+cov0":      # one group indicator and a covariate, no intercept
            X = np.vstack((g, (np.arange(n) + 1.0) / 2.0)).T.astype(float)
        else:
            X = np.vstack((np.ones(n), g, np.arange(n) - (n - 1) / 2.0)).T.astype(float)
        Y = rs.randint(-16, 17, size=(n, p)) / 4.0
        VY = rs.choice([0.25, 0.5, 1.0, 2.0, 4.0], size=(n, p))
        Pm = np.linalg.pinv(X)
        lines, impl, fail = [], [], None
        if not np.allclose(Pm @ X, np.eye(X.shape[1]), atol=1e-10):
            return {"lines": [], "impl": [], "oracle": None, "nontrivial": False, "tags": ["vbglm", "rank-deficient"]}
        snap = Snapshot(Y=Y, VY=VY, X=X)
        try:
            B, S2, dof = bme.two_level_glm(Y if p > 1 else Y[:, 0], VY if p > 1 else VY[:, 0], X, niter=niter)
        except Exception as e:   # noqa
            return {"lines": [], "impl": [], "nontrivial": True, "tags": ["vbglm", "raised"],
                    "oracle": f"two_level_glm(n={n}, design={c['design']}, niter={niter}) raised {type(e).__name__}: {e}"}
        mut = snap.changed()
        B = np.reshape(B, (X.shape[1], p)); S2 = np.reshape(S2, (p,))
        if dof != n - X.shape[1]:
            fail = f"two_level_glm dof = {dof}, expected n - p = {n - X.shape[1]}"
        small = niter <= 2 and n <= 8
        for j in range(p):
            y, vy = Y[:, j], VY[:, j]
            if small and j < 2:
                lines.append(f"vbglm {niter} {pmat(X)} {pmat(Pm)} {plist(y.tolist())} {plist(vy.tolist())}")
                impl.append(("state", B[:, j].tolist(), float(S2[j])))
                cb, cs2 = c_glm2(X, Pm, y, vy, niter)
                lines.append(f"glm2 {niter} {pmat(X)} {pmat(Pm)} {plist(y.tolist())} {plist(vy.tolist())}")
                impl.append(("state", cb, float(cs2)))
            if fail is None:
                # columns are independent problems
                b1, s1, _ = bme.two_level_glm(y.copy(), vy.copy(), X, niter=niter)
                if not (_arr_same(b1, B[:, j]) and _same(np.ravel(s1)[0] if np.ndim(s1) else s1, S2[j])):
                    fail = f"two_level_glm does not treat column {j} independently: {B[:, j].tolist()} vs {np.ravel(b1).tolist()}"
            if fail is None and niter >= 1:
                # antisymmetry: negating the data negates the effects, the variance is unchanged
                b2, s2_, _ = bme.two_level_glm(-y, vy.copy(), X, niter=niter)
                if not (_arr_same(np.ravel(b2), -B[:, j]) and _same(float(np.ravel(s2_)[0]), S2[j])):
                    fail = f"two_level_glm(-y) = {np.ravel(b2).tolist()}, expected {(-B[:, j]).tolist()} (y={y.tolist()}, vy={vy.tolist()})"
            if fail is None and niter >= 1:
                # first C iteration from the infinite initial variance: ordinary least squares, and the C loop
                # and the VB loop agree on the effects after one iteration (they differ by n vs n - p in s2 only)
                cb, cs2 = c_glm2(X, Pm, y, vy, 1)
                vb, vs, _ = bme.two_level_glm(y.copy(), vy.copy(), X, niter=1)
                ols = Pm @ y
                if not (_arr_same(cb, ols) and _arr_same(np.ravel(vb), ols)):
                    fail = f"first iteration is not least squares: C {cb}, VB {np.ravel(vb).tolist()}, pinv(X) y = {ols.tolist()}"
                elif not _same(cs2 * n, float(np.ravel(vs)[0]) * (n - X.shape[1]), 1e-8):
                    fail = f"after one iteration n * s2(C) = {cs2 * n} differs from (n - p) * s2(VB) = {float(np.ravel(vs)[0]) * (n - X.shape[1])}"
        # generate_data: with zero variances the data are exactly X beta; negative variances are refused
        if fail is None:
            beta = rs.randint(-4, 5, size=(X.shape[1], p)).astype(float)
            Yg = mes.generate_data(X, beta, 0.0, np.zeros((n, p)))
            if not np.array_equal(Yg, X @ beta):
                fail = f"generate_data(X, beta, V2=0, V1=0) is not X beta"
            try:
                mes.generate_data(X, beta, 1.0, -np.ones((n, p)))
                fail = "generate_data accepted negative first-level variances"
            except ValueError:
                pass
        return {"lines": lines, "impl": impl, "oracle": fail, "nontrivial": True, "mutated": mut,
                "tags": ["vbglm", "vb-design=" + c["design"], f"vb-niter={niter}", "vb-small" if small else "vb-large"]}

    def _pymfxaxis(self, c):
        from nipy.labs.group import onesample as los
        from nipy.labs.group import twosample as lts
        rs = np.random.RandomState(c["seed"])
        shape, axis, stat, base = tuple(c["shape"]), c["axis"], c["stat"], c["base"]
        n = shape[axis]
        Y = rs.randint(-16, 17, size=shape) / 4.0
        V = rs.choice([0.0, 0.25, 0.5, 1.0, 2.0, 4.0], size=shape)
        magics = np.array(c["magics"], dtype=float)
        dflt = c["default_niter"]
        niter = 5 if dflt else c["niter"]
        lines, impl, fail = [], [], None
        Ym = np.moveaxis(Y, axis, 0).reshape(n, -1); Vm = np.moveaxis(V, axis, 0).reshape(n, -1)
        if not c["two"]:
            T = los.stat_mfx(Y, V, stat, base, axis, magics) if dflt else los.stat_mfx(Y, V, stat, base, axis, magics, niter)
            want_shape = list(shape); want_shape[axis] = len(magics)
            if list(T.shape) != want_shape:
                fail = f"onesample.stat_mfx output shape {T.shape}, expected {want_shape}"
            Tm = np.moveaxis(T, axis, 0).reshape(len(magics), -1) if fail is None else None
            for j in range(Ym.shape[1] if fail is None else 0):
                y = np.ascontiguousarray(Ym[:, j]); v = np.ascontiguousarray(Vm[:, j])
                one = los.stat_mfx(y, v, stat, base, 0, magics, niter)
                if not _arr_same(one, Tm[:, j]):
                    fail = (f"onesample.stat_mfx({stat}, axis={axis}, niter={'default' if dflt else niter}) on shape {shape}: "
                            f"slice {j} gives {Tm[:, j].tolist()} but the same vectors alone with niter={niter} give {one.tolist()}")
                    break
                for k, m in enumerate(c["magics"]):
                    ref = los.stat_mfx(np.array(flip(y.tolist(), m)), v, stat, base, 0, None, niter)
                    if not _arr_same(ref, Tm[k:k + 1, j]):
                        fail = (f"onesample.stat_mfx({stat}, Magics=[{m}]) = {Tm[k, j]} differs from the statistic of the "
                                f"sign-flipped data with unchanged variances {ref.tolist()}")
                        break
                    # statistics whose C code is identical in the installed extension and the tree under test
                    if stat in ("mean_gauss_mfx", "mean_mfx", "sign_mfx") and fail is None:
                        cc = c_osmfx(stat, np.array(flip(y.tolist(), m)), v, base, niter)
                        if not _same(cc, Tm[k, j], 1e-8):
                            fail = (f"onesample.stat_mfx({stat}, base={base}, niter={niter}, Magics=[{m}]) = {Tm[k, j]} but "
                                    f"lib/fff gives {cc} (y={y.tolist()}, v={v.tolist()})")
                            break
                if fail:
                    break
            # Gaussian pdf fit: (mu, s2) along the axis, with / without the zero-mean constraint
            if fail is None:
                MU, S2 = los.pdf_fit_gmfx(Y, V, axis, niter, c["constraint"], base)
                MUm = np.moveaxis(MU, axis, 0).reshape(1, -1); S2m = np.moveaxis(S2, axis, 0).reshape(1, -1)
                for j in range(Ym.shape[1]):
                    y = np.ascontiguousarray(Ym[:, j]); v = np.ascontiguousarray(Vm[:, j])
                    mu, s2 = c_gmfx_fit(y, v, niter, c["constraint"])
                    if not (_same(mu, MUm[0, j], 1e-8) and _same(s2, S2m[0, j], 1e-8)):
                        fail = (f"pdf_fit_gmfx(axis={axis}, niter={niter}, constraint={c['constraint']}) slice {j}: "
                                f"({MUm[0, j]}, {S2m[0, j]}) but lib/fff on the slice gives ({mu}, {s2})")
                        break
                    if niter <= 3 and n <= 8 and j < 2:
                        lines.append(f"gmfx {niter} {c['constraint']} {plist(y.tolist())} {plist(v.tolist())}")
                        impl.append(("rats", [float(MUm[0, j]), float(S2m[0, j])]))
            if fail is None and stat in ("mean_mfx", "sign_mfx", "wilcoxon_mfx", "median_mfx", "elr_mfx"):
                W, Z = los.pdf_fit_mfx(Y, V, axis, niter, 0, base)
                Wm = np.moveaxis(W, axis, 0).reshape(n, -1)
                if W.shape != shape or Z.shape != shape or not np.allclose(Wm.sum(0), 1.0, atol=1e-9):
                    fail = f"pdf_fit_mfx(axis={axis}, niter={niter}): weights along the axis sum to {Wm.sum(0).tolist()}, not 1"
        else:
            n2 = c["n2"]
            sh2 = list(shape); sh2[axis] = n2
            Y2 = rs.randint(-16, 17, size=tuple(sh2)) / 4.0
            V2 = rs.choice([0.0, 0.25, 0.5, 1.0, 2.0], size=tuple(sh2))
            tot = math.comb(n + n2, n)
            ms = [m % tot for m in c["magics"]]
            mg = np.array(ms, dtype=float)
            T = lts.stat_mfx(Y, V, Y2, V2, "student_mfx", axis, mg) if dflt else \
                lts.stat_mfx(Y, V, Y2, V2, "student_mfx", axis, mg, niter)
            Y2m = np.moveaxis(Y2, axis, 0).reshape(n2, -1); V2m = np.moveaxis(V2, axis, 0).reshape(n2, -1)
            Tm = np.moveaxis(T, axis, 0).reshape(len(ms), -1)
            for j in range(Ym.shape[1]):
                a = np.ascontiguousarray(Ym[:, j]); va = np.ascontiguousarray(Vm[:, j])
                b = np.ascontiguousarray(Y2m[:, j]); vb = np.ascontiguousarray(V2m[:, j])
                one = lts.stat_mfx(a, va, b, vb, "student_mfx", 0, mg, niter)
                if not _arr_same(one, Tm[:, j]):
                    fail = (f"twosample.stat_mfx(axis={axis}, niter={'default' if dflt else niter}) on shape {shape}: slice {j} "
                            f"gives {Tm[:, j].tolist()} but the same vectors alone with niter={niter} give {one.tolist()}")
                    break
                for k, m in enumerate(ms):
                    px, pv = c_tsapply(a, b, m, va, vb)
                    cc = c_tsmfx(px, pv, n, niter)
                    if math.isfinite(cc) and not _same(cc, Tm[k, j], 1e-7):
                        fail = (f"twosample.stat_mfx(niter={niter}, Magics=[{m}]) = {Tm[k, j]} but lib/fff on the relabelled "
                                f"sample gives {cc}")
                        break
                if fail:
                    break
        return {"lines": lines, "impl": impl, "oracle": fail, "nontrivial": True,
                "tags": ["pymfxaxis", "pm-two" if c["two"] else "pm-" + stat, f"pm-niter={'default' if dflt else niter}"]}

    def _ptopt(self, c):
        from nipy.labs.group import permutation_test as pt
        n, p, stat, base, axis, niter = c["n"], c["p"], c["stat"], c["base"], c["axis"], c["niter"]
        rs = np.random.RandomState(c["seed"])
        data = rs.randint(-8, 9, size=(n, p)) / 2.0 + c["shift"]
        var = rs.choice([0.25, 0.5, 1.0, 2.0], size=(n, p))
        XYZ = np.vstack([np.arange(p), np.zeros(p, int), np.zeros(p, int)])
        np.random.seed(c["seed"])
        fail = None
        lines, impl = [], []
        diam_raised = False
        tr = (lambda a: a.copy()) if axis == 0 else (lambda a: np.ascontiguousarray(a.T))
        graph = bool(c.get("graph")) and not c["two"]
        if stat == "student_mfx":
            base = 0.0    # the installed extension predates the baseline fix of the likelihood-ratio statistics
        if not c["two"]:
            kw = dict(stat_id=stat, base=base, ndraws=c["ndraws"], axis=axis)
            if c["mfx"]:
                kw.update(vardata=tr(var), niter=niter)
            if graph:
                from nipy.algorithms.graph import wgraph_from_3d_grid
                P = pt.permutation_test_onesample_graph(tr(data), wgraph_from_3d_grid(XYZ.T, 18), **kw)
            else:
                P = pt.permutation_test_onesample(tr(data), XYZ, **kw)
            nmax = 1 << n

            def one(col, vcol, m):
                x = np.array(flip(col, m))
                return c_osmfx(stat, x, np.array(vcol), base, niter) if c["mfx"] else c_os(stat, x, base)

            def perm_map(m):        # the statistic map under relabelling m, through the same entry point
                return np.atleast_1d(pt.onesample_stat(P.data, P.vardata, P.stat_id, P.base, P.axis,
                                                       np.array([m], dtype=float), P.niter).squeeze())
            if n == 2 and stat in ("median", "laplace"):
                return {"lines": [], "impl": [], "oracle": None, "nontrivial": False, "tags": ["ptopt", "skipped"]}
            allT = [[one(data[:, j].tolist(), var[:, j].tolist(), m) for m in range(nmax)] for j in range(p)]
        else:
            n2 = c["n2"]
            data2 = rs.randint(-8, 9, size=(n2, p)) / 2.0
            var2 = rs.choice([0.25, 0.5, 1.0, 2.0], size=(n2, p))
            st = "student_mfx" if c["mfx"] else ("student" if stat in ("student", "mean", "median", "laplace") else "wilcoxon")
            kw = dict(stat_id=st, ndraws=c["ndraws"], axis=axis)
            if c["mfx"]:
                kw.update(vardata1=tr(var), vardata2=tr(var2), niter=niter)
            P = pt.permutation_test_twosample(tr(data), tr(data2), XYZ, **kw)
            nmax = math.comb(n + n2, n)

            def perm_map(m):
                return np.atleast_1d(np.squeeze(pt.twosample_stat(P.data1, P.vardata1, P.data2, P.vardata2, P.stat_id,
                                                                  P.axis, np.array([m], dtype=float), P.niter)))
            allT = []
            for j in range(p):
                ts = []
                for m in range(nmax):
                    if c["mfx"]:
                        px, pv = c_tsapply(data[:, j], data2[:, j], m, var[:, j], var2[:, j])
                        ts.append(c_tsmfx(px, pv, n, niter))
                    else:
                        px, _ = c_tsapply(data[:, j], data2[:, j], m)
                        ts.append(c_ts(st, px, n))
                allT.append(ts)
        T = np.atleast_1d(P.Tvalues)
        draws = np.atleast_1d(P.random_Tvalues)
        tag_stat = "mfx" if c["mfx"] else "rfx"
        usable = all(np.all(np.isfinite(ts)) for ts in allT) and np.all(np.isfinite(T))
        for j in range(p):
            if usable and not _same(T[j], allT[j][0], 1e-7):
                fail = (f"permutation_test(axis={axis}, base={base}, stat={stat}, niter={niter}).Tvalues[{j}] = {T[j]} but the "
                        f"statistic of voxel {j} is {allT[j][0]}")
                break
        # the null sample: `ndraws` statistics, each the statistic of some relabelling of some voxel
        gated = (c["two"] and axis == 1) or (c["mfx"] and niter != 5)      # see STRICT_NULL_DRAWS
        if fail is None and usable and np.all(np.isfinite(draws)) and (STRICT_NULL_DRAWS or not gated):
            pool = np.sort(np.array([v for ts in allT for v in ts]))
            if len(draws) != c["ndraws"]:
                fail = (f"permutation_test(axis={axis}, two={c['two']}): {len(draws)} null draws (random_Tvalues), "
                        f"ndraws={c['ndraws']} were requested")
            else:
                # (two-sample mixed effects: the null sample reorders the subjects within the groups; where the
                #  estimated group difference is exactly 0 for some split, its sign - hence the sign and, with an
                #  unconverged EM, the size of the likelihood-ratio statistic - is decided by rounding)
                exact_tie = c["two"] and c["mfx"] and bool(np.any(pool == 0.0))
                if c["two"] and c["mfx"]:          # a near tie: matched up to the sign
                    pool = np.sort(np.abs(pool)); draws_cmp = np.abs(draws)
                else:
                    draws_cmp = draws
                for d in draws_cmp:
                    if c["two"] and c["mfx"] and d == 0.0:
                        # the same tie seen from the other side: this ordering of the subjects within the groups
                        # makes the estimated group difference exactly 0 (sign 0, statistic 0.0) while the
                        # ordering the reference uses leaves a rounding-sized difference of either sign
                        continue
                    k = np.searchsorted(pool, d)
                    near = min(abs(pool[min(k, len(pool) - 1)] - d), abs(pool[max(k - 1, 0)] - d))
                    if near > 1e-7 * max(1.0, abs(d)) and not exact_tie:
                        fail = (f"permutation_test(axis={axis}, two={c['two']}, stat={stat}): null draw {d} is not the "
                                f"statistic of any relabelling of any voxel (not a valid relabelling of the data)")
                        break
        pv = np.atleast_1d(P.pvalue())
        if fail is None and (np.any(~(pv > 0)) or np.any(pv > 1)):
            fail = f"pvalue() = {pv.tolist()} not in (0, 1] (axis={axis}, stat={stat})"
        finite_draws = len(draws) > 0 and np.all(np.isfinite(draws)) and len(draws) == P.ndraws
        if usable and finite_draws:
            for j in range(min(p, 3)):
                lines.append(f"pvalc {fr(float(T[j]))} {plist(draws.tolist())}")
                impl.append(("rats", [float(pv[j])]))
            # pvalue(Tvalues=...) with explicit values beyond both ends of the null sample
            ext = np.array([draws.min() - 1.0, draws.max() + 1.0, float(np.median(draws))])
            pe = np.atleast_1d(P.pvalue(ext))
            for k in range(3):
                lines.append(f"pvalc {fr(float(ext[k]))} {plist(draws.tolist())}")
                impl.append(("rats", [float(pe[k])]))
            if fail is None and not np.all((pe > 0) & (pe <= 1)):
                fail = f"pvalue({ext.tolist()}) = {pe.tolist()} not in (0, 1]"
            # z-scores: decreasing function of the p-value
            z = np.atleast_1d(P.zscore(ext))
            for k in range(3):
                lines.append(f"srczclip {fr(float(pe[k]))}")
                impl.append(("zclip", float(z[k])))
            if fail is None and not (np.all(np.isfinite(z)) and z[0] <= z[2] <= z[1]):
                fail = f"zscore({ext.tolist()}) = {z.tolist()} is not monotone in the statistic"
            # height threshold: P(null draw >= threshold) <= pval, at dyadic levels (ceil exact)
            for pval in (0.5, 0.25, 0.125, 1.0, 0.0):
                h = P.height_threshold(pval)
                lines.append(f"hthresh {fr(pval)} {plist(draws.tolist())}")
                impl.append(("text", "inf" if math.isinf(h) else fr(float(h))))
                if fail is None and math.isfinite(h) and np.mean(draws >= h) > pval + 1e-12:
                    fail = (f"height_threshold({pval}) = {h}: a fraction {np.mean(draws >= h)} of the null draws reaches it")
        if fail is None and usable:
            clusters = regions = None
            if c["clusters"]:
                th = float(np.median(T))
                clusters = [(th, c.get("diam"))] if not graph else [(th, None)]
                regions = [np.array([0] * (p // 2) + [1] * (p - p // 2))]
            state = np.random.get_state()
            try:
                vox, cl, rg = P.calibrate(nperms=c["nperms"], clusters=clusters, regions=regions)
            except Exception as e:   # noqa
                vox = None
                if clusters is not None and clusters[0][1] is not None:
                    # the diameter-constrained blob extraction (`extract_clusters_from_diam`, documented as
                    # experimental) fails on plateaus of the statistic map (recursion on an empty sub-region):
                    # no p-value exists to state the property about; recorded as a branch, not a violation
                    diam_raised = True
                else:
                    fail = (f"calibrate(nperms={c['nperms']}, clusters={clusters}, regions={'given' if regions else None}) "
                            f"raised {type(e).__name__}: {e} (axis={axis}, stat={stat})")
            if vox is not None:
                pvals = np.atleast_1d(vox["p_values"]); cp = np.atleast_1d(vox["Corr_p_values"])
                exhaustive = c["nperms"] is None or c["nperms"] >= nmax
                for j in range(p):
                    if not (0 < pvals[j] <= 1) or not (0 < cp[j] <= 1):
                        fail = (f"calibrate(nperms={c['nperms']}, axis={axis}, stat={stat}, base={base}): p_values[{j}]={pvals[j]}, "
                                f"Corr_p_values[{j}]={cp[j]} not in (0, 1]")
                        break
                    if exhaustive:
                        lo = sum(1 for v in allT[j] if v >= T[j] + 1e-7) / float(nmax)
                        hi = sum(1 for v in allT[j] if v >= T[j] - 1e-7) / float(nmax)
                        if not (lo - 1e-9 <= pvals[j] <= hi + 1e-9):
                            fail = (f"calibrate exhaustive (axis={axis}, stat={stat}, base={base}, niter={niter}): p_values[{j}]="
                                    f"{pvals[j]} but enumerating the {nmax} relabellings once gives {hi}")
                            break
                # ---- the counting arithmetic against the model -------------------------------------
                # the relabellings calibrate used: all of them, or the np.random draws it made (input)
                if exhaustive:
                    mnums = list(range(nmax))
                else:
                    np.random.set_state(state)
                    mm = np.floor(np.random.uniform(0, nmax, size=c["nperms"])); mm[0] = 0
                    mnums = [int(v) for v in mm]
                rows = [perm_map(m) for m in mnums]
                if all(np.all(np.isfinite(r)) for r in rows) and len(rows) <= 64:
                    rtxt = f"{len(rows)} " + " ".join(plist(r.tolist()) for r in rows)
                    lines.append(f"calib {plist(T.tolist())} {rtxt}")
                    impl.append(("multi", [pvals.tolist(), cp.tolist(), np.atleast_1d(vox["perm_maxT_values"]).tolist()]))
                    if fail is None and not np.array_equal(rows[0], T):
                        fail = (f"calibrate: the first relabelling (magic number 0) gives {rows[0].tolist()}, not the observed "
                                f"statistic map {T.tolist()} (identity relabelling does not reproduce the observed statistic)")
                    for res in (cl if c["clusters"] else []):
                        labels = np.asarray(res["labels"])
                        lines.append(f"csize {len(labels)} {' '.join(str(int(v)) for v in labels)}")
                        impl.append(("rats", np.atleast_1d(res["size_values"]).astype(float).tolist()))
                        prow_s, prow_f = [], []
                        for r in rows:
                            if res["diam"] is not None:
                                pl = pt.extract_clusters_from_diam(r, P.XYZ, res["thresh"], res["diam"])
                            elif P.XYZ is None:
                                pl = pt.extract_clusters_from_graph(r, P.G, res["thresh"])
                            else:
                                pl = pt.extract_clusters_from_thresh(r, P.XYZ, res["thresh"])
                            sv, fv = pt.compute_cluster_stats(r, pl, P.random_Tvalues)
                            prow_s.append(np.atleast_1d(sv).astype(float).tolist())
                            prow_f.append(np.atleast_1d(fv).astype(float).tolist())
                        for key, prow in (("size", prow_s), ("Fisher", prow_f)):
                            obs = np.atleast_1d(res[key + "_values"]).astype(float)
                            if np.all(np.isfinite(obs)) and all(np.all(np.isfinite(r_)) for r_ in prow):
                                lines.append(f"poolp {plist(obs.tolist())} {len(prow)} " + " ".join(plist(r_) for r_ in prow))
                                impl.append(("multi", [np.atleast_1d(res[key + "_p_values"]).tolist(),
                                                       np.atleast_1d(res[key + "_Corr_p_values"]).tolist()]))
                    for res in (rg if c["clusters"] else []):
                        F_ = np.atleast_1d(res["Fisher_values"]).astype(float)
                        PF = np.asarray(res["perm_Fisher_values"], dtype=float)
                        if np.all(np.isfinite(F_)) and np.all(np.isfinite(PF)):
                            ties = any(len(set(r_.tolist())) < len(r_) for r_ in PF)
                            lines.append(f"region {plist(F_.tolist())} {len(PF)} " + " ".join(plist(r_.tolist()) for r_ in PF))
                            impl.append(("multi", [np.atleast_1d(res["Fisher_p_values"]).tolist(),
                                                   None if ties else np.atleast_1d(res["Fisher_Corr_p_values"]).tolist()]))
                if fail is None and c["clusters"]:
                    for res in list(cl) + list(rg):
                        for key, val in res.items():
                            if key.endswith("p_values"):
                                val = np.atleast_1d(val)
                                if val.size and (np.any(~(val > 0)) or np.any(val > 1)):
                                    fail = (f"calibrate(nperms={c['nperms']}, clusters={clusters}, regions given): {key} = "
                                            f"{val.tolist()} not in (0, 1]")
                                    break
                        if fail:
                            break
        return {"lines": lines, "impl": impl, "oracle": fail, "nontrivial": True,
                "tags": ["ptopt", "po-" + tag_stat, f"po-axis={axis}", "po-two" if c["two"] else "po-one",
                         "po-clusters" if c["clusters"] else "po-voxels", "po-graph" if graph else "po-grid",
                         "po-diam" if c["clusters"] and c.get("diam") is not None and not graph else "po-nodiam"]
                        + (["po-diam-raised"] if diam_raised else [])}

    # ------------------------------------------------------------------
    def compare(self, case, impl_obs, model_out):
        kind = impl_obs[0]
        if kind == "text":
            return None if impl_obs[1] == model_out else f"impl={impl_obs[1]!r} model={model_out!r}"
        if kind == "rats":
            vals = impl_obs[1]
            if any(not math.isfinite(v) for v in vals):
                return None
            return cmp_rats(vals, model_out, 1e-8, 1e-9)
        if kind == "fisher":      # -sum(log(pseudo p)) over the voxels of each cluster / region; log is finished here
            if model_out.startswith(("error", "bad-op")):
                return f"model says {model_out}"
            _, labels, label_values, fisher, rf = impl_obs
            pc, pr = [[float(F(t)) for t in part.split()] for part in model_out.split(";")]
            labels = np.array(labels)
            if len(pc) != len(labels) or len(pr) != len(labels):
                return f"model answered {len(pc)} pseudo p-values for {len(labels)} voxels"
            nclust = int(labels.max()) + 1 if len(labels) else 0
            wantc = [0.0] if nclust == 0 else [-sum(math.log(pc[j]) for j in np.where(labels == i)[0]) for i in range(nclust)]
            wantr = [-sum(math.log(pr[j]) for j in np.where(labels == lv)[0]) for lv in label_values]
            for name, got, want in (("cluster", fisher, wantc), ("region", rf, wantr)):
                if got is None:
                    continue
                if len(got) != len(want):
                    return f"{name} Fisher values: impl has {len(got)}, model {len(want)}"
                for i, (a, b) in enumerate(zip(got, want)):
                    if not close(a, b, 1e-9, 1e-12):
                        return f"{name} {i}: Fisher impl={a!r} model={b!r}"
            return None
        if kind == "zclip":       # zscore = norm.isf(clip(p)): the clip is the regenerated term, isf is finished here
            if model_out.startswith(("error", "bad-op")):
                return f"model says {model_out}"
            import scipy.stats
            want = float(scipy.stats.norm.isf(float(F(model_out.strip()))))
            return None if close(impl_obs[1], want, 1e-9, 1e-9) else f"zscore impl={impl_obs[1]!r} model={want!r}"
        if kind == "pv":
            if model_out.startswith(("error", "bad-op")):
                return f"model says {model_out}"
            return cmp_rats([impl_obs[1]], model_out.split()[0], 1e-12, 1e-12)
        if kind == "os":
            stat, t = impl_obs[1], impl_obs[2]
            n = impl_obs[3] if len(impl_obs) > 3 else None
            return _cmp_os(stat, t, model_out, n)
        if kind == "tsmfx":
            _, t, px, pv, n1 = impl_obs
            if model_out.startswith(("error", "bad-op")):
                return f"model says {model_out}"
            sg, b1, s21, b0, s20 = [q.strip() for q in model_out.split("|")]
            n = len(px)
            X = np.array([[1.0, 1.0]] * n1 + [[1.0, 0.0]] * (n - n1))
            bb1 = [float(F(q)) for q in b1.split()]; bb0 = [float(F(q)) for q in b0.split()]
            ll = glm_ll(px, pv, X, bb1, float(F(s21))); ll0 = glm_ll(px, pv, X, bb0, float(F(s20)))
            want = float(F(sg)) * math.sqrt(max(2.0 * (ll - ll0), 0.0))
            return None if close(t, want, 1e-7, 1e-7) else f"impl={t!r} model={want!r}"
        if kind == "mfxflag":
            toks = model_out.split()
            if len(toks) != 2 or model_out.startswith(("error", "bad-op")):
                return f"model says {model_out}"
            return None if int(toks[1]) == impl_obs[1] else f"empirical field impl={impl_obs[1]} model={toks[1]} ({toks[0]})"
        if kind == "mats":
            if model_out.startswith(("error", "bad-op")):
                return f"model says {model_out}"
            parts = [q.strip() for q in model_out.split("|")]
            if len(parts) != len(impl_obs[1]):
                return "number of matrices differs"
            for k, (mat, out) in enumerate(zip(impl_obs[1], parts)):
                r = cmp_rats([v for row in mat for v in row], out, 1e-15, 1e-15)
                if r:
                    return f"matrix {k}: {r}"
            return None
        if kind == "state":
            _, b, s2 = impl_obs
            if model_out.startswith(("error", "bad-op")):
                return f"model says {model_out}"
            mb, ms = [q.strip() for q in model_out.split("|")]
            r = cmp_rats(list(b), mb, 1e-8, 1e-9)
            if r:
                return "effects " + r
            if ms == "inf":
                return None if math.isinf(s2) else f"variance impl={s2!r} model=inf"
            return cmp_rats([s2], ms, 1e-8, 1e-9) and "variance " + cmp_rats([s2], ms, 1e-8, 1e-9)
        if kind == "multi":
            if model_out.startswith(("error", "bad-op")):
                return f"model says {model_out}"
            parts = model_out.split(";")
            if len(parts) != len(impl_obs[1]):
                return f"model answered {len(parts)} groups, implementation has {len(impl_obs[1])}"
            for g, (vals, out) in enumerate(zip(impl_obs[1], parts)):
                if vals is None:
                    continue
                r = cmp_rats(vals, out.strip(), 1e-12, 1e-12)
                if r:
                    return f"group {g}: {r}"
            return None
        if kind == "axis":
            _, stat, vals, n = impl_obs
            outs = [o.strip() for o in model_out.split(";")] if model_out.strip() else []
            if model_out.startswith(("error", "bad-op")):
                return f"model says {model_out}"
            if len(outs) != len(vals):
                return f"axis: impl has {len(vals)} entries, model {len(outs)}"
            for k, (v, o) in enumerate(zip(vals, outs)):
                r = _cmp_os(stat, v, o, n)
                if r:
                    return f"flat index {k}: {r}"
            return None
        if kind == "lr":
            _, t, xs, var, base = impl_obs
            if model_out.startswith(("error", "bad-op")):
                return f"model says {model_out}"
            sg, mu, v, v0 = (F(tok) for tok in model_out.split())
            if sg == 0:
                return None if t == 0.0 else f"impl={t!r} model=0"
            if v <= 0 or v0 <= 0:
                return None           # log of a non-positive total variance: outside the model
            xc = [a - base for a in xs]
            lr = 2 * (gmfx_nll(xc, var, 0.0, float(v0)) - gmfx_nll(xc, var, float(mu), float(v)))
            want = float(sg) * math.sqrt(max(lr, 0.0))
            return None if close(t, want, 1e-7, 1e-7) else f"impl={t!r} model={want!r}"
        return "unknown observation kind"

    def shrink(self, case):
        k = case["kind"]
        if "magics" in case and len(case["magics"]) > 1:
            for m in case["magics"]:
                c = dict(case); c["magics"] = [m]
                yield c
        if k in ("os", "osmfx") and len(case["x"]) > 2:
            for i in range(len(case["x"])):
                c = dict(case)
                c["x"] = case["x"][:i] + case["x"][i + 1:]
                if "var" in case:
                    c["var"] = case["var"][:i] + case["var"][i + 1:]
                if "magic" in c:
                    c["magic"] = c["magic"] % (1 << len(c["x"]))
                yield c
        if k in ("os", "ts") and case.get("magic"):
            c = dict(case); c["magic"] = 0
            yield c
        if k == "osmfx" and case["niter"] > 0:
            c = dict(case); c["niter"] = case["niter"] - 1
            yield c
        if k == "axis":
            if case.get("magics") and len(case["magics"]) > 1:
                for m in case["magics"]:
                    c = dict(case); c["magics"] = [m]
                    yield c
            for d in range(len(case["shape"])):
                if d != case["axis"] and case["shape"][d] > 1:
                    c = dict(case); c["shape"] = list(case["shape"]); c["shape"][d] = 1
                    yield c
            if case["layout"] != "C":
                c = dict(case); c["layout"] = "C"
                yield c
        if k == "vbglm":
            if case["p"] > 1:
                c = dict(case); c["p"] = 1
                yield c
            if case["niter"] > 1:
                c = dict(case); c["niter"] = case["niter"] - 1
                yield c
        if k == "ptopt":
            for key, small in (("clusters", False), ("graph", False), ("nperms", None), ("p", 2), ("ndraws", 8), ("shift", 0.0)):
                if case.get(key) != small and (not isinstance(small, int) or isinstance(small, bool) or case[key] > small):
                    c = dict(case); c[key] = small
                    yield c
        if k == "fisher":
            for key, small in (("p", 1), ("ndraws", 1), ("dtype", "f8"), ("layout", "C"), ("labels", "one")):
                if case[key] != small:
                    c = dict(case); c[key] = small
                    yield c
        if k == "ptest":
            for key, small in (("p", 2), ("n", 2), ("ndraws", 4)):
                if case[key] > small:
                    c = dict(case); c[key] = small
                    yield c

    def classify(self, case, failure):
        if case.get("kind") == "axis" and case.get("neg_axis"):
            return KEY_NEG_AXIS
        return None


def _cmp_os(stat, t, model_out, n=None):
    """one statistic value of the implementation against one model answer"""
    if model_out.startswith(("error", "bad-op", "unmodelled")):
        return f"model says {model_out}"
    toks = model_out.split()
    if stat in ("mean", "median", "sign", "wilcoxon"):
        return cmp_rats([t], model_out, 1e-12, 1e-12)
    if stat == "student":
        s = float(F(toks[0]))
        if toks[1] == "inf":
            want = s * math.inf if s != 0 else 0.0
        else:
            want = s * math.sqrt(float(F(toks[1])))
        if math.isnan(t) and toks[1] == "inf":
            return None
        return None if _same(t, want) else f"impl={t!r} model={want!r}"
    if stat == "grubb":
        want = math.sqrt(float(F(toks[0])))
        return None if _same(t, want) else f"impl={t!r} model={want!r}"
    if stat == "elr":
        if toks[0] == "0":
            return None if t == 0.0 else f"impl={t!r} model=0"
        s = float(F(toks[1]))
        if toks[0] == "inf":
            return None if t == s * math.inf else f"impl={t!r} model={s * math.inf!r}"
        # finite kind: the value is the oracle's (independent root finder); the model gives the sign
        return None if (sgn(t) == sgn(s) or t == 0.0) and not math.isnan(t) else f"impl={t!r} model sign {s}"
    if stat in ("laplace", "tukey"):
        s, s0, sc = (F(v) for v in toks)
        if s == 0:
            return None if _same(t, 0.0) else f"impl={t!r} model=0.0"
        if sc == 0:
            return None if t == float(s) * math.inf else f"impl={t!r} model={float(s) * math.inf!r}"
        if n is None:
            return None if _lap_ok(t, float(s), float(s0), float(sc)) else f"impl={t!r} model={model_out}"
        want = float(s) * math.sqrt(2 * n * math.log(float(s0 / sc)))
        return None if _same(t, want) else f"impl={t!r} model={want!r}"
    return f"no comparator for statistic {stat}"


def _same(a, b, tol=1e-9):
    a = float(a); b = float(b)
    if math.isnan(a) or math.isnan(b):
        return math.isnan(a) and math.isnan(b)
    if math.isinf(a) or math.isinf(b):
        return a == b
    return abs(a - b) <= tol * max(1.0, abs(a), abs(b))


def _arr_same(a, b):
    a = np.ravel(a); b = np.ravel(b)
    return a.shape == b.shape and all(_same(x, y) for x, y in zip(a, b))


def _lap_ok(t, s, s0, sc):
    # |t| = sqrt(2 n log(s0/s)): n is not part of the model line output; check sign and that t^2/(2 log) is an integer n
    if s0 == sc:
        return abs(t) < 1e-6
    if sgn(t) != sgn(s):
        return False
    n = t * t / (2 * math.log(s0 / sc))
    return abs(n - round(n)) < 1e-6 * max(1.0, n)


CHECK = C17()
