"""C06 extension — contrast objects with their whole constructor state, operation histories,
the contrast factories of the three GLM front ends, multi-session fixed effects, gaussian FDR and
the empirical-null curve.  Used by `harness.props.C06` (case kinds `hist`, `labsfit`, `glm`,
`msess`, `enull`, the translator of the numerical constants and the comparison of the symbolic
model answers)."""
from __future__ import annotations

import ast
import contextlib
import copy
import io
import math
import os
import re
import warnings
from fractions import Fraction

import numpy as np

from harness.util import Snapshot, errname, fr, frs, plist

TINY = 1e-50
DOFMAX = 1e10
DOFS = [1.0, 2.0, 3.0, 5.0, 10.0, 30.0, 100.0, 1e3, 1e6, 1e10, 5e10]
TINYS = [TINY, TINY, TINY, 2.0 ** -10, 2.0 ** -1000, 1.0]
DOFMAXS = [DOFMAX, DOFMAX, DOFMAX, 1.0, 3.0, 3.0, 10.0, 1e3]
LABS_TY = {"t": "t", "F": "F", "tmin-conjunction": "tmin", "foo": "foo"}
KS = [2.0, 0.5, 3.0, 0.125, 1024.0, 2.0 ** -30, -1.0, 1.0, 0.0]
OPNAME = {"fmri": {"s": "stat", "p": "p_value", "z": "z_score"},
          "labs": {"s": "stat", "p": "pvalue", "z": "zscore"}}


# ----------------------------------------------------------------------
# objects
# ----------------------------------------------------------------------
def seen_ty(cls, ty):
    """the string the class receives for the property-level type name"""
    return LABS_TY.get(ty, ty) if cls == "labs" else ty


def eff_ty(ty, q):
    """constructor conversion: a multi-dimensional t becomes F"""
    return "F" if (q > 1 and ty == "t") else ty


def tyname(cls, t):
    """model name of the type string an object carries"""
    if cls == "fmri":
        return {"t": "t", "F": "F", "tmin-conjunction": "tmin"}.get(t, "other")
    return {"t": "t", "F": "F", "tmin": "tmin"}.get(t, "other")


def mk(cls, eff, var, dof, ty, tiny=TINY, dofmax=DOFMAX, order="C"):
    eff = np.array(eff, float)
    var = np.array(var, float)
    q = eff.shape[0]
    var = np.asfortranarray(var) if order == "F" else np.ascontiguousarray(var)
    if cls == "fmri":
        from nipy.modalities.fmri.glm import Contrast
        with contextlib.redirect_stdout(io.StringIO()):
            return Contrast(eff, var, dof=dof, contrast_type=ty, tiny=tiny, dofmax=dofmax)
    import nipy.labs.glm.glm as lg
    k = lg.contrast(q, seen_ty("labs", ty), tiny, dofmax)
    if q == 1:
        k.effect, k.variance = eff[0], var[0, 0]
    else:
        k.effect, k.variance = eff, var
    k.dof = dof
    return k


def call(obj, cls, op, b):
    return np.ravel(np.array(getattr(obj, OPNAME[cls][op])(b), float))


def state(obj, cls):
    """(type string, dof, tiny, dofmax, effect (q, nv), variance (q, q, nv)) of a live object"""
    if cls == "fmri":
        t, tiny, dm, q = obj.contrast_type, obj.tiny, obj.dofmax, obj.dim
    else:
        t, tiny, dm, q = obj.type, obj._tiny, obj._dofmax, obj.dim
    e = np.array(obj.effect, float).reshape(q, -1)
    return t, float(obj.dof), float(tiny), float(dm), e, np.array(obj.variance, float).reshape(q, q, e.shape[1])


def cached(obj, cls):
    """the statistic and p-value the object remembers"""
    if cls == "fmri":
        return obj.stat_, obj.p_value_
    return obj._stat, obj._pvalue


def obj_tokens(cls, ty_seen, e, v, dof, tiny, dofmax):
    q = len(e)
    vv = " ".join(fr(v[i][j]) for i in range(q) for j in range(q))
    return f"{q} {ty_seen} {frs(e)} {vv} {fr(dof)} {fr(tiny)} {fr(dofmax)}"


def obj_item(cls, obj, v, ee=None, ev=None):
    """state of voxel v; `ee`, `ev`: absolute rounding-error bounds of effect / variance entries"""
    t, dof, tiny, dm, e, var = state(obj, cls)
    it = ("obj", tyname(cls, t), [dof, tiny, dm] + e[:, v].tolist() + var[:, :, v].ravel().tolist())
    if ee is not None:
        it += ([0.0, 0.0, 0.0] + ee[:, v].tolist() + ev[:, :, v].ravel().tolist(),)
    return it


def stat_tol(ty, e, var, b, v, tiny, ee=None, ev=None):
    """absolute tolerance for the statistic of voxel v against the exact model value: rounding of
    the inverse (F, dim > 1) plus first-order propagation of the input error bounds `ee`, `ev`"""
    q = e.shape[0]
    d = e[:, v] - b
    V = var[:, :, v]
    dE = ee[:, v] if ee is not None else np.zeros(q)
    dV = ev[:, :, v] if ev is not None else np.zeros((q, q))
    try:
        if q > 1 and ty == "F":
            W = np.linalg.inv(V)
            asym = float(np.abs(V - V.T).max() / max(np.abs(V).max(), 1e-300))   # e.g. Kalman-filter covariances
            g = np.abs(W @ d)
            return ((1e-10 + 4 * asym) * np.linalg.cond(V) * float(np.abs(d) @ np.abs(W) @ np.abs(d)) / q
                    + 2 * float(2 * g @ dE + g @ dV @ g) / q + 1e-300)
        vd = np.maximum(np.diag(V), tiny)
        tt = np.abs(d) / np.sqrt(vd)
        per = dE / np.sqrt(vd) + tt * np.diag(dV) / (2 * vd)
        if ty == "F":
            per = 2 * tt * per
        return 2 * float(per.max()) + 1e-300
    except Exception:
        return 1e-300


# ----------------------------------------------------------------------
# live histories (any object, any class): observations + model line tokens
# ----------------------------------------------------------------------
def run_calls(obj, cls, calls, nv, ee=None, ev=None):
    """apply `stat / p_value / z_score` calls to a live object; per-voxel items and op tokens"""
    items = [[] for _ in range(nv)]
    toks = []
    errs = []
    for op, b in calls:
        toks.append(f"{op} {fr(b)}")
        t, dof, tiny, dm, e, var = state(obj, cls)
        try:
            r = call(obj, cls, op, b)
        except Exception as ex:
            for v in range(nv):
                items[v].append(("err", errname(ex)))
            errs.append((op, b, ex))
            continue
        st, pv = cached(obj, cls)
        st = np.ravel(np.array(st, float)) if st is not None else None
        pv = np.ravel(np.array(pv, float)) if pv is not None else None
        for v in range(nv):
            tol = stat_tol(tyname(cls, t), e, var, b, v, tiny, ee, ev)
            if op == "s":
                items[v].append(("s", float(r[v]), tol))
            elif op == "p":
                items[v].append(("p", float(r[v]), float(st[v]), tol))
            else:
                items[v].append(("z", float(r[v]), float(pv[v]), float(st[v]), tol))
    return items, toks, errs


# ----------------------------------------------------------------------
# kind `hist`
# ----------------------------------------------------------------------
def gen_hist(rng, pd, imat):
    cls = rng.choice(["fmri", "fmri", "labs"])
    q = rng.choice([1, 1, 2, 2, 3])
    nv = rng.choice([1, 2, 3])
    ty = rng.choice(["t", "t", "F", "F", "tmin-conjunction", "tmin-conjunction"] + (["foo"] if rng.random() < 0.15 else []))
    tiny, dofmax = rng.choice(TINYS), rng.choice(DOFMAXS)
    esc = rng.choice([1.0] * 6 + [2.0 ** -30, 2.0 ** 30])
    vsc = rng.choice([1.0] * 5 + [2.0 ** -20, 2.0 ** 20])

    def arrays(qq, es, vs):
        eff = [[rng.randint(-12, 12) * 0.25 * es for _ in range(nv)] for _ in range(qq)]
        var = np.zeros((qq, qq, nv))
        for v in range(nv):
            var[:, :, v] = pd(rng, qq, vs)
        return eff, var.tolist()

    eff, var = arrays(q, esc, vsc)
    cands = rng.sample([0.0, 1.0, -0.5, 2.5], 3)
    ops = []
    for _ in range(rng.choice([2, 3, 4, 5, 6])):
        r = rng.random()
        if r < 0.55:
            ops.append([rng.choice("spz"), rng.choice(cands)])
        elif r < 0.8:
            k = rng.choice(KS)
            if k == 0.0 and cls == "labs":
                k = 2.0
            side = rng.choice("lrd") if k not in (0.0, 3.0) else rng.choice("lr")
            ops.append(["mul", k, side])      # "d": c.__div__(k)
            if side == "d":
                k = 1.0 / k
            if k not in (0.0, 3.0, -1.0):      # the running binary scale of effect and variance
                esc, vsc = esc * k, vsc * k * k
        else:
            oq = q if rng.random() < 0.92 else q + 1
            # the other operand lives on the current scale: sums stay exact in binary64
            oe, ov = arrays(oq, esc, vsc)
            same = rng.random() < 0.6
            ops.append(["add", {"ty": ty if rng.random() < 0.85 else rng.choice(["t", "F", "tmin-conjunction"]),
                                "q": oq, "effect": oe, "var": ov, "dof": rng.choice(DOFS),
                                "tiny": tiny if same else rng.choice(TINYS),
                                "dofmax": dofmax if same else rng.choice(DOFMAXS)}])
    if ops[-1][0] not in "spz":
        ops.append([rng.choice("pz"), rng.choice(cands)])
    return {"kind": "hist", "cls": cls, "ty": ty, "q": q, "nv": nv, "effect": eff, "var": var,
            "dof": rng.choice(DOFS), "tiny": tiny, "dofmax": dofmax, "order": rng.choice(["C", "C", "F"]), "ops": ops}


def _clamp_free(e, var, tiny, k=1.0):
    vd = np.array([var[i, i] for i in range(var.shape[0])])
    return ((vd >= tiny).all(0) & (vd * k * k >= tiny).all(0) & np.isfinite(e * k).all(0)
            & np.isfinite(vd * k * k).all(0))


def scale_clause(cls, old, new, k, describe):
    """'scaling a contrast by a positive factor leaves its t, p and z unchanged' on live objects"""
    t, dof, tiny, dm, e, var = state(old, cls)
    if tyname(cls, t) == "other":
        return None
    ok = _clamp_free(e, var, tiny, k)
    if e.shape[0] > 1 and tyname(cls, t) == "F":
        if any(np.linalg.matrix_rank(var[:, :, v]) < e.shape[0] for v in range(var.shape[2])):
            return None               # singular variance (e.g. after 0 * c): the statistic is refused
        ok = np.isfinite(e * k).all(0) & np.isfinite(var * k * k).all((0, 1))
    if not ok.any():
        return None
    try:
        a, b = copy.deepcopy(old), copy.deepcopy(new)
        s0, p0, z0 = (call(a, cls, op, 0.0) for op in "spz")
        s2, p2, z2 = (call(b, cls, op, 0.0) for op in "spz")
    except Exception as ex:
        return f"{describe}: {type(ex).__name__}: {ex} raised on the scaled contrast"
    cond = 1.0
    if e.shape[0] > 1 and tyname(cls, t) == "F":
        cond = max(np.linalg.cond(var[:, :, v]) for v in range(var.shape[2]))
    if not (np.allclose(s2[ok], s0[ok], rtol=1e-9 * cond, atol=0)
            and np.allclose(p2[ok], p0[ok], rtol=1e-7 * cond, atol=1e-300)
            and np.allclose(z2[ok], z0[ok], rtol=1e-7 * cond, atol=1e-9)):
        return (f"{describe}: scaling the {cls} contrast (type {t}, dim {e.shape[0]}, dof {dof}, tiny {tiny}, "
                f"dofmax {dm}) by {k} changes t/p/z: stat {s0[ok]!r}->{s2[ok]!r}, p {p0[ok]!r}->{p2[ok]!r}, "
                f"z {z0[ok]!r}->{z2[ok]!r}")
    return None


def run_hist(c):
    warnings.filterwarnings("ignore")
    cls, q, nv = c["cls"], c["q"], c["nv"]
    E = np.array(c["effect"], float)
    V = np.array(c["var"], float)
    obj = mk(cls, E, V, c["dof"], c["ty"], c["tiny"], c["dofmax"], c["order"])
    snap = Snapshot(effect=obj.effect, variance=obj.variance)
    exp = {"eff": E, "var": V, "dof": c["dof"], "ty": c["ty"], "tiny": c["tiny"], "dofmax": c["dofmax"]}
    exp_ok = True
    items = [[] for _ in range(nv)]
    toks = [[] for _ in range(nv)]
    hist, fail, gone = [], None, False
    ee, ev = np.zeros((q, nv)), np.zeros((q, q, nv))      # rounding-error bounds along the history (0 while exact)
    U = 2.0 ** -52
    tags = ["hist", "cls=" + cls, "ty=" + c["ty"], f"dim={q}"]
    known = eff_ty(c["ty"], q) in ("t", "F", "tmin-conjunction")

    def note(msg):
        nonlocal fail
        if fail is None:
            fail = msg

    for op in c["ops"]:
        if gone:
            break
        if op[0] in "spz":
            b = op[1]
            hist.append(f"{OPNAME[cls][op[0]]}({b})")
            it, tk, errs = run_calls(obj, cls, [(op[0], b)], nv, ee, ev)
            for v in range(nv):
                items[v] += it[v]
                toks[v] += tk
            var_now = state(obj, cls)[5]
            singular = q > 1 and any(np.linalg.matrix_rank(var_now[:, :, v]) < q for v in range(nv))
            if errs and known and not singular:
                note(f"history {' ; '.join(hist)}: last call raised {type(errs[0][2]).__name__}: {errs[0][2]} on a valid contrast")
            if not errs and exp_ok and known:
                try:
                    want = call(mk(cls, **exp), cls, op[0], b)
                except Exception as ex:
                    want = None
                r = np.array([it[v][0][1] for v in range(nv)])
                cond = 1.0
                if q > 1 and eff_ty(c["ty"], q) == "F":
                    cond = max(np.linalg.cond(exp["var"][:, :, v]) for v in range(nv))
                if want is not None and not np.allclose(r, want, rtol=1e-8 * cond, atol=1e-9 if op[0] == "z" else 1e-300, equal_nan=True):
                    note(f"history {' ; '.join(hist)} on one {cls} contrast (type {c['ty']}, dim {q}, dof {exp['dof']}, "
                         f"tiny {exp['tiny']}, dofmax {exp['dofmax']}): last call returned {r!r}, a fresh contrast with the "
                         f"same effect, variance, dof and settings returns {want!r}")
        elif op[0] == "add":
            o = op[1]
            hist.append(f"+ contrast(type {o['ty']}, dim {o['q']}, dof {o['dof']}, tiny {o['tiny']}, dofmax {o['dofmax']})")
            oe, ov = np.array(o["effect"], float), np.array(o["var"], float)
            other = mk(cls, oe, ov, o["dof"], o["ty"], o["tiny"], o["dofmax"])
            for v in range(nv):
                toks[v].append("add " + obj_tokens(cls, seen_ty(cls, o["ty"]), oe[:, v], ov[:, :, v], o["dof"], o["tiny"], o["dofmax"]))
            same_ty = eff_ty(o["ty"], o["q"]) == eff_ty(exp["ty"], q)
            try:
                new = obj + other
            except Exception as ex:
                for v in range(nv):
                    items[v].append(("obj", errname(ex)))
                if same_ty and o["q"] == q:
                    note(f"history {' ; '.join(hist)}: adding two compatible contrasts raised {type(ex).__name__}: {ex}")
                tags.append("add-refused")
                continue
            if new is None:
                for v in range(nv):
                    items[v].append(("obj", "none"))
                gone = True
                tags.append("add-none")
                continue
            if cls == "fmri" and (not same_ty or o["q"] != q):
                note(f"history {' ; '.join(hist)}: adding contrasts of different type or dimension did not raise")
            if fail is None and o["q"] == q:
                before = copy.deepcopy(state(new, cls))
                other.effect = other.effect + 0          # the operand owns its arrays
                np.asarray(other.effect)[...] += 1.0
                np.asarray(other.variance)[...] *= 2.0
                after = state(new, cls)
                if not (np.array_equal(before[4], after[4]) and np.array_equal(before[5], after[5])):
                    note(f"history {' ; '.join(hist)}: editing the right operand's arrays in place afterwards changes the sum")
            t, dof, tiny, dm, e, var = state(new, cls)
            _, dof0, _, _, e0, var0 = state(obj, cls)
            if o["q"] == q and not (np.array_equal(e, e0 + oe) and np.array_equal(var, var0 + ov) and dof == dof0 + o["dof"]):
                note(f"history {' ; '.join(hist)}: the sum does not add effects, variances and degrees of freedom")
            if exp_ok and same_ty and o["tiny"] == exp["tiny"] and o["dofmax"] == exp["dofmax"]:
                exp = dict(exp, eff=exp["eff"] + oe, var=exp["var"] + ov, dof=exp["dof"] + o["dof"])
            else:
                exp_ok = False            # operands with different settings / types: the property is silent
                tags.append("add-mixed")
            if not _exact_sum(e0, oe, e):
                ee = ee + U * np.abs(e)
            ev = ev + U * np.abs(var) * (0 if _exact_sum(var0, ov, var) else 1)
            obj = new
            for v in range(nv):
                items[v].append(obj_item(cls, obj, v, ee, ev))
            tags.append("add-ok")
        else:
            k, side = op[1], op[2]
            if side == "d":
                hist.append(f"c.__div__({k})")
                new = obj.__div__(k)
                for v in range(nv):
                    toks[v].append(f"div {fr(k)} {fr(1.0 / k)}")
                k = 1.0 / k
            else:
                hist.append(f"{k} * c" if side == "l" else f"c * {k}")
                new = (k * obj) if side == "l" else (obj * k)
                for v in range(nv):
                    toks[v].append(f"mul {fr(k)}")
            # the result is a value: later edits of the operand's arrays do not reach it
            if fail is None and cls == "fmri" and new is not obj:
                before = copy.deepcopy(state(new, cls))
                keep_e, keep_v = np.array(obj.effect, copy=True), np.array(obj.variance, copy=True)
                try:
                    obj.effect += 1.0; obj.variance *= 2.0
                    after = state(new, cls)
                    if not (np.array_equal(before[4], after[4]) and np.array_equal(before[5], after[5])):
                        note(f"history {' ; '.join(hist)}: editing the operand's effect / variance arrays in place afterwards "
                             f"changes the scaled contrast")
                finally:
                    obj.effect[...] = keep_e; obj.variance[...] = keep_v
            if k > 0 and fail is None:
                msg = scale_clause(cls, obj, new, k, f"history {' ; '.join(hist)}")
                if msg:
                    note(msg)
                tags.append("scale-tested")
            if exp_ok:
                exp = dict(exp, eff=exp["eff"] * k, var=exp["var"] * k * k)
            _, _, _, _, e1, v1 = state(new, cls)
            pow2 = k == 0 or math.frexp(abs(k))[0] == 0.5
            ee = ee * abs(k) + (0 if pow2 else U * np.abs(e1))
            ev = ev * k * k + (0 if pow2 else 2 * U * np.abs(v1))
            obj = new
            for v in range(nv):
                items[v].append(obj_item(cls, obj, v, ee, ev))
    mty = seen_ty(cls, c["ty"])
    lines, impl = [], []
    first = mk(cls, E, V, c["dof"], c["ty"], c["tiny"], c["dofmax"], c["order"])
    for v in range(nv):
        if v == 0:      # the constructor alone: type normalisation, settings
            lines.append(f"mk {cls} {obj_tokens(cls, mty, E[:, v], V[:, :, v], c['dof'], c['tiny'], c['dofmax'])}")
            impl.append(("hist", [obj_item(cls, first, v)]))
        n = len(toks[v])
        lines.append(f"hist {cls} {obj_tokens(cls, mty, E[:, v], V[:, :, v], c['dof'], c['tiny'], c['dofmax'])} {n} " + " ".join(toks[v]))
        impl.append(("hist", items[v]))
    if c["tiny"] != TINY or c["dofmax"] != DOFMAX:
        tags.append("settings")
    return {"lines": lines, "impl": impl, "oracle": fail, "nontrivial": True, "tags": tags, "mutated": snap.changed()}


def _exact_sum(a, b, c):
    """is the binary64 array c the exact sum of a and b?"""
    return all(Fraction(x) + Fraction(y) == Fraction(z) for x, y, z in zip(a.ravel().tolist(), b.ravel().tolist(), c.ravel().tolist()))


def shrink_hist(case):
    ops = case["ops"]
    if len(ops) > 1:
        for i in range(len(ops)):
            c = dict(case); c["ops"] = ops[:i] + ops[i + 1:]
            yield c
    if case["nv"] > 1:
        for v in range(case["nv"]):
            c = dict(case); c["nv"] = case["nv"] - 1
            c["effect"] = [r[:v] + r[v + 1:] for r in case["effect"]]
            c["var"] = [[r[:v] + r[v + 1:] for r in row] for row in case["var"]]
            nops = []
            for op in ops:
                if op[0] == "add":
                    o = dict(op[1])
                    o["effect"] = [r[:v] + r[v + 1:] for r in o["effect"]]
                    o["var"] = [[r[:v] + r[v + 1:] for r in row] for row in o["var"]]
                    nops.append(["add", o])
                else:
                    nops.append(op)
            c["ops"] = nops
            yield c
    if case["order"] != "C":
        c = dict(case); c["order"] = "C"
        yield c


# ----------------------------------------------------------------------
# kind `ctor`: shape checks of the fmri constructor
# ----------------------------------------------------------------------
def gen_ctor(rng):
    q, n = rng.choice([1, 2, 3]), rng.choice([1, 2, 4])
    r = rng.random()
    vs, es = [q, q, n], [q, n]
    if r < 0.15:
        vs = [q, q]
    elif r < 0.3:
        es = [q]
    elif r < 0.45:
        vs = [q, q + 1, n]
    elif r < 0.6:
        es = [q + 1, n]
    elif r < 0.75:
        es = [q, n + 1]
    elif r < 0.8:
        vs, es = [q, q, n, 1], [q, n, 1]
    return {"kind": "ctor", "vshape": vs, "eshape": es}


def run_ctor(c):
    from nipy.modalities.fmri.glm import Contrast
    v = np.ones(c["vshape"]); e = np.ones(c["eshape"])
    try:
        with contextlib.redirect_stdout(io.StringIO()):
            Contrast(e, v)
        obs = "ok"
    except Exception as ex:
        obs = errname(ex)
    return {"lines": [f"ctor {len(c['vshape'])} {' '.join(map(str, c['vshape']))} {len(c['eshape'])} {' '.join(map(str, c['eshape']))}"],
            "impl": [("text", obs)], "oracle": None, "nontrivial": True, "tags": ["ctor", "ctor-" + ("ok" if obs == "ok" else "refused")],
            "mutated": None}


# ----------------------------------------------------------------------
# kind `labsfit`: labs glm.contrast in full
# ----------------------------------------------------------------------
def gen_labsfit(rng, design, imat, fullrank, invertible):
    n = rng.choice([5, 6, 8, 10])
    p = rng.choice([2, 2, 3, 4])
    n = max(n, p + 2)
    nv = rng.choice([1, 2, 3, 4, 6])
    q = rng.randint(1, p)
    model = rng.choice(["spherical"] * 4 + ["ar1"])
    return {"grid": rng.choice({1: [[1, 1]], 2: [[1, 2], [2, 1]], 3: [[3, 1], [1, 3]], 4: [[2, 2], [2, 2], [4, 1]],
                               6: [[2, 3], [3, 2], [1, 6]]}[nv]),
            "kind": "labsfit", "X": design(rng, n, p), "Y": imat(rng, n, nv, -8, 8),
            "C": fullrank(rng, q, p), "G": invertible(rng, q), "oned": q == 1 and rng.random() < 0.5,
            "ty": rng.choice(["t", "t", "F", "F", "tmin", "foo"]), "baseline": rng.choice([0.0, 0.0, 1.0, -0.5]),
            "tiny": rng.choice(TINYS), "dofmax": rng.choice(DOFMAXS), "axis": rng.choice([0, 0, 1]),
            "model": model, "method": None if model == "ar1" else rng.choice([None, "ols", "kalman"]),
            "k": rng.choice([2.0, 0.5, 3.0])}


def run_labsfit(c):
    warnings.filterwarnings("ignore")
    import nipy.labs.glm.glm as lg
    import scipy.stats as st
    X = np.array(c["X"], float); Y = np.array(c["Y"], float); C = np.array(c["C"], float)
    n, p = X.shape; q = C.shape[0]; nv = Y.shape[1]
    axis = c["axis"]
    Yin = np.ascontiguousarray(Y.T) if axis == 1 else Y
    kw = {"axis": axis, "model": c["model"]}
    if c["method"]:
        kw["method"] = c["method"]
    m = lg.glm(Yin, X, **kw)
    cc = C[0] if (q == 1 and c["oned"]) else C
    snap = Snapshot(C=cc, beta=m.beta, nvbeta=m.nvbeta, s2=m.s2)
    tiny, dofmax, ty = c["tiny"], c["dofmax"], c["ty"]
    con = m.contrast(cc, type=ty, tiny=tiny, dofmax=dofmax)
    mut = snap.changed()
    tags = ["labsfit", "ty=" + ty, f"dim={min(q, 3)}", "model=" + c["model"], f"axis={axis}", f"method={m.method}"]
    beta = m.beta.T if axis == 1 else m.beta                 # (p, nv)
    s2 = np.atleast_1d(m.s2)
    nvb = lambda v: (m.nvbeta if m.nvbeta.ndim == 2 else (m.nvbeta[v] if axis == 1 else m.nvbeta[:, :, v]))
    t, dof, tn, dm, e, vv = state(con, "labs")
    lines, impl, fail = [], [], None
    for v in range(nv):
        N = nvb(v)
        lines.append(f"lcon2 {q} {p} {frs(C.ravel())} {frs(beta[:, v])} {frs(N.ravel())} {fr(s2[v])} {fr(m.dof)} "
                     f"{1 if 'nvbeta' in m._constants else 0} {ty} {fr(tiny)} {fr(dofmax)}")
        te = 1e-13 * float((np.abs(C) @ np.abs(beta[:, v])).max()) + 1e-300
        tv = 1e-12 * float((np.abs(C) @ np.abs(N) @ np.abs(C.T)).max()) * abs(s2[v]) + 1e-300
        impl.append(("objx", tyname("labs", t), [dof, tn, dm] + e[:, v].tolist() + vv[:, :, v].ravel().tolist(),
                     [0, 0, 0] + [te] * q + [tv] * q * q))
    if fail is None and c["baseline"] == 1.0:      # a saved and re-loaded fit yields the same contrast
        import shutil, tempfile
        d = tempfile.mkdtemp()
        try:
            m.save(os.path.join(d, "fit"))
            m2 = lg.load(os.path.join(d, "fit"))
            con2 = m2.contrast(cc, type=ty, tiny=tiny, dofmax=dofmax)
            if not (np.array_equal(np.asarray(con2.effect), np.asarray(con.effect)) and con2.dof == con.dof
                    and np.array_equal(np.asarray(con2.variance), np.asarray(con.variance)) and con2.type == con.type):
                fail = "contrast of a saved and re-loaded labs glm differs from the contrast of the fit"
            tags.append("save-load")
        finally:
            shutil.rmtree(d, ignore_errors=True)
    if fail is None and c.get("grid") and c["model"] == "spherical" and ty in ("t", "F", "tmin"):
        # the same voxels presented on a grid (two voxel axes, the time axis where `axis` says): every voxel keeps
        # its own estimate, variance and statistic - the layout of the voxels is not part of the model
        a_, b_ = c["grid"]
        Yg = Y.reshape(n, a_, b_)
        if axis == 1:
            Yg = np.ascontiguousarray(np.transpose(Yg, (1, 0, 2)))
        try:
            cong = lg.glm(Yg, X, **kw).contrast(cc, type=ty, tiny=tiny, dofmax=dofmax)
            eg = np.asarray(cong.effect, float).reshape(np.asarray(con.effect).shape[0] if np.ndim(con.effect) > 1 else 1, -1)
            ef = np.asarray(con.effect, float).reshape(eg.shape[0], -1)
            vg = np.asarray(cong.variance, float); vf = np.asarray(con.variance, float)
            vg = vg.reshape(vf.shape[:-1] + (-1,)) if vf.ndim >= 1 else vg
            if not np.allclose(eg, ef, rtol=1e-10, atol=1e-12 * (1 + np.abs(ef).max())):
                fail = f"labs glm on a {a_}x{b_} voxel grid (axis={axis}): contrast effect differs from the flat layout"
            elif vg.shape != vf.shape or not np.allclose(vg, vf, rtol=1e-9, atol=1e-9 * float(np.abs(vf).max()) + 1e-300):
                fail = (f"labs glm on a {a_}x{b_} voxel grid (axis={axis}, type={ty}, {q} rows): contrast variance "
                        f"{vg.tolist()} differs from the flat layout {vf.tolist()}")
            tags.append(f"grid={'x'.join(map(str, c['grid']))}")
        except Exception as ex:      # noqa: BLE001
            fail = f"labs glm on a {a_}x{b_} voxel grid (axis={axis}) raised {type(ex).__name__}: {ex}"
    summ = con.summary()
    if not (summ["effect"] is con.effect and summ["variance"] is con.variance and summ["dof"] == con.dof):
        fail = "labs contrast.summary() does not report the contrast's effect, variance and dof"
    b = c["baseline"]
    ety = "F" if (q > 1 and ty == "t") else ty
    if any(np.linalg.eigvalsh((vv[:, :, v] + vv[:, :, v].T) / 2).min() <= 1e-10 * np.abs(vv[:, :, v]).max() for v in range(nv)):
        # the (refined Kalman) fit handed over a covariance that is not positive definite: no statistic to speak of
        return {"lines": lines, "impl": impl, "oracle": fail, "nontrivial": True, "tags": tags + ["nonpsd-fit"], "mutated": mut}
    # the object the factory returned, driven through stat / pvalue / zscore (model: `hist` on its state)
    calls = [("s", b), ("z", b), ("p", b)]
    it, tk, errs = run_calls(con, "labs", calls, nv)
    for v in range(nv):
        lines.append(f"hist labs {obj_tokens('labs', t, e[:, v], vv[:, :, v], dof, tn, dm)} {len(tk)} " + " ".join(tk))
        impl.append(("hist", it[v]))
    if errs and ety in ("t", "F", "tmin") and fail is None:
        fail = f"labs contrast ({ty}, dim {q}) raised {type(errs[0][2]).__name__}: {errs[0][2]}"
    if fail is None and not errs:
        stat, z, pv = (np.array([it[v][i][1] for v in range(nv)]) for i in range(3))
        cond = max(np.linalg.cond(vv[:, :, v]) for v in range(nv))
        if dof != n - p and c["model"] == "spherical":
            fail = f"labs glm dof {dof} != n-p {n - p}"
        elif q == 1:
            tt = (e[0] - b) / np.sqrt(np.maximum(vv[0, 0], tiny))
            want = tt ** 2 if ety == "F" else tt
            if not np.allclose(stat, want, rtol=1e-12):
                fail = f"labs {ety} statistic {stat!r} != {want!r}"
        elif ety == "F":
            want = np.array([(e[:, v] - b) @ np.linalg.solve(vv[:, :, v], e[:, v] - b) / q for v in range(nv)])
            asym = max(float(np.abs(vv[:, :, v] - vv[:, :, v].T).max() / np.abs(vv[:, :, v]).max()) for v in range(nv))
            if not np.allclose(stat, want, rtol=(1e-9 + 4 * asym) * cond, atol=0):
                fail = f"labs F statistic {stat!r} is not the Mahalanobis distance / dim = {want!r}"
            elif b == 0:
                G = np.array(c["G"], float)
                sg = np.ravel(m.contrast(G @ C, type="F", tiny=tiny, dofmax=dofmax).stat(0.0))
                if not np.allclose(sg, stat, rtol=(1e-8 + 4 * asym) * cond * np.linalg.cond(G) ** 2, atol=0):
                    fail = f"labs F statistic changes under row recombination G={G.tolist()}: {stat!r} -> {sg!r}"
        elif ety == "tmin":
            want = ((e - b) / np.sqrt(np.maximum(np.array([vv[i, i] for i in range(q)]), tiny))).min(0)
            if not np.allclose(stat, want, rtol=1e-12):
                fail = f"labs tmin statistic {stat!r} != {want!r}"
        if fail is None:
            dfd = min(dof, dofmax)
            wp = st.f.sf(stat, q, dfd) if ety == "F" else st.t.sf(stat, dfd)
            wz = st.norm.isf(np.minimum(np.maximum(pv, 1e-300), 1 - 1e-16))
            inr = (pv >= 1e-300) & (pv <= 1 - 1e-16)
            if not np.allclose(pv, wp, rtol=1e-12, atol=0) or np.any(pv < 0) or np.any(pv > 1):
                fail = f"labs p-value {pv!r} is not the tail {wp!r} at min(dof, dofmax) = {dfd}"
            elif not (np.all(np.isfinite(z)) and np.allclose(z[inr], wz[inr], rtol=1e-12, atol=1e-12)):
                fail = f"labs z-score {z!r} is not the quantile {wz!r}"
        if fail is None and ety in ("t", "F", "tmin"):
            fail = scale_clause("labs", con, c["k"] * con, c["k"], f"glm.contrast(type={ty!r}, tiny={tiny}, dofmax={dofmax})")
    return {"lines": lines, "impl": impl, "oracle": fail, "nontrivial": True, "tags": tags, "mutated": mut}


# ----------------------------------------------------------------------
# kind `glm`: fmri GeneralLinearModel.contrast
# ----------------------------------------------------------------------
def gen_glm(rng, design, imat, fullrank, invertible):
    n = rng.choice([8, 10, 12, 16])
    p = rng.choice([2, 3, 4])
    nv = rng.choice([2, 3, 5])
    q = rng.randint(1, p)
    return {"kind": "glm", "X": design(rng, n, p), "Y": imat(rng, n, nv, -8, 8),
            "model": rng.choice(["ols", "ols", "ar1", "ar1"]), "c": fullrank(rng, 1, p)[0],
            "M": fullrank(rng, q, p), "G": invertible(rng, q), "steps": rng.choice([100, 100, 10, 3]),
            "req": rng.choice(["vec:none", "vec:F", "row:none", "row:t", "mat:none", "mat:F", "mat:tmin-conjunction",
                               "mat:t", "mat:foo", "vec:foo", "vec:tmin-conjunction", "mat:tmin"]),
            "k": rng.choice([2.0, 0.25, 3.0])}


def run_glm(c):
    warnings.filterwarnings("ignore")
    from nipy.modalities.fmri.glm import GeneralLinearModel
    X = np.array(c["X"], float); Y = np.array(c["Y"], float)
    n, p = X.shape
    nv = Y.shape[1]
    g = GeneralLinearModel(X)
    g.fit(Y, model=c["model"], steps=c["steps"])
    cvec = np.array(c["c"], float); M = np.array(c["M"], float); q = M.shape[0]
    fail = None
    tags = ["glm", "model=" + c["model"], "req=" + c["req"], f"bins={len(g.results_)}"]
    # ---- the requested contrast against the model of `GeneralLinearModel.contrast` ----
    shape, ty = c["req"].split(":")
    con_val = {"vec": cvec, "row": cvec[None, :], "mat": M}[shape]
    cm = np.atleast_2d(con_val)
    qq = cm.shape[0]
    lines, impl = [], []
    snap = Snapshot(con_val=con_val, X=X)
    try:
        with contextlib.redirect_stdout(io.StringIO()):
            con = g.contrast(con_val, contrast_type=None if ty == "none" else ty)
        err = None
    except Exception as ex:
        con, err = None, errname(ex)
    mut = snap.changed()
    dfres = None
    for v in range(nv):
        r = g.results_[g.labels_[v]]
        k = int(np.nonzero(np.nonzero(g.labels_ == g.labels_[v])[0] == v)[0][0])
        th = np.asarray(r.theta)[:, k]
        cov = np.asarray(r.cov, float)
        disp = float(np.atleast_1d(r.dispersion)[k])
        dfres = r.df_resid
        lines.append(f"gcon {p} {frs(th)} {frs(cov.ravel())} {fr(disp)} {fr(r.df_resid)} {qq} {frs(cm.ravel())} "
                     f"{1 if shape == 'vec' else 0} {ty}")
        if con is None:
            impl.append(("text", err))
        else:
            t, dof, tn, dm, e, vv = state(con, "fmri")
            te = 1e-13 * float((np.abs(cm) @ np.abs(th)).max()) + 1e-300
            tv = 1e-12 * float((np.abs(cm) @ np.abs(cov) @ np.abs(cm.T)).max()) * abs(disp) + 1e-300
            impl.append(("objx", tyname("fmri", t), [dof, tn, dm] + e[:, v].tolist() + vv[:, :, v].ravel().tolist(),
                         [0, 0, 0] + [te] * qq + [tv] * qq * qq))
    valid = ty in ("none", "t", "F", "tmin-conjunction") and not (ty == "t" and qq > 1)
    if con is None and valid:
        fail = f"GeneralLinearModel.contrast({shape} contrast of {qq} row(s), contrast_type={ty!r}) raised {err}"
    if con is not None and not valid:
        fail = f"GeneralLinearModel.contrast accepted contrast_type={ty!r} for {qq} row(s)"
    if con is not None:
        t, dof, tn, dm, e, vv = state(con, "fmri")
        it, tk, errs = run_calls(con, "fmri", [("z", 0.0), ("s", 0.0), ("p", 1.0)], nv)
        for v in range(nv):
            lines.append(f"hist fmri {obj_tokens('fmri', t, e[:, v], vv[:, :, v], dof, tn, dm)} {len(tk)} " + " ".join(tk))
            impl.append(("hist", it[v]))
        if errs and fail is None:
            fail = f"contrast built by GeneralLinearModel.contrast raised {type(errs[0][2]).__name__}: {errs[0][2]}"
        if fail is None and not errs:
            fail = scale_clause("fmri", con, c["k"] * con, c["k"], f"GeneralLinearModel.contrast({c['req']})")
    # ---- consistency of the object statistics with Tcontrast / Fcontrast (all bins) ----
    if fail is None:
        try:
            with contextlib.redirect_stdout(io.StringIO()):
                ct = g.contrast(cvec); cf1 = g.contrast(cvec, contrast_type="F")
                cF = g.contrast(M, contrast_type="F"); cG = g.contrast(np.array(c["G"], float) @ M, contrast_type="F")
            st_, sf1, sF, sG = ct.stat(), cf1.stat(), cF.stat(), cG.stat()
            pt, zt = ct.p_value(), ct.z_score()
        except Exception as e:
            return {"lines": lines, "impl": impl, "nontrivial": True, "tags": tags + ["raised"], "mutated": mut,
                    "oracle": f"{type(e).__name__}: {e} on a fitted {c['model']} GLM"}
        t_res = np.zeros(nv); F_res = np.zeros(nv)
        for l, r in g.results_.items():
            t_res[g.labels_ == l] = np.atleast_1d(r.Tcontrast(cvec).t)
            F_res[g.labels_ == l] = np.atleast_1d(r.Fcontrast(M).F)
        big = ct.variance.ravel() > 1e-40
        if not np.allclose(st_[big], t_res[big], rtol=1e-9):
            fail = f"Contrast.stat {st_!r} differs from Tcontrast t {t_res!r}"
        elif not np.allclose(sf1[big], st_[big] ** 2, rtol=1e-9):
            fail = f"one-row F {sf1!r} is not t^2 {st_ ** 2!r}"
        elif not np.allclose(sF[big], F_res[big], rtol=1e-7):
            fail = f"Contrast F stat {sF!r} differs from Fcontrast F {F_res!r}"
        elif not np.allclose(sG[big], sF[big], rtol=1e-6):
            fail = f"F stat not invariant under row recombination: {sF!r} vs {sG!r}"
        elif np.any(pt < 0) or np.any(pt > 1) or not np.all(np.isfinite(zt)):
            fail = f"p outside [0,1] or z not finite: {pt!r} {zt!r}"
        elif not np.allclose(cF.effect, M @ g.get_beta(), rtol=1e-12, atol=1e-12 * np.abs(g.get_beta()).max()) or \
                not np.allclose(ct.effect, cvec @ g.get_beta(list(range(p))), rtol=1e-12, atol=1e-12 * np.abs(g.get_beta()).max()):
            fail = "contrast effect is not con_val @ get_beta()"
        elif np.any(g.get_mse() < 0) or not np.allclose(
                ct.variance.ravel(), g.get_mse() * np.array([cvec @ g.results_[l].cov @ cvec for l in g.labels_]), rtol=1e-9):
            fail = "t-contrast variance is not get_mse() * c cov c'"
        elif ct.dof != n - np.linalg.matrix_rank(X):
            fail = f"contrast dof {ct.dof} is not the residual degrees of freedom {n - np.linalg.matrix_rank(X)}"
    return {"lines": lines, "impl": impl, "oracle": fail, "nontrivial": True, "tags": tags, "mutated": mut}


# ----------------------------------------------------------------------
# kind `msess`: FMRILinearModel.contrast, fixed effects across sessions
# ----------------------------------------------------------------------
def gen_msess(rng, design, imat, fullrank):
    ns = rng.choice([1, 2, 2, 3])
    shape = rng.choice([[2, 1, 2], [1, 1, 3], [2, 2, 1], [1, 1, 1]])
    nvox = shape[0] * shape[1] * shape[2]
    n = rng.choice([8, 10, 12])
    ty = rng.choice(["none", "t", "F", "F", "tmin-conjunction"])
    q = 1 if ty == "t" else rng.choice([1, 2, 2])
    oned = q == 1 and rng.random() < 0.6
    sessions = []
    for s in range(ns):
        p = max(q, rng.choice([2, 3, 4]))
        M = fullrank(rng, q, p)
        if ns > 1 and rng.random() < 0.15:
            M = [[0.0] * p for _ in range(q)]          # null contrast for this session: skipped
        sessions.append({"X": design(rng, n, p), "Y": imat(rng, n, nvox, -8, 8), "M": M})
    return {"kind": "msess", "shape": shape, "sessions": sessions, "ty": ty, "oned": oned,
            "scaling": rng.random() < 0.5, "model": rng.choice(["ols", "ar1"]), "mask": rng.choice(["img", "none"]),
            "outputs": [rng.random() < 0.8, rng.random() < 0.7, rng.random() < 0.7, rng.random() < 0.7]}


def run_msess(c):
    warnings.filterwarnings("ignore")
    from nibabel import Nifti1Image
    from nipy.modalities.fmri.glm import FMRILinearModel
    shape = tuple(c["shape"]); nvox = int(np.prod(shape))
    imgs, Xs, cons = [], [], []
    for s in c["sessions"]:
        Y = np.array(s["Y"], float)                               # (n, nvox)
        data = (Y.T.reshape(shape + (Y.shape[0],)) + 100.0)
        imgs.append(Nifti1Image(data, np.eye(4)))
        Xs.append(np.array(s["X"], float))
        M = np.array(s["M"], float)
        cons.append(M[0] if c["oned"] else M)
    mask = Nifti1Image(np.ones(shape, np.int8), np.eye(4)) if c["mask"] == "img" else None
    m = FMRILinearModel(imgs, Xs, mask=mask)
    m.fit(do_scaling=c["scaling"], model=c["model"])
    ty = None if c["ty"] == "none" else c["ty"]
    outs = list(c["outputs"])
    tags = ["msess", f"sessions={len(cons)}", "ty=" + c["ty"], "model=" + c["model"]]
    fail = None
    snap = Snapshot(cons=cons)
    try:
        with contextlib.redirect_stdout(io.StringIO()):
            res = m.contrast(cons, con_id="c", contrast_type=ty, output_z=outs[0], output_stat=outs[1],
                             output_effects=outs[2], output_variance=outs[3])
        err = None
    except Exception as ex:
        res, err = None, ex
    mut = snap.changed()
    # per-session contrast objects (their own tie: kind `glm`)
    per = []
    with contextlib.redirect_stdout(io.StringIO()):
        for g, con in zip(m.glms, cons):
            per.append(None if np.all(con == 0) else g.contrast(con, ty))
    live = [x for x in per if x is not None]
    q = live[0].dim if live else 1
    lines, impl = [], []
    names = ["z", "stat", "effect", "variance"]
    got = {}
    if res is not None:
        k = 0
        for nm, on in zip(names, outs):
            if on:
                got[nm] = np.asarray(res[k].get_fdata()).reshape(nvox, -1)
                k += 1
    for v in range(nvox):
        toks = []
        for x in per:
            if x is None:
                toks.append("null")
            else:
                t, dof, tn, dm, e, vv = state(x, "fmri")
                toks.append("con " + obj_tokens("fmri", t, e[:, v], vv[:, :, v], dof, tn, dm))
        lines.append(f"msess {len(per)} " + " ".join(toks))
        if res is None:
            impl.append(("text", "none" if isinstance(err, AttributeError) and not live else errname(err)))
        else:
            impl.append(("msess", {nm: got[nm][v].tolist() for nm in got}, q))
    if res is None and live:
        fail = f"FMRILinearModel.contrast raised {type(err).__name__}: {err} for {len(live)} non-null session contrast(s)"
    if res is not None and live:
        tot = live[0]
        for x in live[1:]:
            tot = tot + x
        z = tot.z_score()
        want = {"z": z, "stat": np.ravel(tot.stat_), "effect": tot.effect.T, "variance": tot.variance.T.reshape(nvox, -1)}
        for nm in got:
            w = np.asarray(want[nm], float).reshape(nvox, -1)
            if not np.allclose(got[nm], w, rtol=1e-12, atol=1e-300, equal_nan=True) and fail is None:
                fail = (f"multi-session {nm} image {got[nm].ravel()!r} is not that of the sum of the per-session "
                        f"contrasts {w.ravel()!r}")
        if fail is None and len(live) > 1:
            e = sum(np.asarray(x.effect) for x in live); vv = sum(np.asarray(x.variance) for x in live)
            if not (np.allclose(tot.effect, e, rtol=1e-14) and np.allclose(tot.variance, vv, rtol=1e-14)
                    and tot.dof == sum(x.dof for x in live)):
                fail = "fixed-effects contrast does not add the session effects, variances and degrees of freedom"
        if fail is None and not np.all(np.isfinite(z)):
            fail = f"multi-session z-score not finite: {z!r}"
    return {"lines": lines, "impl": impl, "oracle": fail, "nontrivial": len(cons) > 1 or nvox > 1, "tags": tags, "mutated": mut}


# ----------------------------------------------------------------------
# kind `enull`: NormalEmpiricalNull (fdrcurve exact given the fitted parameters), gaussian FDR, GMM
# ----------------------------------------------------------------------
def gen_enull(rng):
    n = rng.choice([30, 80, 200, 500, 1000])
    x = [rng.gauss(0, 1) for _ in range(n)]
    for _ in range(rng.choice([0, 0, 2, 5, 10])):
        x[rng.randrange(n)] = rng.uniform(2.5, 6.0)
    if rng.random() < 0.3:                       # ties
        for _ in range(rng.randint(1, 5)):
            x[rng.randrange(n)] = x[rng.randrange(n)]
    if rng.random() < 0.3:
        x = [round(t * 4) / 4 for t in x]
    return {"kind": "enull", "x": x, "alpha": rng.choice([0.05, 0.1, 0.2, 0.5]),
            "shape2d": rng.random() < 0.3, "gmm": rng.random() < 0.25}


def run_enull(c):
    warnings.filterwarnings("ignore")
    import scipy.stats as st
    from nipy.algorithms.statistics import empirical_pvalue as ep
    x = np.array(c["x"], float)
    n = x.size
    snap = Snapshot(x=x)
    lines, impl, fail, tags = [], [], None, ["enull"]
    xin = x.reshape(-1, 1) if c["shape2d"] else x
    # gaussian_fdr: fdr o norm.sf o squeeze — model on the tail values
    p = st.norm.sf(x)
    gq = ep.gaussian_fdr(xin)
    lines.append(f"gfdr {plist(p)}")
    impl.append(("vals", np.ravel(gq).tolist(), [1e-13] * n))
    if np.shape(gq) != (n,):
        fail = f"gaussian_fdr returned shape {np.shape(gq)} for {n} values"
    elif np.any(np.diff(np.ravel(gq)[np.argsort(x, kind='stable')]) > 1e-12):
        fail = "gaussian_fdr not non-increasing in x"
    gthr = ep.gaussian_fdr_threshold(x, c["alpha"])
    pth = ep.fdr_threshold(p, c["alpha"])
    if fail is None and not (gthr == st.norm.isf(pth)):
        fail = f"gaussian_fdr_threshold {gthr!r} is not norm.isf(fdr_threshold(norm.sf(x))) = {st.norm.isf(pth)!r}"
    if fail is None and np.any(p < pth):
        sel = x > gthr
        if not np.array_equal(sel, p < pth) and not np.any(np.isclose(p, pth, rtol=1e-12)):
            fail = "x > gaussian_fdr_threshold does not select the p-values below fdr_threshold"
    # empirical null
    try:
        en = ep.NormalEmpiricalNull(xin)
        en.learn()
        efp = en.fdrcurve()
    except Exception as ex:   # noqa
        tags.append("learn-failed")
        return {"lines": lines, "impl": impl, "oracle": fail, "nontrivial": True, "tags": tags, "mutated": snap.changed()}
    if np.isfinite(en.p0) and np.isfinite(en.mu) and np.isfinite(en.sigma) and en.sigma > 0:
        sfx = st.norm.sf(en.x, en.mu, en.sigma)
        lines.append(f"efp {fr(en.p0)} {plist(sfx)}")
        impl.append(("vals", efp.tolist(), [1e-13] * n))
        tags.append("efp")
        if np.any(np.diff(efp) > 1e-15) or np.any(efp > 1) or np.any(efp < 0):
            fail = fail or "NormalEmpiricalNull.fdrcurve is not a non-increasing curve in [0,1] along the sorted sample"
        with contextlib.redirect_stdout(io.StringIO()):
            thr = en.threshold(c["alpha"])
        if fail is None and np.isfinite(thr) and efp[0] >= c["alpha"] and efp[-1] < c["alpha"]:
            above = en.x > thr
            if not (np.all(efp[above] < c["alpha"]) and np.all(efp[~above] >= c["alpha"])):
                fail = (f"NormalEmpiricalNull.threshold({c['alpha']}) = {thr!r} does not separate the samples with "
                        f"FDR < alpha from the others")
            tags.append("threshold")
        if fail is None:
            th = np.array([en.x[0] - 1, en.x[n // 2], en.x[-1], en.x[-1] + 1])
            f1 = en.fdr(th)
            f2 = np.array([en.fdr(float(t)) for t in th])
            if not np.allclose(f1, f2, rtol=1e-13, atol=0):
                fail = f"NormalEmpiricalNull.fdr differs between array and scalar input: {f1!r} vs {f2!r}"
            elif np.any(f1 < 0) or np.any(f1 > 1) or np.any(np.diff(f1) > 1e-12):
                fail = f"NormalEmpiricalNull.fdr not a non-increasing function into [0,1]: {f1!r}"
            ut = en.uncorrected_threshold(c["alpha"])
            if fail is None and not (ut == st.norm.isf(c["alpha"], en.mu, en.sigma)):
                fail = "uncorrected_threshold is not the normal quantile of the fitted null"
    if c["gmm"] and fail is None:
        try:
            bfp = ep.three_classes_GMM_fit(x.reshape(-1, 1), alpha=0.05, prior_strength=10)
            if bfp.shape != (n, 3) or np.any(bfp < 0) or np.any(bfp > 1 + 1e-12) or not np.allclose(bfp.sum(1), 1, atol=1e-9):
                fail = "three_classes_GMM_fit posterior rows are not probability vectors"
            tags.append("gmm")
            g3 = ep.gamma_gaussian_fit(x)
            if g3.shape != (n, 3) or np.any(g3 < -1e-12) or np.any(g3 > 1 + 1e-12) or not np.allclose(g3.sum(1), 1, atol=1e-6):
                fail = "gamma_gaussian_fit posterior rows are not probability vectors"
        except Exception as ex:   # noqa
            tags.append("gmm-raised")
    return {"lines": lines, "impl": impl, "oracle": fail, "nontrivial": True, "tags": tags, "mutated": snap.changed()}


# ----------------------------------------------------------------------
# comparison of the symbolic answers
# ----------------------------------------------------------------------
def ffloat(x):
    """binary64 value of an exact rational, ±inf beyond the range"""
    try:
        return float(x)
    except OverflowError:
        return math.inf if x > 0 else -math.inf


def _sval(toks):
    """(value, tokens used) of `rat x` / `root n d`"""
    if toks[0] == "rat":
        return ffloat(Fraction(toks[1])), 2
    if toks[0] == "root":
        n, d = Fraction(toks[1]), Fraction(toks[2])
        # scale by a power of 4 so that the square root is taken of a well-ranged number
        k = (d.numerator.bit_length() - d.denominator.bit_length()) // 2
        root = math.sqrt(float(d / Fraction(4) ** k)) if k >= 0 else math.sqrt(float(d * Fraction(4) ** (-k)))
        try:
            return ffloat(n / Fraction(2) ** k) / root, 3
        except OverflowError:
            return (math.inf if n > 0 else -math.inf), 3
    raise ValueError(toks[0])


def _close(a, b, tol, rel):
    if a == b or (math.isnan(a) and math.isnan(b)):
        return True
    return abs(a - b) <= tol + rel * abs(b)


def _tail(toks, x):
    import scipy.stats as st
    if toks[0] == "t.sf":
        return float(st.t.sf(x, float(Fraction(toks[1])))), 2
    if toks[0] == "f.sf":
        return float(st.f.sf(x, float(Fraction(toks[1])), float(Fraction(toks[2])))), 3
    raise ValueError(toks[0])


def _zof(p):
    import scipy.stats as st
    return float(st.norm.isf(min(max(p, 1e-300), 1 - 1e-16)))


def _cmp_obj(it, toks, tols=None, rel=4e-16):
    if toks[0] in ("none",) or toks[0].startswith("error"):
        return None if (len(it) == 2 and it[1] == toks[0]) else f"impl={it!r} model=obj {toks[0]}"
    if len(it) < 3:
        return f"impl={it!r} model=obj {' '.join(toks)[:80]}"
    if it[1] != toks[0]:
        return f"type impl={it[1]!r} model={toks[0]!r}"
    vals = it[2]
    mv = [Fraction(t) for t in toks[1:]]
    if len(mv) != len(vals):
        return f"length impl={len(vals)} model={len(mv)}"
    for k, (a, b) in enumerate(zip(vals, mv)):
        t = tols[k] if tols else 0.0
        if k < 3:                      # dof, tiny, dofmax
            if Fraction(a) != b and not _close(float(a), float(b), 0.0, 4e-16):
                return f"{['dof', 'tiny', 'dofmax'][k]}: impl={a!r} model={float(b)!r}"
        elif not _close(float(a), float(b), t, rel):
            return f"index {k}: impl={float(a)!r} model={float(b)!r}"
    return None


def _cmp_item(it, part):
    toks = part.split()
    if toks[0] == "obj":
        if it[0] != "obj":
            return f"impl={it!r} model={part[:80]}"
        return _cmp_obj(it, toks[1:], it[3] if len(it) > 3 else None)
    kind = toks[0]
    if toks[1].startswith("error"):
        return None if it == ("err", toks[1]) or list(it) == ["err", toks[1]] else f"impl={it!r} model={part}"
    if it[0] != kind:
        return f"impl={it!r} model={part[:80]}"
    if kind == "s":
        x, _ = _sval(toks[1:])
        return None if _close(it[1], x, it[2], 1e-12) else f"stat impl={it[1]!r} model={x!r} ({part})"
    ncall = 2 if toks[1] == "t.sf" else 3
    x, _ = _sval(toks[1 + ncall:])
    if kind == "p":
        pv, stat, tol = it[1], it[2], it[3]
        zv = None
    else:
        zv, pv, stat, tol = it[1], it[2], it[3], it[4]
    if not _close(stat, x, tol, 1e-12):
        return f"{kind}: statistic used impl={stat!r} model={x!r} ({part})"
    want, _ = _tail(toks[1:], stat)
    if not _close(pv, want, 1e-300, 1e-11):
        return f"{kind}: p-value impl={pv!r}, model says {' '.join(toks[1:1 + ncall])} at {stat!r} = {want!r}"
    if zv is not None and not _close(zv, _zof(pv), 1e-12, 1e-12):
        return f"z: impl={zv!r} but norm.isf(clip({pv!r})) = {_zof(pv)!r}"
    return None


def compare_ext(impl_obs, model_out):
    kind = impl_obs[0]
    if model_out == "bad-op":
        return "model says bad-op"
    if kind == "hist":
        items = impl_obs[1]
        parts = model_out.split(" | ") if model_out else []
        if len(parts) != len(items):
            return f"history length impl={len(items)} model={len(parts)}: {model_out[:200]}"
        for k, (it, part) in enumerate(zip(items, parts)):
            d = _cmp_item(tuple(it), part)
            if d:
                return f"step {k}: {d}"
        return None
    if kind == "objx":
        if model_out.startswith("error"):
            return f"impl built a contrast, model says {model_out}"
        toks = model_out.split()
        return _cmp_obj(("obj", impl_obs[1], impl_obs[2]), toks[1:], impl_obs[3], 1e-13)
    if kind == "msess":
        got, q = impl_obs[1], impl_obs[2]
        if model_out.startswith(("error", "none")):
            return f"impl returned images, model says {model_out}"
        parts = model_out.split(" | ")
        toks = parts[0].split()
        nums = [Fraction(t) for t in toks[2:]]          # dof tiny dofmax e… v…
        e, vv = nums[3:3 + q], nums[3 + q:]
        for nm, mvals in (("effect", e), ("variance", vv)):
            if nm in got:
                if len(got[nm]) != len(mvals):
                    return f"{nm}: length impl={len(got[nm])} model={len(mvals)}"
                scale = max([abs(float(b)) for b in mvals] + [0.0])
                k = int(round(math.sqrt(len(mvals)))) if nm == "variance" else 0
                for i, a in enumerate(got[nm]):
                    # the variance image is written transposed (row-major of Vᵀ)
                    b = mvals[(i % k) * k + i // k] if nm == "variance" else mvals[i]
                    if not _close(float(a), float(b), 1e-14 * scale + 1e-300, 1e-14):
                        return f"{nm}[{i}]: impl={a!r} model={float(b)!r}"
        st = parts[1].split()
        if st[1].startswith("error"):
            return f"impl returned images, model statistic {parts[1]}"
        x, _ = _sval(st[1:])
        zt = parts[2].split()
        if "stat" in got and not _close(got["stat"][0], x, 1e-9 * abs(x), 1e-9):
            return f"stat image impl={got['stat'][0]!r} model={x!r}"
        if "z" in got:
            sv = got["stat"][0] if "stat" in got else x
            pw, _ = _tail(zt[1:], sv)
            if not _close(got["z"][0], _zof(pw), 1e-7, 1e-7):
                return f"z image impl={got['z'][0]!r}, model {' '.join(zt[1:4])} -> {_zof(pw)!r}"
        return None
    return f"unknown observation kind {kind!r}"


# ----------------------------------------------------------------------
# translator: the numerical constants, from the source text
# ----------------------------------------------------------------------
def _const(path, name, tiebroken):
    try:
        tree = ast.parse(open(path).read())
    except Exception as e:
        raise tiebroken(f"{path} does not parse: {e}")
    for node in tree.body:
        if isinstance(node, ast.Assign) and len(node.targets) == 1 and isinstance(node.targets[0], ast.Name) \
                and node.targets[0].id == name:
            try:
                return float(ast.literal_eval(node.value))
            except Exception:
                raise tiebroken(f"{name} in {path} is not a numeric literal")
    raise tiebroken(f"{name} not found in {path}")


def _clip_consts(path, fn, tiebroken):
    """lower and upper clip of `np.minimum(np.maximum(pvalue, LO), 1. - HI)` in function `fn`"""
    src = open(path).read()
    tree = ast.parse(src)
    f = next((n for n in tree.body if isinstance(n, ast.FunctionDef) and n.name == fn), None)
    if f is None:
        raise tiebroken(f"{fn} not found in {path}")
    m = re.search(r"pvalue\s*=\s*np\.minimum\(\s*np\.maximum\(\s*pvalue\s*,\s*([^)]+?)\s*\)\s*,\s*1\.?\s*-\s*([^)]+?)\s*\)",
                  ast.get_source_segment(src, f))
    if not m:
        raise tiebroken(f"{fn} in {path}: clipping expression has an unexpected shape")
    env = {}
    for node in tree.body:
        if isinstance(node, ast.Assign) and isinstance(node.targets[0], ast.Name):
            try:
                env[node.targets[0].id] = float(ast.literal_eval(node.value))
            except Exception:
                pass

    def val(txt):
        txt = txt.strip()
        if txt in env:
            return env[txt]
        try:
            return float(ast.literal_eval(txt))
        except Exception:
            raise tiebroken(f"{fn} in {path}: clip constant {txt!r} is not a literal")
    return val(m.group(1)), 1.0 - val(m.group(2))


def _lean_rat(x):
    f = Fraction(x)
    return f"mkRat {f.numerator} {f.denominator}"


def translate_consts(repo, tiebroken):
    fm = os.path.join(repo, "nipy/modalities/fmri/glm.py")
    lb = os.path.join(repo, "nipy/labs/glm/glm.py")
    ut = os.path.join(repo, "nipy/algorithms/statistics/utils.py")
    lz = os.path.join(repo, "nipy/labs/utils/zscore.py")
    vals = {
        "fmriDefTiny": _const(fm, "DEF_TINY", tiebroken), "fmriDefDofmax": _const(fm, "DEF_DOFMAX", tiebroken),
        "labsDefTiny": _const(lb, "DEF_TINY", tiebroken), "labsDefDofmax": _const(lb, "DEF_DOFMAX", tiebroken),
    }
    vals["zLo"], vals["zHi"] = _clip_consts(ut, "z_score", tiebroken)
    vals["z2Lo"], vals["z2Hi"] = _clip_consts(lz, "zscore", tiebroken)
    out = ["/- GENERATED by harness/props/c06_ext.py from the numeric literals in /repo:",
           "   nipy/modalities/fmri/glm.py, nipy/labs/glm/glm.py (DEF_TINY, DEF_DOFMAX),",
           "   nipy/algorithms/statistics/utils.py (z_score), nipy/labs/utils/zscore.py (zscore).",
           "   binary64 values as exact rationals.  Do not edit. -/",
           "namespace NipyVerif.C06.Src", ""]
    for k, v in vals.items():
        out.append(f"def {k} : Rat := {_lean_rat(v)}")
    out += ["", "end NipyVerif.C06.Src", ""]
    return [("NipyVerif/Gen/C06Consts.lean", "\n".join(out))]
