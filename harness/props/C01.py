"""C01 — coordinate-map algebra agrees with function semantics.

A case is a *program*: an initial AffineTransform (float64 / int64 / object dtype with
Fractions or sympy symbols), optionally wrapped as a general CoordinateMap, followed by
a chain of compose / product / reorder / rename / inverse / shift-origin / append /
drop operations, and a batch of points.

Correspondence: the explicit program is sent to the Lean model (`prog` / `gprog`
lines); status (ok, `None` from inverse, error class and the step at which it was
raised), both coordinate systems, the `.affine` and the values at the points must
agree (ints exactly, floats to 1e-8 relative).

Oracle: after every successful step the clause of the property that the step is about
is evaluated on the real objects (composition = successive application, inverse undoes,
product acts blockwise, reorder / rename keep named values, shifts, append / drop keep
the other axes), a step on valid arguments must not raise, and a composition of maps
whose coordinate systems differ must raise.
"""
from __future__ import annotations

import itertools
import random
import warnings
from fractions import Fraction

import numpy as np

from harness.core import PropertyCheck
from harness.util import Snapshot, close, errname, fr
from harness.props import c01_extra as X

NAME_POOL = ["i", "j", "k", "l", "m", "x", "y", "z", "t", "u", "v", "w", "p", "q", "r", "s",
             "phase", "freq", "slice", "time", "ax_0", "B-2"]
CS_NAMES = ["", "", "voxels", "world", "d", "r", "in", "out", "scanner"]
MDT = {"float": "f8", "int": "i8", "frac": "O", "sym": "O"}
INT_CODES = ("b1", "i1", "i2", "i4", "i8", "u1", "u2", "u4", "u8")
DT_BITS = {"i1": 8, "i2": 16, "i4": 32, "i8": 64, "u1": 8, "u2": 16, "u4": 32, "u8": 64}
# relative accuracy of one rounding in the narrow inexact types (others: 1e-8)
DT_RTOL = {"f2": 4e-3, "f4": 2e-6, "c8": 2e-6}


def _kcode(kind):
    """matrix dtype code of a value kind; kinds "dt:<code>" name a numpy dtype directly"""
    return kind[3:] if kind.startswith("dt:") else MDT[kind]


def _is_intk(code):
    return code in INT_CODES
SUBS_TXT = {"a": "3/2", "b": "-2", "c": "1/4"}
# symbolic cases are compared at two substitution points (all operations are rational functions of the entries)
SUBS_POINTS = [{"a": "3/2", "b": "-2", "c": "1/4"}, {"a": "-5/3", "b": "7/2", "c": "3"}]
MAXDIM = 6


# ----------------------------------------------------------------------
# values
# ----------------------------------------------------------------------
DT_NP = {"b1": np.bool_, "i1": np.int8, "i2": np.int16, "i4": np.int32, "i8": np.int64,
         "u1": np.uint8, "u2": np.uint16, "u4": np.uint32, "u8": np.uint64,
         "f2": np.float16, "f4": np.float32, "f8": np.float64, "c8": np.complex64, "c16": np.complex128,
         "O": object, "S": np.dtype("U4")}
DT_CODES = [c for c in DT_NP if c != "S"]


def _np_dt(code):
    return DT_NP[code]


def _dt_code(dt):
    dt = np.dtype(dt)
    for c, t in DT_NP.items():
        if c != "S" and dt == np.dtype(t):
            return c
    if dt.kind in "USV":
        return "S"
    return "other:" + dt.name


def _entry(s, kind):
    """JSON text -> the Python object placed in the matrix."""
    if kind == "sym":
        import sympy
        return sympy.sympify(s, rational=True)
    f = Fraction(s)
    if kind.startswith("dt:"):
        k = np.dtype(DT_NP[kind[3:]]).kind
        if k == "b":
            return bool(f)
        if k in "iu":
            return int(f)
        if k == "f":
            return float(f)
        if k == "c":
            return complex(float(f))
        return f if f.denominator != 1 else int(f)
    if kind == "float":
        return float(f)
    if kind == "int":
        return int(f)
    return f if f.denominator != 1 else int(f)


def _exact(v) -> Fraction:
    """exact value of a matrix entry / coordinate (sympy symbols substituted)."""
    if isinstance(v, Fraction):
        return v
    if isinstance(v, (bool, np.bool_)):
        return Fraction(int(v))
    if isinstance(v, (complex, np.complexfloating)):
        if v.imag != 0:
            raise ValueError(f"complex value with an imaginary part: {v!r}")
        return Fraction(float(v.real))
    if isinstance(v, (int, np.integer)):
        return Fraction(int(v))
    if isinstance(v, (float, np.floating)):
        return Fraction(float(v))
    import sympy
    e = sympy.sympify(v).subs({sympy.Symbol(k): sympy.Rational(t) for k, t in SUBS_TXT.items()})
    e = sympy.nsimplify(e) if e.is_Rational else e
    if e.is_Rational:
        return Fraction(int(e.p), int(e.q))
    return Fraction(float(e))


def _subs_txt(s, kind):
    """exact rational text of a JSON entry (what the model receives)."""
    return fr(_exact(_entry(s, kind)))


def _mat_np(mat, kind):
    rows = [[_entry(s, kind) for s in row] for row in mat]
    if kind.startswith("dt:") and kind != "dt:O":
        return np.array(rows, dtype=DT_NP[kind[3:]]).reshape(len(mat), len(mat[0]) if mat else 0)
    if kind == "float":
        return np.array(rows, dtype=np.float64).reshape(len(mat), len(mat[0]) if mat else 0)
    if kind == "int":
        return np.array(rows, dtype=np.int64).reshape(len(mat), len(mat[0]) if mat else 0)
    a = np.empty((len(mat), len(mat[0]) if mat else 0), dtype=object)
    for i, row in enumerate(rows):
        for j, v in enumerate(row):
            a[i, j] = v
    return a


def _enc(s):
    return "s:" + s


def _cs_line(cs):
    return f"{_enc(cs['name'])} {cs['dt']} {len(cs['names'])}" + "".join(" " + _enc(n) for n in cs["names"])


def _raw_line(m):
    r = len(m["mat"])
    c = len(m["mat"][0]) if r else 0
    ent = " ".join(_subs_txt(s, m["kind"]) for row in m["mat"] for s in row)
    return f"{_cs_line(m['dom'])} {_cs_line(m['rng'])} {_kcode(m['kind'])} {r} {c} {ent}".rstrip()


def _cs_obs(cs):
    return {"names": list(cs.coord_names), "name": cs.name, "dt": _dt_code(cs.coord_dtype)}


def _pts_np(pts, pk, n, integral=False):
    """first n columns of the pool, as the requested dtype (`integral`: values truncated to integers)"""
    if integral:
        pts = [[str(int(Fraction(v))) for v in p] for p in pts]
    if pk not in ("f8", "i8", "O"):
        k = np.dtype(DT_NP[pk]).kind
        conv = {"b": lambda v: bool(Fraction(v)), "i": lambda v: int(Fraction(v)), "u": lambda v: int(Fraction(v)),
                "f": lambda v: float(Fraction(v)), "c": lambda v: complex(float(Fraction(v)))}[k]
        return np.array([[conv(v) for v in p[:n]] for p in pts], dtype=DT_NP[pk]).reshape(len(pts), n)
    if pk == "f8":
        return np.array([[float(Fraction(v)) for v in p[:n]] for p in pts], dtype=np.float64).reshape(len(pts), n)
    if pk == "i8":
        return np.array([[int(Fraction(v)) for v in p[:n]] for p in pts], dtype=np.int64).reshape(len(pts), n)
    a = np.empty((len(pts), n), dtype=object)
    for i, p in enumerate(pts):
        for j in range(n):
            a[i, j] = Fraction(p[j])
    return a


def _to_float(arr):
    return np.array([[float(_exact(v)) for v in row] for row in np.atleast_2d(arr)], dtype=float)


# ----------------------------------------------------------------------
# independent helpers (externals of the model)
# ----------------------------------------------------------------------
def _my_fix0(aff):
    aff = np.array(aff, dtype=float)
    lin = aff[:-1, :-1]
    zr = [i for i in range(lin.shape[0]) if np.all(lin[i] == 0)]
    zc = [j for j in range(lin.shape[1]) if np.all(lin[:, j] == 0)]
    if len(zr) != 1 or len(zc) != 1:
        return aff
    aff = aff.copy()
    aff[zr[0], zc[0]] = 1
    return aff


def _ornts(aff, fix0):
    from nibabel import io_orientation
    a = _my_fix0(aff) if fix0 else np.array(aff, dtype=float)
    o = io_orientation(a)
    return [None if np.isnan(r) else int(r) for r in o[:, 0]]


def _exact_rank_info(aff):
    """(is square, exactly singular?) with Fractions"""
    m = [[_exact(v) for v in row] for row in np.asarray(aff)]
    n = len(m)
    if any(len(r) != n for r in m):
        return False, True
    for c in range(n):
        p = next((r for r in range(c, n) if m[r][c] != 0), None)
        if p is None:
            return True, True
        m[c], m[p] = m[p], m[c]
        for r in range(c + 1, n):
            f = m[r][c] / m[c][c]
            if f:
                m[r] = [x - f * y for x, y in zip(m[r], m[c])]
    return True, False


def _has_inverse(m):
    """exactly invertible AffineTransform with numeric entries of moderate dynamic range, or a general
    CoordinateMap carrying an inverse function"""
    from nipy.core.reference.coordinate_map import AffineTransform
    # floating-point coordinates only: whether an integer-typed map keeps an (integer) inverse is decided by
    # `inverse(preserve_dtype=True)`, i.e. by whether the exact inverse happens to be integral
    if m.function_domain.coord_dtype.kind != "f" or m.function_range.coord_dtype.kind != "f":
        return False
    if isinstance(m, AffineTransform):
        a = np.asarray(m.affine)
        if a.dtype == object or a.dtype.kind != "f":
            return False
        sq, sing = _exact_rank_info(a)
        if not sq or sing:
            return False
        try:
            return bool(np.linalg.cond(a.astype(float)) < 1e9)
        except Exception:
            return False
    return getattr(m, "inverse_function", None) is not None


def _offers_inverse(m):
    from nipy.core.reference.coordinate_map import AffineTransform
    if isinstance(m, AffineTransform):
        a = np.asarray(m.affine)
        if a.dtype == object or a.dtype.kind not in "fiu":
            return True          # symbolic / exotic dtypes: not judged here
        try:
            return m.inverse() is not None
        except Exception:
            return False
    return getattr(m, "inverse_function", None) is not None


# ----------------------------------------------------------------------
# real-code side
# ----------------------------------------------------------------------
def _real_cs(cs):
    from nipy.core.reference.coordinate_system import CoordinateSystem
    return CoordinateSystem(list(cs["names"]), cs["name"], _np_dt(cs["dt"]))


def _vec_py(vals, kind):
    return [_entry(v, kind) for v in vals]


def _real_maker(mk):
    from nipy.core.reference.coordinate_system import CoordSysMaker
    return CoordSysMaker(list(mk["names"]), mk["name"], _np_dt(mk["dt"]))


def _real_map(m):
    """the AffineTransform described by the JSON `m`: the plain constructor, or one of the class constructors
    from_params (matrix / (A, b) tuple), from_start_step, identity, CoordMapMaker.make_affine / __call__"""
    import nipy.core.reference.coordinate_map as cm
    AT = cm.AffineTransform
    c = m.get("ctor")
    if c is None:
        return AT(_real_cs(m["dom"]), _real_cs(m["rng"]), _mat_np(m["mat"], m["kind"]))
    if c == "fp":
        return AT.from_params(list(m["inn"]), list(m["outn"]), _mat_np(m["mat"], m["kind"]), m["dn"], m["rn"])
    if c == "fpmv":
        return AT.from_params(list(m["inn"]), list(m["outn"]), (_mat_np(m["A"], m["kind"]), _vec_py(m["b"], m["bk"])),
                              domain_name=m["dn"], range_name=m["rn"])
    if c == "fss":
        return AT.from_start_step(list(m["inn"]), list(m["outn"]), _vec_py(m["start"], m["sk"]),
                                  _vec_py(m["step"], m["pk"]), m["dn"], m["rn"])
    if c == "ident":
        return AT.identity(list(m["names"]), m["name"])
    if c == "mkaff":
        mk = cm.CoordMapMaker(_real_maker(m["dm"]), _real_maker(m["rm"]))
        args = [_mat_np(m["mat"], m["kind"])]
        if m["zooms"] or m["offsets"] or m.get("explicit"):
            args.append(_vec_py(m["zooms"], m["zk"]))
            if m["offsets"] or m.get("explicit"):
                args.append(_vec_py(m["offsets"], m["ofk"]))
        return mk(*args) if m.get("via") == "call" else mk.make_affine(*args)
    raise KeyError(c)


def _plist(vals, kind):
    return f"{len(vals)}" + "".join(" " + _subs_txt(v, kind) for v in vals)


def _slist(names):
    return f"{len(names)}" + "".join(" " + _enc(n) for n in names)


def _mat_txt(mat, kind):
    r = len(mat)
    c = len(mat[0]) if r else 0
    return (f"{r} {c} " + " ".join(_subs_txt(v, kind) for row in mat for v in row)).rstrip()


def _init_line(m):
    c = m.get("ctor")
    if c is None:
        return "raw " + _raw_line(m)
    if c == "fp":
        return (f"fp {_slist(m['inn'])} {_slist(m['outn'])} {_kcode(m['kind'])} {_mat_txt(m['mat'], m['kind'])} "
                f"{_enc(m['dn'])} {_enc(m['rn'])}")
    if c == "fpmv":
        return (f"fpmv {_slist(m['inn'])} {_slist(m['outn'])} {_kcode(m['kind'])} {_mat_txt(m['A'], m['kind'])} "
                f"{_plist(m['b'], m['bk'])} {_enc(m['dn'])} {_enc(m['rn'])}")
    if c == "fss":
        sdt = _dt_code(np.diag(_vec_py(m["step"], m["pk"])).dtype)
        return (f"fss {_slist(m['inn'])} {_slist(m['outn'])} {_plist(m['start'], m['sk'])} "
                f"{_plist(m['step'], m['pk'])} {sdt} {_enc(m['dn'])} {_enc(m['rn'])}")
    if c == "ident":
        return f"ident {_slist(m['names'])} {_enc(m['name'])}"
    if c == "mkaff":
        zdt = _dt_code(np.atleast_1d(_vec_py(m["zooms"], m["zk"])).dtype) if m["zooms"] else "f8"
        return (f"mkaff {_cs_line(m['dm'])} {_cs_line(m['rm'])} {_kcode(m['kind'])} {_mat_txt(m['mat'], m['kind'])} "
                f"{_plist(m['zooms'], m['zk'])} {_plist(m['offsets'], m['ofk'])} {zdt}")
    raise KeyError(c)


def _shear(c, x):
    y = np.array(x, copy=True)
    if y.dtype.kind in "iub" and not isinstance(c, (int, np.integer)):
        y = y.astype(np.float64)      # integer points handed to a float map: do not truncate c * x0^2
    if y.shape[1] > 1:
        y[:, 1:] = y[:, 1:] + c * y[:, :1] * y[:, :1]
    return y


def _real_general(A, g):
    import nipy.core.reference.coordinate_map as cm
    from nipy.core.reference.coordinate_system import CoordSysMaker
    M = cm._as_coordinate_map(A)
    f0, i0 = M.function, M.inverse_function
    if g["g"] == "affine":
        fwd, inv = f0, i0
    elif g["g"] == "shear":
        c = _entry(g["c"], "int" if _is_intk(_dt_code(A.function_domain.coord_dtype)) else "float")
        fwd = lambda x: _shear(c, f0(x))
        inv = (lambda y: i0(_shear(-c, y))) if i0 is not None else None
    else:
        fwd, inv = (lambda x: f0(x) * f0(x)), None
    if g.get("maker"):
        # the same map made by CoordMapMaker.__call__ -> make_cmap: the makers know more names than needed
        d, r = A.function_domain, A.function_range
        mk = cm.CoordMapMaker(CoordSysMaker(list(d.coord_names) + ["zz_d"], d.name, d.coord_dtype),
                              CoordSysMaker(list(r.coord_names) + ["zz_r", "zz_s"], r.name, r.coord_dtype))
        return mk(A.ndims[0], fwd, inv) if g["maker"] == "call" else mk.make_cmap(A.ndims[0], fwd, inv)
    if g["g"] == "affine":
        return M
    return cm.CoordinateMap(A.function_domain, A.function_range, fwd, inv)


def _order_arg(o):
    if o is None:
        return None
    return list(o)


def _apply_op(cur, op, general):
    """run one op on the real object; returns (result, mutated-arg-or-None)"""
    import nipy.core.reference.coordinate_map as cm
    k = op["op"]
    with warnings.catch_warnings():
        warnings.simplefilter("ignore")
        if k in ("compose_r", "compose_l"):
            B = _real_map(op["map"])
            return (cm.compose(cur, B) if k == "compose_r" else cm.compose(B, cur)), None
        if k == "compose3":
            L, R = _real_map(op["left"]), _real_map(op["right"])
            return cm.compose(L, cur, R), None
        if k in ("prod_r", "prod_l"):
            B = _real_map(op["map"])
            args = (cur, B) if k == "prod_r" else (B, cur)
            return cm.product(*args, input_name=op["in"], output_name=op["out"]), None
        if k == "compose_n":
            Ls = [_real_map(m) for m in op["ls"]]
            Rs = [_real_map(m) for m in op["rs"]]
            return cm.compose(*(Ls + [cur] + Rs)), None
        if k == "prod_n":
            Ls = [_real_map(m) for m in op["ls"]]
            Rs = [_real_map(m) for m in op["rs"]]
            kw = {}
            if op.get("in") is not None:
                kw["input_name"] = op["in"]
            if op.get("out") is not None:
                kw["output_name"] = op["out"]
            return cm.product(*(Ls + [cur] + Rs), **kw), None
        if k == "reord_d":
            return cur.reordered_domain(_order_arg(op["order"])), None
        if k == "reord_r":
            return cur.reordered_range(_order_arg(op["order"])), None
        if k in ("ren_d", "ren_r"):
            d = {kk: v for kk, v in op["kv"]}
            snap = Snapshot(newnames=d)
            try:
                res = cur.renamed_domain(d) if k == "ren_d" else cur.renamed_range(d)
            finally:
                mut = snap.changed()
            return res, mut
        if k == "inv":
            return cur.inverse(), None
        if k in ("shift_d", "shift_r"):
            kindv = op.get("vk", "float")
            vec = [_entry(s, kindv) for s in op["vec"]]
            f = cm.shifted_domain_origin if k == "shift_d" else cm.shifted_range_origin
            return f(cur, vec, op["name"]), None
        if k == "append":
            kindv = op.get("vk", "float")
            return cm.append_io_dim(cur, op["in"], op["out"], _entry(op["start"], kindv),
                                    _entry(op["step"], kindv)), None
        if k == "drop":
            return cm.drop_io_dim(cur, op["axis"], op["fix0"]), None
    raise KeyError(k)


def _op_line(op, pre):
    """model tokens of one op (pre = real object before the op, for the externals)"""
    k = op["op"]
    if k in ("compose_r", "compose_l"):
        return f"{k} {_raw_line(op['map'])}"
    if k == "compose3":
        return f"compose3 {_raw_line(op['left'])} {_raw_line(op['right'])}"
    if k in ("prod_r", "prod_l"):
        return f"{k} {_raw_line(op['map'])} {_enc(op['in'])} {_enc(op['out'])}"
    if k == "compose_n":
        return (f"compose_n {len(op['ls'])} " + " ".join(_raw_line(m) for m in op["ls"]) +
                f" {len(op['rs'])} " + " ".join(_raw_line(m) for m in op["rs"])).replace("  ", " ").rstrip()
    if k == "prod_n":
        i_nm = "product" if op.get("in") is None else op["in"]
        o_nm = "product" if op.get("out") is None else op["out"]
        return (f"prod_n {len(op['ls'])} " + " ".join(_raw_line(m) for m in op["ls"]) +
                f" {len(op['rs'])} " + " ".join(_raw_line(m) for m in op["rs"])).replace("  ", " ").rstrip() + \
            f" {_enc(i_nm)} {_enc(o_nm)}"
    if k in ("reord_d", "reord_r"):
        o = op["order"]
        if o is None:
            return f"{k} rev"
        if len(o) and isinstance(o[0], str):
            return f"{k} names {len(o)}" + "".join(" " + _enc(s) for s in o)
        return f"{k} ints {len(o)}" + "".join(f" {int(i)}" for i in o)
    if k in ("ren_d", "ren_r"):
        s = f"{k} {len(op['kv'])}"
        for kk, v in op["kv"]:
            s += (f" i {kk}" if isinstance(kk, int) else f" n {_enc(kk)}") + " " + _enc(v)
        return s
    if k == "inv":
        return "inv"
    if k in ("shift_d", "shift_r"):
        vk = op.get("vk", "float")
        return f"{k} {len(op['vec'])}" + "".join(" " + _subs_txt(s, vk) for s in op["vec"]) + " " + _enc(op["name"])
    if k == "append":
        vk = op.get("vk", "float")
        mdt = _dt_code(np.array([[_entry(op["step"], vk), _entry(op["start"], vk)], [0, 1]]).dtype)
        return (f"append {_enc(op['in'])} {_enc(op['out'])} {_subs_txt(op['start'], vk)} "
                f"{_subs_txt(op['step'], vk)} {mdt}")
    if k == "drop":
        orn = _ornts(pre.affine, op["fix0"])
        ax = op["axis"]
        key = f"i {ax}" if isinstance(ax, int) else f"n {_enc(ax)}"
        return f"drop {key} {1 if op['fix0'] else 0} {len(orn)}" + "".join(" x" if o is None else f" {o}" for o in orn)
    raise KeyError(k)


# ----------------------------------------------------------------------
# oracle clauses on the real objects
# ----------------------------------------------------------------------
def _pk_for(m):
    return _dt_code(m.function_domain.coord_dtype)


def _ev(m, pts, n=None, pk=None):
    """evaluate a real map on the pool (first ndim columns), floats out"""
    n = m.ndims[0] if n is None else n
    x = _pts_np(pts, pk or _pk_for(m), n)
    return x, _to_float(m(x))


_TOL = [1e-7]        # tolerance of the oracle's comparisons (looser while a narrow float type is in play)


def _same(a, b):
    a = np.asarray(a, dtype=float)
    b = np.asarray(b, dtype=float)
    if a.shape != b.shape:
        return False
    scale = max(1.0, float(np.max(np.abs(b))) if b.size else 1.0)
    return bool(np.allclose(a, b, rtol=_TOL[0], atol=_TOL[0] * scale))


def _call_f(m, x):
    return _to_float(m(x))


def _inv_amp(inv_map, y):
    """largest entry of a finite-difference Jacobian of an inverse map at the points y: how much the rounding
    of y (and of the inverse's own arithmetic) is amplified"""
    try:
        y = np.asarray(_to_float(y), dtype=float)
        base = _to_float(inv_map(y))
        amp = 1.0
        for j in range(y.shape[1]):
            d = 1e-6 * (1.0 + np.abs(y[:, j]).max())
            y2 = y.copy()
            y2[:, j] += d
            amp = max(amp, float(np.max(np.abs(_to_float(inv_map(y2)) - base))) / d)
        return amp if np.isfinite(amp) else 1e300
    except Exception:
        return 1.0


def _clause(pre, op, post, pts, general):
    """None or a description of a violated clause of the property for this step."""
    import nipy.core.reference.coordinate_map as cm
    k = op["op"]
    pk = _pk_for(post) if post is not None else None
    with warnings.catch_warnings():
        warnings.simplefilter("ignore")
        if k in ("compose_r", "compose_l", "compose3", "compose_n"):
            if k == "compose_r":
                seq = [_real_map(op["map"]), pre]
            elif k == "compose_l":
                seq = [pre, _real_map(op["map"])]
            elif k == "compose3":
                seq = [_real_map(op["right"]), pre, _real_map(op["left"])]
            else:       # compose(L_1, .., L_a, cur, R_1, .., R_b): the rightmost map acts first
                seq = [_real_map(m) for m in reversed(op["rs"])] + [pre] + \
                      [_real_map(m) for m in reversed(op["ls"])]
            x = _pts_np(pts, pk, post.ndims[0])
            y = x
            for m in seq:
                y = m(y)
            if not _same(_call_f(post, x), _to_float(y)):
                return f"{k}: the composed map evaluated at {x[0].tolist()} differs from applying the maps in turn"
            if post.function_domain != seq[0].function_domain or post.function_range != seq[-1].function_range:
                return f"{k}: composed map does not go from the first domain to the last range"
            # a composition of invertible maps is invertible: the result must still offer its inverse
            if all(_has_inverse(m) for m in seq) and not _offers_inverse(post):
                return (f"{k}: every composed map is invertible (exactly non-singular square affines / maps with an "
                        f"inverse function) but the composition offers no inverse")
            return None
        if k in ("prod_r", "prod_l", "prod_n"):
            if k == "prod_n":
                facs = [_real_map(m) for m in op["ls"]] + [pre] + [_real_map(m) for m in op["rs"]]
            else:
                B = _real_map(op["map"])
                facs = [pre, B] if k == "prod_r" else [B, pre]
            nins = [f.ndims[0] for f in facs]
            x = _pts_np(pts, pk, sum(nins), integral=any(_is_intk(_pk_for(f)) for f in facs))
            blocks, j = [], 0
            for f, n in zip(facs, nins):
                xb = x[:, j:j + n]
                blocks.append(_to_float(f(xb.astype(_np_dt(_pk_for(f)), copy=False) if _pk_for(f) != "O" else xb))
                              .reshape(len(pts), f.ndims[1]))
                j += n
            want = np.hstack(blocks) if blocks else np.zeros((len(pts), 0))
            if not _same(_call_f(post, x).reshape(want.shape), want):
                return f"{k}: the product map does not act independently on the coordinate blocks at {x[0].tolist()}"
            if list(post.function_domain.coord_names) != sum((list(f.function_domain.coord_names) for f in facs), []):
                return f"{k}: product domain names are not the concatenation"
            if list(post.function_range.coord_names) != sum((list(f.function_range.coord_names) for f in facs), []):
                return f"{k}: product range names are not the concatenation"
            if k == "prod_n":
                want_in = "product" if op.get("in") is None else op["in"]
                want_out = "product" if op.get("out") is None else op["out"]
                if post.function_domain.name != want_in or post.function_range.name != want_out:
                    return f"{k}: coordinate system names are not the requested input_name / output_name"
            return None
        if k in ("reord_d", "reord_r", "ren_d", "ren_r"):
            dom_side = k.endswith("_d")
            old = list((pre.function_domain if dom_side else pre.function_range).coord_names)
            new = list((post.function_domain if dom_side else post.function_range).coord_names)
            other_old = (pre.function_range if dom_side else pre.function_domain)
            other_new = (post.function_range if dom_side else post.function_domain)
            if list(other_old.coord_names) != list(other_new.coord_names):
                return f"{k}: the other side's coordinates changed"
            if k.startswith("reord"):
                o = op["order"]
                want_names = (old[::-1] if o is None else
                              [s if isinstance(s, str) else old[s] for s in o])
                if new != want_names:
                    return f"{k}: coordinate names {new} are not the requested order {want_names}"
                ren = {n: n for n in old}
            else:
                ren = {n: n for n in old}
                for kk, v in op["kv"]:
                    if isinstance(kk, str):
                        ren[kk] = v
                for kk, v in op["kv"]:
                    if isinstance(kk, int):
                        ren[old[kk]] = v
                if new != [ren[n] for n in old]:
                    return f"{k}: coordinate names {new} are not the requested relabelling of {old}"
            # named tuples: name -> value
            xq = _pts_np(pts, pk, post.ndims[0])
            yq = _call_f(post, xq)
            if dom_side:
                # the same named input tuple presented to the old map
                col = {ren[n]: j for j, n in enumerate(old)}   # new-name -> old position
                xp = np.empty_like(xq)
                for jn, nn in enumerate(new):
                    xp[:, col[nn]] = xq[:, jn]
                yp = _call_f(pre, xp)
                if not _same(yq, yp):
                    return (f"{k}: the named input tuple {dict(zip(new, xq[0].tolist()))} no longer maps to the same "
                            f"output values")
            else:
                yp = _call_f(pre, xq)
                col = {ren[n]: j for j, n in enumerate(old)}
                back = np.empty_like(yq)
                for jn, nn in enumerate(new):
                    back[:, col[nn]] = yq[:, jn]
                if not _same(back, yp):
                    return f"{k}: the named output values changed for input {xq[0].tolist()}"
            return None
        if k == "inv":
            x = _pts_np(pts, _pk_for(pre), pre.ndims[0])
            y = pre(x)
            back = _call_f(post, y)
            # rounding: a general map squares its (possibly large) intermediate values before the inverse
            # subtracts them again; the cancellation error grows with the square of the image
            ymax = float(np.max(np.abs(_to_float(y)))) if general else 0.0
            if not _same(back, _to_float(x)) and \
               not np.allclose(back, _to_float(x), rtol=1e-7, atol=1e-7 + 1e-12 * ymax * ymax):
                # ill-conditioned composites (tiny scale factors composed several times): the rounding of map(x)
                # is amplified by the inverse; allow what that amplification explains
                amp = _inv_amp(post, y) if _pk_for(pre) == "f8" else 1.0
                yabs = float(np.max(np.abs(_to_float(y)))) if np.size(y) else 0.0
                if not np.allclose(back, _to_float(x), rtol=1e-7, atol=1e-7 + 1e-13 * amp * (1.0 + yabs)):
                    return f"inverse: inverse(map(x)) != x at x={x[0].tolist()}"
            if not general:
                yy = _pts_np(pts, _pk_for(post), post.ndims[0])
                fwd = _to_float(pre(post(yy))) if not _is_intk(_pk_for(pre)) else None
                if fwd is not None and not _same(fwd, _to_float(yy)):
                    return f"inverse: map(inverse(y)) != y at y={yy[0].tolist()}"
            if post.function_domain.coord_names != pre.function_range.coord_names or \
               post.function_range.coord_names != pre.function_domain.coord_names:
                return "inverse: domain and range are not exchanged"
            return None
        if k in ("shift_d", "shift_r"):
            vec = np.array([float(_exact(_entry(s, op.get("vk", "float")))) for s in op["vec"]])
            x = _pts_np(pts, pk, post.ndims[0])
            n = pre.ndims[0] if k == "shift_d" else pre.ndims[1]
            if len(vec) != n:
                return None    # numpy broadcasting of a short vector: not a clause of the property
            if _is_intk(_pk_for(pre)):
                vec = np.trunc(vec)
            if k == "shift_d" and general:
                # the old map at the shifted coordinates (same dtype as the map's domain)
                if _is_intk(_pk_for(pre)):
                    xs = x + vec.astype(np.int64)
                else:
                    xs = x + vec
                want = _call_f(pre, xs)
            elif k == "shift_d":
                xs = _to_float(x) + vec
                A = _to_float(pre.affine)
                want = xs @ A[:-1, :-1].T + A[:-1, -1]
            else:
                want = _call_f(pre, x) - vec
            if not _same(_call_f(post, x), want):
                return f"{k}: shifted map is not the map of the shifted coordinates at {x[0].tolist()}"
            return None
        if k == "append":
            x = _pts_np(pts, pk, post.ndims[0], integral=_is_intk(_pk_for(pre)))
            y = _call_f(post, x)
            xo = x[:, :-1]
            yo = _call_f(pre, xo.astype(_np_dt(_pk_for(pre)), copy=False) if _pk_for(pre) != "O" else xo)
            vk = op.get("vk", "float")
            st, sp = float(_exact(_entry(op["start"], vk))), float(_exact(_entry(op["step"], vk)))
            if not _same(y[:, :-1], yo) or not _same(y[:, -1], st + sp * _to_float(x)[:, -1]):
                return f"append_io_dim: appended axis disturbs the other axes at {x[0].tolist()}"
            return None
        if k == "drop":
            oi, oo = list(pre.function_domain.coord_names), list(pre.function_range.coord_names)
            ni, no = list(post.function_domain.coord_names), list(post.function_range.coord_names)
            di = [j for j, n in enumerate(oi) if n not in ni]
            do = [j for j, n in enumerate(oo) if n not in no]
            if len(di) > 1 or len(do) > 1 or [n for n in oi if n in ni] != ni or [n for n in oo if n in no] != no:
                return "drop_io_dim: more than one axis per side dropped or remaining names reordered"
            if len(di) == 1 and len(do) == 1:
                x = _to_float(_pts_np(pts, "f8", post.ndims[0]))
                y = _call_f(post, x)
                A = _to_float(pre.affine)
                for filler in (0.0, 7.0):
                    xp = np.insert(x, di[0], filler, axis=1)
                    yp = xp @ A[:-1, :-1].T + A[:-1, -1]
                    yp = np.delete(yp, do[0], axis=1)
                    if not _same(y, yp):
                        return (f"drop_io_dim: after dropping '{oi[di[0]]}'/'{oo[do[0]]}' the remaining axes map "
                                f"differently at {x[0].tolist()}")
            return None
    return None


def _exact_bottom(m):
    if m.get("ctor") in ("fpmv", "fss", "ident") or (m.get("ctor") == "mkaff" and m["zooms"]):
        return True
    bot = m["mat"][-1] if m["mat"] else []
    return bool(bot) and all(str(v) == "0" for v in bot[:-1]) and str(bot[-1]) == "1"


def _op_hyp(pre, op):
    """side condition of the Lean theorem `step_sound` for this step, evaluated on the real objects:
    partner maps of a composition have the exact bottom row; the input column that drop_io_dim discards is
    exactly zero outside the discarded output row"""
    import nipy.core.reference.coordinate_map as cm
    k = op["op"]
    if k in ("compose_r", "compose_l"):
        return _exact_bottom(op["map"])
    if k == "compose3":
        return _exact_bottom(op["left"]) and _exact_bottom(op["right"])
    if k == "compose_n":
        return all(_exact_bottom(m) for m in op["ls"] + op["rs"])
    if k == "drop":
        with warnings.catch_warnings():
            warnings.simplefilter("ignore")
            i, o = cm.io_axis_indices(pre, op["axis"], op["fix0"])
        if i is None:
            return True
        a = np.asarray(pre.affine)
        return all(_exact(a[r, i]) == 0 for r in range(a.shape[0] - 1) if r != o)
    return True


def _ctor_expect(m):
    """(input names, output names, exact homogeneous matrix) a class constructor must produce, or None when the
    arguments are malformed or hit numpy's assignment rules (a fractional vector assigned into an integer
    matrix, a length-1 vector broadcast) that the property does not speak about"""
    c = m.get("ctor")
    if c is None or m.get("malformed"):
        return None
    F = lambda vals, kind: [_exact(_entry(v, kind)) for v in vals]
    def integral_ok(mat_kind_code, vec):
        return not _is_intk(mat_kind_code) or all(v.denominator == 1 for v in vec)
    if c == "fp":
        return m["inn"], m["outn"], [F(row, m["kind"]) for row in m["mat"]]
    if c == "fpmv":
        b = F(m["b"], m["bk"])
        if len(b) != len(m["outn"]) or not integral_ok(_kcode(m["kind"]), b):
            return None
        nin = len(m["inn"])
        return m["inn"], m["outn"], [F(row, m["kind"]) + [b[i]] for i, row in enumerate(m["A"])] + \
            [[Fraction(0)] * nin + [Fraction(1)]]
    if c == "fss":
        st, sp = F(m["start"], m["sk"]), F(m["step"], m["pk"])
        n = len(m["inn"])
        sdt = _dt_code(np.diag(_vec_py(m["step"], m["pk"])).dtype)
        if len(st) != n or len(sp) != n or not integral_ok(sdt, st):
            return None
        return m["inn"], m["outn"], [[sp[i] if i == j else Fraction(0) for j in range(n)] + [st[i]]
                                     for i in range(n)] + [[Fraction(0)] * n + [Fraction(1)]]
    if c == "ident":
        n = len(m["names"])
        return m["names"], m["names"], [[Fraction(int(i == j)) for j in range(n + 1)] for i in range(n + 1)]
    if c == "mkaff":
        z, o = F(m["zooms"], m["zk"]), F(m["offsets"], m["ofk"])
        e = len(z)
        if o and len(o) != e:
            return None
        o = o or [Fraction(0)] * e
        zdt = _dt_code(np.atleast_1d(_vec_py(m["zooms"], m["zk"])).dtype) if e else "f8"
        if not integral_ok(zdt, o):
            return None
        base = [F(row, m["kind"]) for row in m["mat"]]
        nout, nin = len(base) - 1, len(base[0]) - 1
        rows = []
        for i in range(nout):
            rows.append(base[i][:nin] + [Fraction(0)] * e + [base[i][nin]])
        for k in range(e):
            rows.append([Fraction(0)] * nin + [z[k] if k == j else Fraction(0) for j in range(e)] + [o[k]])
        rows.append([Fraction(0)] * (nin + e) + [Fraction(1)])
        return m["dm"]["names"][:nin + e], m["rm"]["names"][:nout + e], rows
    return None


# ----------------------------------------------------------------------
# executing a program
# ----------------------------------------------------------------------
def _execute(prog):
    general = prog.get("general")
    pts = prog["pts"]
    tags = ["general" if general else "affine", "kind=" + prog["init"]["kind"]]
    if prog["init"].get("ctor"):
        tags.append("ctor=" + prog["init"]["ctor"])
    head = ("gprog2 " + _raw_line(prog["init"])) if general else \
        (("progi " + _init_line(prog["init"])) if prog["init"].get("ctor") else ("prog " + _raw_line(prog["init"])))
    if general:
        head += " " + (f"shear {_subs_txt(general['c'], 'float')}" if general["g"] == "shear" else general["g"])
    oplines, oracle, mutated = [], None, None
    status, cur = "ok", None
    hyp = _exact_bottom(prog["init"])
    try:
        cur = _real_map(prog["init"])
        if general:
            cur = _real_general(cur, general)
    except Exception as e:
        status = errname(e) + "@init"
        if prog.get("expect_init", "any") == "ok":
            oracle = f"constructing a valid AffineTransform raised {type(e).__name__}: {e}"
    if cur is not None and not general:
        want = _ctor_expect(prog["init"])
        if want is not None:
            # the class constructors denote the affine map their arguments spell out
            inn, outn, M = want
            got = [[_exact(v) for v in row] for row in np.asarray(cur.affine)]
            m0 = prog["init"]
            cn = {"fp": (m0.get("dn"), m0.get("rn")), "fpmv": (m0.get("dn"), m0.get("rn")),
                  "fss": (m0.get("dn"), m0.get("rn")), "ident": (m0.get("name"), m0.get("name")),
                  "mkaff": (m0.get("dm", {}).get("name"), m0.get("rm", {}).get("name"))}[m0["ctor"]]
            if (cur.function_domain.name, cur.function_range.name) != cn:
                oracle = (f"{m0['ctor']}: coordinate systems are named {cur.function_domain.name!r} -> "
                          f"{cur.function_range.name!r} instead of the requested {cn[0]!r} -> {cn[1]!r}")
            elif list(cur.function_domain.coord_names) != list(inn) or \
               list(cur.function_range.coord_names) != list(outn):
                oracle = (f"{prog['init']['ctor']}: coordinate names {cur.function_domain.coord_names} -> "
                          f"{cur.function_range.coord_names} are not the requested {inn} -> {outn}")
            elif (len(got), len(got[0])) != (len(M), len(M[0])) or \
                    any(not close(g, w, 1e-12, 1e-12) for gr, wr in zip(got, M) for g, w in zip(gr, wr)):
                x = [Fraction(v) for v in pts[0][:len(inn)]] if pts else []
                oracle = (f"{prog['init']['ctor']}: the constructed map is not the affine map its arguments spell "
                          f"out (matrix {[[str(v) for v in r] for r in got]} instead of "
                          f"{[[str(v) for v in r] for r in M]}), e.g. at x={[str(v) for v in x]}")
    if cur is not None:
        for k, op in enumerate(prog["ops"]):
            tags.append(op["op"] + ("" if op.get("expect", "any") != "refuse" else ":mismatch"))
            try:
                oplines.append(_op_line(op, cur))
            except Exception as e:       # externals of the model cannot be computed (e.g. svd of objects)
                tags.append("skipped-op")
                break
            try:
                if not general:
                    hyp = hyp and _op_hyp(cur, op)
                elif op["op"] in ("prod_r", "prod_l"):
                    hyp = hyp and _exact_bottom(op["map"])
                elif op["op"] == "prod_n":
                    hyp = hyp and all(_exact_bottom(m) for m in op["ls"] + op["rs"])
                elif op["op"].startswith("compose"):
                    hyp = hyp and _op_hyp(cur, op)
            except Exception:
                pass                     # the step itself fails below; `hyp` is only compared for completed programs
            try:
                post, mut = _apply_op(cur, op, general)
                mutated = mutated or mut
            except Exception as e:
                status = f"{errname(e)}@{k}"
                if op.get("expect", "any") == "ok":
                    oracle = (f"step {k} ({op['op']}) raised {type(e).__name__}: {str(e)[:120]} on arguments the "
                              f"property covers")
                tags.append("refused")
                break
            if op.get("expect") == "refuse" and post is not None:
                oracle = (f"step {k} ({op['op']}): maps whose coordinate systems do not match "
                          f"({op.get('why', '')}) were combined instead of refused")
                break
            if post is None:
                status = f"none@{k}"
                if op.get("expect", "any") == "ok":
                    oracle = f"step {k}: inverse() returned None for an exactly invertible, well conditioned matrix"
                tags.append("no-inverse")
                break
            try:
                dts = {_pk_for(cur), _pk_for(post)}
                _TOL[0] = 20 * max([1e-7 / 20] + [DT_RTOL[d] for d in dts if d in DT_RTOL])
                fail = _clause(cur, op, post, pts, general)
            except Exception as e:
                fail = (f"step {k} ({op['op']}): evaluating the resulting map raised {type(e).__name__}: "
                        f"{str(e)[:120]}")
            if fail and oracle is None:
                oracle = f"step {k}: {fail}"
            cur = post
    # final observation
    obs = {"status": status}
    pk = prog["pk"]
    line_pts = None
    if status == "ok":
        n = cur.ndims[0] + prog.get("ptdim_off", 0)
        n = max(n, 0)
        x = _pts_np(pts, pk, min(n, len(pts[0]))) if pts else np.zeros((0, n))
        n = x.shape[1]
        obs["dom"] = _cs_obs(cur.function_domain)
        obs["rng"] = _cs_obs(cur.function_range)
        if not general:
            obs["aff"] = [[fr(_exact(v)) for v in row] for row in cur.affine]
            obs["aff_dt"] = _dt_code(cur.affine.dtype)
        obs["hyp"] = bool(hyp)
        tags.append(("cthm-" if general else "thm-") + ("hyp" if hyp else "nohyp"))
        try:
            y = cur(x)
            obs["call"] = [[fr(_exact(v)) for v in row] for row in np.atleast_2d(y)]
            if general:
                if cur.inverse_function is None:
                    obs["inv"] = None
                else:
                    with warnings.catch_warnings():
                        warnings.simplefilter("ignore")
                        back = cur.inverse()(y)
                        if _dt_code(np.asarray(y).dtype) == "f8":
                            obs["inv_amp"] = _inv_amp(cur.inverse(), np.atleast_2d(y))
                    obs["inv"] = [[fr(_exact(v)) for v in row] for row in np.atleast_2d(back)]
        except Exception as e:
            obs["call"] = errname(e)
            if general:
                obs["inv"] = "skip" if cur.inverse_function is not None else None
        line_pts = f"{pk} {len(pts)} {n} " + " ".join(fr(_exact(v)) for v in x.ravel())
        bot = prog["init"].get("mat", [["1"]])[-1]
        if general and not (all(str(v) == "0" for v in bot[:-1]) and str(bot[-1]) == "1"):
            # bottom row merely close to [0,..,0,1] (accepted by the constructor's allclose): such a matrix is not an
            # affine map in the property's sense; only acceptance and evaluation are compared, not the inverse
            obs.pop("inv", None)
    else:
        line_pts = f"{pk} 0 0"
    line = f"{head} {len(oplines)} {' '.join(oplines)} {line_pts}".replace("  ", " ").rstrip()
    return {"lines": [line], "impl": [obs], "oracle": oracle,
            "nontrivial": len(prog["ops"]) >= 1 or bool(prog["init"].get("ctor")),
            "tags": sorted(set(tags)), "mutated": mutated}


# ----------------------------------------------------------------------
# program builder (all randomness from random.Random(seed))
# ----------------------------------------------------------------------
class _Fresh:
    def __init__(self, rng):
        self.rng = rng
        self.k = 0

    def names(self, n, avoid=()):
        out = []
        while len(out) < n:
            if self.rng.random() < 0.7:
                c = self.rng.choice(NAME_POOL)
            else:
                self.k += 1
                c = f"n{self.k}"
            if c not in avoid and c not in out:
                out.append(c)
        return out


def _val(rng, kind, small=False):
    if kind == "int":
        return str(rng.choice([-3, -2, -1, 0, 0, 1, 1, 2, 3] if not small else [-1, 0, 1, 2]))
    if kind == "float":
        return rng.choice(["-3", "-2", "-1", "0", "0", "1", "1", "2", "3", "1/2", "-1/2", "3/2", "1/4", "5/2"])
    if kind == "frac":
        return rng.choice(["-2", "-1", "0", "0", "1", "2", "1/3", "-2/3", "1/2", "3/5", "5/7"])
    return rng.choice(["0", "1", "-1", "2", "a", "b", "c", "a+1", "2*b", "a*c", "1/2", "b-c"])


def _rand_mat(rng, kind, nout, nin, invertible=False):
    """(nout+1, nin+1) homogeneous matrix as JSON text"""
    if invertible and nin == nout and kind in ("float", "int", "frac"):
        n = nin
        # P * L * D * U with unit triangular small-integer factors: exactly invertible, well conditioned
        L = [[Fraction(1) if i == j else (Fraction(rng.choice([-1, 0, 0, 1, 2])) if j < i else Fraction(0))
              for j in range(n)] for i in range(n)]
        U = [[Fraction(1) if i == j else (Fraction(rng.choice([-2, -1, 0, 0, 1])) if j > i else Fraction(0))
              for j in range(n)] for i in range(n)]
        dch = [1, -1, 1, -1] if kind == "int" else [1, -1, 2, Fraction(1, 2), -2, 4]
        if kind == "float" and rng.random() < 0.25:
            # small (or large) scale factors: sub-millimetre voxels in metres, ...; the determinant is tiny (huge)
            # although the matrix is as well conditioned as before up to the ratio of the scales
            dch = [Fraction(1, 64), Fraction(-1, 128), Fraction(1, 32), Fraction(1, 1024)] if rng.random() < 0.7 \
                else [64, -128, 1024]
        if kind == "frac":
            dch = [1, -1, Fraction(1, 3), 3, Fraction(2, 3)]
        D = [Fraction(rng.choice(dch)) for _ in range(n)]
        perm = list(range(n))
        rng.shuffle(perm)
        M = [[sum(L[i][k] * D[k] * U[k][j] for k in range(n)) for j in range(n)] for i in range(n)]
        M = [M[perm[i]] for i in range(n)]
        rows = [[fr(v) for v in M[i]] + [_val(rng, kind)] for i in range(n)]
    else:
        rows = [[_val(rng, kind) for _ in range(nin + 1)] for _ in range(nout)]
        r = rng.random()
        if r < 0.08 and nout >= 1:      # an all-zero row / column (exactly singular, _fix0 food)
            i = rng.randrange(nout)
            rows[i] = ["0"] * nin + [rows[i][-1]]
            if nin >= 1 and rng.random() < 0.7:
                j = rng.randrange(nin)
                for row in rows:
                    row[j] = "0"
        elif r < 0.13 and nout >= 2:    # duplicated row
            i, j = rng.sample(range(nout), 2)
            rows[j] = list(rows[i])
    rows.append(["0"] * nin + ["1"])
    return rows


def _cs_json(names, name, dt):
    return {"names": list(names), "name": name, "dt": dt}


def _cs_of(real_cs):
    return _cs_json(real_cs.coord_names, real_cs.name, _dt_code(real_cs.coord_dtype))


def _kind_for(dt, rng, base):
    if dt == "i8":
        return "int"
    if dt == "f8":
        return "float"
    return base if base in ("frac", "sym") else "frac"


def _mismatch(rng, cs, fresh):
    """a coordinate system that differs from cs in exactly one respect"""
    cs = dict(cs, names=list(cs["names"]))
    ways = ["csname", "coord", "dtype", "dim"]
    if len(cs["names"]) >= 2:
        ways.append("perm")
    w = rng.choice(ways)
    if w == "csname":
        cs["name"] = cs["name"] + "_b"
    elif w == "coord":
        j = rng.randrange(len(cs["names"]))
        cs["names"][j] = fresh.names(1, cs["names"])[0]
    elif w == "dtype":
        cs["dt"] = {"f8": "i8", "i8": "f8", "O": "f8"}[cs["dt"]]
    elif w == "dim":
        if len(cs["names"]) >= 2 and rng.random() < 0.5:
            cs["names"].pop()
        else:
            cs["names"].append(fresh.names(1, cs["names"])[0])
    else:
        p = list(cs["names"])
        while p == cs["names"]:
            rng.shuffle(p)
        cs["names"] = p
    return cs, w


def _gen_partner(rng, fresh, dom=None, rngcs=None, nin=None, nout=None, dt="f8", base="float",
                 invertible=False, general=False):
    kind = _kind_for(dt, rng, base)
    if dom is None:
        nin = nin or rng.choice([1, 2, 2, 3, 3, 4, 5])
        avoid = rngcs["names"] if rngcs is not None and rng.random() < 0.7 else ()
        dom = _cs_json(fresh.names(nin, avoid), rng.choice(CS_NAMES), dt)
    if rngcs is None:
        nout = nout or rng.choice([1, 2, 2, 3, 3, 4, 5])
        avoid = dom["names"] if rng.random() < 0.7 else ()
        rngcs = _cs_json(fresh.names(nout, avoid), rng.choice(CS_NAMES), dt)
    kind_eff = kind
    if dom["dt"] != dt or rngcs["dt"] != dt:
        # a deliberately different dtype: the matrix follows the lower one so the constructor keeps it
        low = "i8" if "i8" in (dom["dt"], rngcs["dt"]) else "f8"
        kind_eff = _kind_for(low if (dom["dt"] == rngcs["dt"]) else dt, rng, base)
    mat = _rand_mat(rng, kind_eff, len(rngcs["names"]), len(dom["names"]), invertible)
    if general and len(rngcs["names"]) == len(dom["names"]) and kind_eff in ("float", "int"):
        # _as_coordinate_map inverts every affine piece with LAPACK: keep away from exactly singular
        # matrices whose singularity rounding hides (LAPACK then returns a meaningless "inverse")
        for _ in range(20):
            m = _mat_np(mat, kind_eff)
            _, sing = _exact_rank_info(m)
            if not sing:
                if np.linalg.cond(np.asarray(m, dtype=float)) < 1e6:
                    break
            else:
                try:
                    np.linalg.inv(np.asarray(m, dtype=float))
                except np.linalg.LinAlgError:
                    break
            mat = _rand_mat(rng, kind_eff, len(rngcs["names"]), len(dom["names"]), True)
    return {"dom": dom, "rng": rngcs, "kind": kind_eff, "mat": mat}


def _gen_order(rng, names, malformed):
    n = len(names)
    if not malformed:
        r = rng.random()
        if r < 0.12:
            return None
        p = list(range(n))
        if r < 0.2:
            pass                      # identity (short-cut branch)
        else:
            rng.shuffle(p)
        return [names[i] for i in p] if rng.random() < 0.5 else p
    w = rng.choice(["dup", "short", "long", "range", "unknown", "empty"])
    p = list(range(n))
    rng.shuffle(p)
    if w == "dup":
        p[rng.randrange(n)] = p[0] if n > 1 else 0
        if n == 1:
            p = [0, 0]
    elif w == "short":
        p = p[:-1] if n > 1 else []
    elif w == "long":
        p = p + [rng.randrange(n)]
    elif w == "range":
        p[rng.randrange(n)] = n + rng.randrange(2)
    elif w == "unknown":
        q = [names[i] for i in p]
        q[rng.randrange(n)] = "nosuch"
        return q
    else:
        return []
    return p if rng.random() < 0.6 or any(i >= n for i in p) else [names[i] for i in p]


def _gen_rename(rng, names, fresh, malformed):
    """renaming dictionary as [key, value] pairs (dict insertion order).  Well-formed ones are drawn from:
    fresh names; swaps and longer cycles of existing names; chains where a new name is another axis' old
    name (which itself moves on to a fresh name); identity entries; partial overlaps (a new name equal to an
    old name that is *not* renamed: duplicate result, legitimately refused); keys by name, index or negative
    index, mixed, in random order."""
    n = len(names)
    mode = rng.choice(["fresh", "fresh", "swap", "cycle", "chain", "chain", "identity", "overlap", "mixed"])
    tgt = {}                                   # axis index -> new name (simultaneous semantics)
    if mode in ("swap", "cycle") and n >= 2:
        k = 2 if (mode == "swap" or n == 2) else rng.randint(3, n) if n >= 3 else 2
        idx = rng.sample(range(n), k)
        sh = rng.randrange(1, k)               # rotation by sh: a k-cycle (or product of cycles)
        for a in range(k):
            tgt[idx[a]] = names[idx[(a + sh) % k]]
        if rng.random() < 0.4:                 # plus an unrelated fresh rename
            rest = [i for i in range(n) if i not in tgt]
            if rest:
                tgt[rng.choice(rest)] = fresh.names(1, names)[0]
    elif mode == "chain" and n >= 2:
        k = rng.randint(2, n)
        idx = rng.sample(range(n), k)          # idx[0] -> name of idx[1] -> ... -> last gets a fresh name
        for a in range(k - 1):
            tgt[idx[a]] = names[idx[a + 1]]
        tgt[idx[-1]] = fresh.names(1, names)[0]
    elif mode == "identity":
        for i in rng.sample(range(n), rng.randint(1, n)):
            tgt[i] = names[i] if rng.random() < 0.6 else fresh.names(1, list(names) + list(tgt.values()))[0]
    elif mode == "overlap" and n >= 2:
        i, j = rng.sample(range(n), 2)
        tgt[i] = names[j]                      # j keeps its name: duplicate, CoordinateSystem refuses
        if rng.random() < 0.5:
            rest = [t for t in range(n) if t not in (i, j)]
            if rest:
                tgt[rng.choice(rest)] = fresh.names(1, names)[0]
    elif mode == "mixed" and n >= 2:
        pool = list(names) + fresh.names(n, names)
        for i in rng.sample(range(n), rng.randint(1, n)):
            tgt[i] = rng.choice(pool)
    if not tgt:
        k = rng.randint(1, n)
        for i, nn in zip(rng.sample(range(n), k), fresh.names(k, names)):
            tgt[i] = nn
    items = list(tgt.items())
    rng.shuffle(items)                         # dict order must not matter
    kv = []
    for i, nn in items:
        r = rng.random()
        kv.append([names[i] if r < 0.5 else (i if r < 0.8 else i - n), nn])
    if not malformed:
        if rng.random() < 0.2:                 # both the index and the name of one axis: the index wins
            i, nn = items[0]
            extra = fresh.names(1, list(names) + [v for _, v in items])[0]
            kv = [[names[i], extra]] + [p for p in kv if not (p[0] == names[i] or
                                                            (isinstance(p[0], int) and p[0] % n == i))]
            kv.append([rng.choice([i, i - n]), nn])
        final = [tgt.get(i, names[i]) for i in range(n)]
        return kv, ("ok" if len(set(final)) == n else "any")
    idx = [i for i, _ in items]
    w = rng.choice(["unknown", "dupname", "range"])
    if w == "unknown":
        kv.append(["nosuch", "zz"])
    elif w == "dupname":
        if n >= 2:
            i = idx[0]
            other = names[(i + 1) % n]
            kv = [[names[i], other]]
        else:
            kv.append(["nosuch", "zz"])
    else:
        kv.append([n + rng.randrange(2), "zz"])
    return kv, "any"


def _as_ctor(rng, fresh, raw, base):
    """the same kind of initial map built through a class constructor instead of AffineTransform(...)"""
    inn, outn = list(raw["dom"]["names"]), list(raw["rng"]["names"])
    nin, nout = len(inn), len(outn)
    kind = raw["kind"]
    dn, rn = raw["dom"]["name"], raw["rng"]["name"]
    vk2 = rng.choice(["float", "int", kind])
    ways = ["fp", "fp", "fpmv", "fpmv", "mkaff", "mkaff", "ident"] + (["fss", "fss", "fss"] if nin == nout else [])
    w = rng.choice(ways)
    bad = rng.random() < 0.15
    if w == "fp":
        m = {"ctor": "fp", "inn": inn, "outn": outn, "kind": kind, "mat": raw["mat"], "dn": dn, "rn": rn}
        if bad:
            m["malformed"] = True
            if rng.random() < 0.5:
                m["inn"] = inn + fresh.names(1, inn)
            else:
                m["outn"] = [outn[0]] + outn[:-1] if nout > 1 else outn + fresh.names(1, outn)
        return m
    if w == "fpmv":
        b = [_val(rng, vk2) for _ in range(nout)]
        m = {"ctor": "fpmv", "inn": inn, "outn": outn, "kind": kind, "A": [row[:-1] for row in raw["mat"][:-1]],
             "b": b, "bk": vk2 if kind != "frac" else "frac", "dn": dn, "rn": rn}
        if bad:
            m["malformed"] = True
            m["b"] = rng.choice([b[:1], b + ["1"], []])
        return m
    if w == "fss":
        sk, pk = rng.choice(["float", "int", "frac"]), rng.choice(["float", "int", "int", "frac"])
        m = {"ctor": "fss", "inn": inn, "outn": outn, "kind": kind, "sk": sk, "pk": pk, "dn": dn, "rn": rn,
             "start": [_val(rng, sk) for _ in range(nin)],
             "step": [rng.choice(["1", "2", "-1", "3", _val(rng, pk)]) for _ in range(nin)]}
        if bad:
            m["malformed"] = True
            z = rng.choice(["outn", "step", "start1", "start"])
            if z == "outn":
                m["outn"] = outn + fresh.names(1, outn)
            elif z == "step":
                m["step"] = m["step"] + ["1"]
            elif z == "start1":
                m["start"] = m["start"][:1]
            else:
                m["start"] = m["start"] + ["0"]
        return m
    if w == "ident":
        m = {"ctor": "ident", "names": inn, "name": dn, "kind": "float"}
        if bad and nin >= 2:
            m["malformed"] = True
            m["names"] = [inn[0]] + inn[:-1]
        return m
    # CoordMapMaker: the makers know more names than needed; zooms / offsets append diagonal axes
    extra = rng.choice([0, 0, 1, 2]) if max(nin, nout) + 2 <= MAXDIM else 0
    more_i = fresh.names(extra + rng.randint(0, 2), inn + outn)
    more_o = fresh.names(extra + rng.randint(0, 2), inn + outn + more_i)
    zk = rng.choice(["float", "int", "float"]) if kind != "frac" else "frac"
    m = {"ctor": "mkaff", "kind": kind, "mat": raw["mat"], "zk": zk,
         "dm": {"names": inn + more_i, "name": dn, "dt": rng.choice(["f8", "f8", MDT[kind]])},
         "rm": {"names": outn + more_o, "name": rn, "dt": rng.choice(["f8", "f8", MDT[kind]])},
         "zooms": [rng.choice(["1", "2", "-1", _val(rng, zk)]) for _ in range(extra)],
         "via": rng.choice(["call", "make_affine"]), "explicit": rng.random() < 0.3}
    m["ofk"] = zk if (zk == "frac" or rng.random() < 0.6) else "float"
    m["offsets"] = [_val(rng, m["ofk"]) for _ in range(extra)] if rng.random() < 0.7 else []
    if bad:
        m["malformed"] = True
        z = rng.choice(["offsets", "short-maker", "dup"])
        if z == "offsets" and extra:
            m["offsets"] = m["offsets"][:-1] if len(m["offsets"]) > 1 else ["1", "2", "3"]
        elif z == "short-maker":
            m["dm"]["names"] = inn[:-1] if nin > 1 else []
        else:
            m["rm"]["names"] = [outn[0]] + outn[:-1] if nout > 1 else outn
    return m


def _build(case):
    """explicit program for a seed-form case; runs the real code to follow the current coordinate systems"""
    rng = random.Random(case["seed"])
    fresh = _Fresh(rng)
    base = case["vk"]
    general = case.get("general")
    dt0 = MDT[base]
    nin = rng.choice([1, 2, 2, 3, 3, 3, 4, 5])
    nout = nin if rng.random() < 0.6 else rng.choice([1, 2, 3, 4, 5])
    init = _gen_partner(rng, fresh, general=bool(general), nin=nin, nout=nout, dt=dt0, base=base,
                        invertible=rng.random() < 0.7)
    prog = {"init": init, "ops": [], "expect_init": "ok"}
    if not general and base in ("float", "int", "frac") and rng.random() < 0.2:
        init = _as_ctor(rng, fresh, init, base)
        prog["init"] = init
        if init.get("malformed"):
            prog["expect_init"] = "any"
    if general:
        g = rng.choice(["affine", "affine", "shear", "shear", "square"])
        prog["general"] = {"g": g, "c": rng.choice(["1", "2", "-1"]) if base == "int" else rng.choice(["1", "1/2", "-2"])}
        if rng.random() < 0.2:
            prog["general"]["maker"] = rng.choice(["call", "make_cmap"])
    if rng.random() < 0.06 and not init.get("ctor"):      # malformed constructor arguments
        # (a matrix whose bottom row is merely close to [0,..,0,1] is not wrapped as a general map: the wrapper
        # inverts it, and the inverse's bottom row may or may not pass the constructor's window)
        w = rng.choice(["shape", "bottom", "bottom-tol", "dupnames"] if not general else ["shape", "bottom", "dupnames"])
        prog["expect_init"] = "any"
        if w == "shape":
            init["mat"] = [row[:-1] for row in init["mat"]] if rng.random() < 0.5 and nin >= 1 else init["mat"][:-1]
            if not init["mat"] or not init["mat"][0]:
                init["mat"] = [["1"]]
        elif w == "bottom":
            init["mat"][-1][rng.randrange(nin + 1)] = "2"
        elif w == "bottom-tol" and base == "float":
            # inside / outside the np.allclose window of the bottom-row test, away from its edge
            init["mat"][-1][-1] = rng.choice([str(Fraction(1) + Fraction(1, 2 ** 18)),     # 3.8e-6: accepted
                                              str(Fraction(1) + Fraction(1, 2 ** 14))])    # 6.1e-5: refused
            if nin >= 1:
                init["mat"][-1][0] = rng.choice(["0", str(Fraction(1, 2 ** 30)), str(Fraction(1, 2 ** 20))])
            # only the constructor's acceptance window and the evaluation are probed: a matrix whose bottom row
            # is merely *close* to [0,..,0,1] is not an affine matrix in the property's sense (products use the
            # whole matrix, evaluation ignores the bottom row), so no algebra follows
            case = dict(case, nops=0)
        else:
            init["dom"]["names"] = (init["dom"]["names"] + init["dom"]["names"])[:nin] if nin == 1 else \
                [init["dom"]["names"][0]] + init["dom"]["names"][:-1]
            if len(set(init["dom"]["names"])) == len(init["dom"]["names"]):
                init["dom"]["names"][-1] = init["dom"]["names"][0]
            if nin == 1:
                prog["expect_init"] = "ok"
    try:
        cur = _real_map(init)
        if general:
            cur = _real_general(cur, prog["general"])
    except Exception:
        prog["pts"], prog["pk"] = _gen_pts(rng, base), dt0
        return prog
    aff_ops = ["compose_r"] * 3 + ["compose_l"] * 3 + ["compose3", "compose_n", "compose_n", "prod_n", "prod_n",
               "prod_r", "prod_l", "reord_d", "reord_d",
               "reord_d", "reord_r", "reord_r", "reord_r", "ren_d", "ren_d", "ren_r", "ren_r", "inv", "inv",
               "shift_d", "shift_r", "append", "append", "drop", "drop", "drop"]
    gen_ops = ["compose_r"] * 3 + ["compose_l"] * 3 + ["compose3", "compose_n", "prod_n", "prod_r", "prod_l",
               "reord_d", "reord_d",
               "reord_r", "reord_r", "ren_d", "ren_r", "inv", "inv", "shift_d", "shift_r"]
    for _ in range(case["nops"]):
        dcs, rcs = _cs_of(cur.function_domain), _cs_of(cur.function_range)
        dt = dcs["dt"]
        if dt not in ("i8", "f8", "O") or rcs["dt"] != dt and not general:
            break
        n_i, n_o = len(dcs["names"]), len(rcs["names"])
        kname = rng.choice(gen_ops if general else aff_ops)
        if general and dt == "i8" and kname == "inv":
            # inverse(preserve_dtype=True) truncates the float inverse (astype) and then gives up when a
            # rounded 0.999.. became 0: whether an int64 general map has an inverse function is a rounding matter
            continue
        bad = rng.random() < 0.15
        op = {"op": kname, "expect": "ok"}
        if kname in ("compose_r", "compose_l", "compose3"):
            inv_ok = rng.random() < 0.6
            why = None
            if kname in ("compose_r", "compose3"):
                target = dict(dcs)
                if bad:
                    target, why = _mismatch(rng, dcs, fresh)
                R = _gen_partner(rng, fresh, general=bool(general), rngcs=target, nin=len(target["names"]) if inv_ok else None,
                                 dt=dt if why != "dtype" else target["dt"], base=base, invertible=inv_ok)
                if why == "dtype":
                    R["dom"]["dt"] = target["dt"]
            if kname in ("compose_l", "compose3"):
                target = dict(rcs)
                bad_l = bad and (kname == "compose_l" or rng.random() < 0.5)
                wl = None
                if bad_l:
                    target, wl = _mismatch(rng, rcs, fresh)
                L = _gen_partner(rng, fresh, general=bool(general), dom=target, nout=len(target["names"]) if inv_ok else None,
                                 dt=rcs["dt"] if wl != "dtype" else target["dt"], base=base, invertible=inv_ok)
                if wl == "dtype":
                    L["rng"]["dt"] = target["dt"]
                why = why or wl
            if kname == "compose_r":
                op["map"] = R
            elif kname == "compose_l":
                op["map"] = L
            else:
                op["left"], op["right"] = L, R
            if why:
                op["expect"], op["why"] = "refuse", why
        elif kname == "compose_n":
            # compose(L_1, .., L_a, cur, R_1, .., R_b) with a + b in 0..4; one partner may not match
            nl, nr = rng.choice([(0, 0), (1, 1), (2, 0), (0, 2), (2, 1), (1, 2), (2, 2), (3, 0), (0, 3), (1, 0)])
            if base == "sym":          # products of symbolic matrices swell quickly
                nl, nr = min(nl, 1), min(nr, 1)
            bad_at = rng.randrange(nl + nr) if (bad and nl + nr) else None
            why, Rs, Ls = None, [], []
            try:
                tgt = dict(dcs)
                for j in range(nr):                       # R_1's range is the current domain, R_2's is R_1's domain, ..
                    target, w = dict(tgt), None
                    if bad_at == j:
                        target, w = _mismatch(rng, tgt, fresh)
                    inv_ok = rng.random() < 0.5
                    R = _gen_partner(rng, fresh, general=bool(general), rngcs=target,
                                     nin=len(target["names"]) if inv_ok else None,
                                     dt=tgt["dt"] if w != "dtype" else target["dt"], base=base, invertible=inv_ok)
                    if w == "dtype":
                        R["dom"]["dt"] = target["dt"]
                    why = why or w
                    Rs.append(R)
                    tgt = _cs_of(_real_map(R).function_domain)
                tgt = dict(rcs)
                for j in range(nl):                       # innermost left partner first
                    target, w = dict(tgt), None
                    if bad_at == nr + j:
                        target, w = _mismatch(rng, tgt, fresh)
                    inv_ok = rng.random() < 0.5
                    L = _gen_partner(rng, fresh, general=bool(general), dom=target,
                                     nout=len(target["names"]) if inv_ok else None,
                                     dt=tgt["dt"] if w != "dtype" else target["dt"], base=base, invertible=inv_ok)
                    if w == "dtype":
                        L["rng"]["dt"] = target["dt"]
                    why = why or w
                    Ls.insert(0, L)
                    tgt = _cs_of(_real_map(L).function_range)
            except Exception:
                continue
            op.update(ls=Ls, rs=Rs)
            if why:
                op["expect"], op["why"] = "refuse", why
        elif kname == "prod_n":
            nl, nr = rng.choice([(0, 0), (1, 1), (2, 0), (0, 2), (1, 2), (2, 1), (0, 1)])
            used_i, used_o = list(dcs["names"]), list(rcs["names"])
            room_i, room_o = MAXDIM - n_i, MAXDIM - n_o
            parts = []
            for _j in range(nl + nr):
                if room_i < 1 or room_o < 1:
                    break
                k_i, k_o = rng.randint(1, min(room_i, 2)), rng.randint(1, min(room_o, 2))
                pdt = dt if (general or dt == "O" or rng.random() < 0.8) else rng.choice(["i8", "f8"])
                B = _gen_partner(rng, fresh, general=bool(general), nin=k_i, nout=k_o, dt=pdt, base=base)
                B["dom"]["names"] = fresh.names(k_i, used_i)
                B["rng"]["names"] = fresh.names(k_o, used_o)
                used_i += B["dom"]["names"]
                used_o += B["rng"]["names"]
                room_i -= k_i
                room_o -= k_o
                parts.append(B)
            nl = min(nl, len(parts))
            if bad and parts:
                parts[-1]["rng"]["names"][0] = rcs["names"][0]   # clash of output names: refused
                op["expect"] = "any"
            op.update(ls=parts[:nl], rs=parts[nl:],
                      **{"in": rng.choice([None, "product", "pin", ""]), "out": rng.choice([None, "product", "pout"])})
        elif kname in ("prod_r", "prod_l"):
            room = MAXDIM - max(n_i, n_o)
            if room < 1:
                continue
            k_i, k_o = rng.randint(1, min(room, 3)), rng.randint(1, min(room, 3))
            pdt = dt if (general or rng.random() < 0.8) else rng.choice(["i8", "f8"])
            if dt == "O":
                pdt = "O"
            B = _gen_partner(rng, fresh, general=bool(general), nin=k_i, nout=k_o, dt=pdt, base=base)
            used_i, used_o = set(dcs["names"]), set(rcs["names"])
            B["dom"]["names"] = fresh.names(k_i, used_i)
            B["rng"]["names"] = fresh.names(k_o, used_o)
            if bad:
                B["dom"]["names"][0] = dcs["names"][0]      # clash of input names: refused by CoordinateSystem
                op["expect"] = "any"
            op.update(map=B, **{"in": rng.choice(["product", "pin", ""]), "out": rng.choice(["product", "pout"])})
        elif kname in ("reord_d", "reord_r"):
            names = dcs["names"] if kname == "reord_d" else rcs["names"]
            op["order"] = _gen_order(rng, names, bad)
            if bad:
                op["expect"] = "any"
        elif kname in ("ren_d", "ren_r"):
            names = dcs["names"] if kname == "ren_d" else rcs["names"]
            op["kv"], op["expect"] = _gen_rename(rng, list(names), fresh, bad)
        elif kname == "inv":
            op["expect"] = "any"
            if base == "sym" and n_i > 2:
                continue          # symbolic inverses of 4x4 and larger matrices take sympy minutes
            if general:
                pass
            else:
                sq, sing = _exact_rank_info(cur.affine)
                if sq and not sing:
                    A = _to_float(cur.affine)
                    if np.linalg.cond(A) > 1e6:
                        continue
                    op["expect"] = "ok"
                elif sq and dt != "O":
                    try:
                        np.linalg.inv(np.asarray(cur.affine, dtype=float))
                        continue       # rounding hides the exact singularity from LAPACK: not a property matter
                    except np.linalg.LinAlgError:
                        pass
        elif kname in ("shift_d", "shift_r"):
            n = n_i if kname == "shift_d" else n_o
            vk = "int" if (dt == "i8" and rng.random() < 0.7) else ("frac" if dt == "O" else "float")
            ln = n
            if bad:
                ln = rng.choice([x for x in (0, 1, n - 1, n + 1) if x != n and x >= 0])
                op["expect"] = "any"
            op.update(vec=[_val(rng, vk) for _ in range(ln)], name=rng.choice(["shifted", "", "new-origin"]), vk=vk)
        elif kname == "append":
            if max(n_i, n_o) >= MAXDIM:
                continue
            vk = "int" if dt == "i8" else ("frac" if dt == "O" else "float")
            both = list(dcs["names"]) + list(rcs["names"])
            a_in, a_out = fresh.names(1, both)[0], fresh.names(1, both)[0]
            if rng.random() < 0.15:
                # names colliding across sides are legal: the new input axis named like an existing output
                # axis (or the other way round); only the later drop-by-name becomes ambiguous
                free_o = [x for x in rcs["names"] if x not in dcs["names"]]
                free_i = [x for x in dcs["names"] if x not in rcs["names"]]
                if free_o and rng.random() < 0.5:
                    a_in = rng.choice(free_o)
                elif free_i:
                    a_out = rng.choice(free_i)
            op.update(**{"in": a_in, "out": a_out},
                      start=_val(rng, vk), step=rng.choice(["1", "2", "-1", "0", _val(rng, vk)]), vk=vk)
            if bad:
                op["in"] = dcs["names"][0]
                op["expect"] = "any"
        elif kname == "drop":
            if dt == "O" or n_i < 2 or n_o < 2:
                continue
            op["expect"] = "any"
            r = rng.random()
            if r < 0.45:
                ax = rng.choice(dcs["names"])
            elif r < 0.75:
                ax = rng.choice(rcs["names"])
            elif r < 0.95:
                ax = rng.randrange(-n_i, n_i)
            else:
                ax = rng.choice(["nosuch", n_i + 1])
            op.update(axis=ax, fix0=rng.random() < 0.7)
            try:
                _ornts(cur.affine, op["fix0"])
            except Exception:
                continue
        prog["ops"].append(op)
        try:
            with warnings.catch_warnings():
                warnings.simplefilter("ignore")
                nxt, _ = _apply_op(cur, op, general)
        except Exception:
            break
        if nxt is None:
            break
        cur = nxt
        # after append, sometimes drop the appended axis again (must succeed and restore the map)
        if kname == "append" and op["expect"] == "ok" and rng.random() < 0.6 and _dt_code(cur.affine.dtype) != "O":
            step_nonzero = _exact(_entry(op["step"], op["vk"])) != 0
            fz = True if not step_nonzero else rng.random() < 0.5
            d = {"op": "drop", "axis": rng.choice([op["in"], op["out"], -1]), "fix0": fz, "expect": "any"}
            try:
                orn = _ornts(cur.affine, fz)
                clash = op["in"] in rcs["names"] or op["out"] in dcs["names"]
                if step_nonzero and orn[-1] == cur.ndims[1] - 1 and not (clash and isinstance(d["axis"], str)):
                    d["expect"] = "ok"
                with warnings.catch_warnings():
                    warnings.simplefilter("ignore")
                    nxt, _ = _apply_op(cur, d, general)
                prog["ops"].append(d)
                cur = nxt
            except Exception:
                prog["ops"].append(d)
                break
    final_dt = _dt_code(cur.function_domain.coord_dtype)
    prog["pts"] = _gen_pts(rng, base)
    r = rng.random()
    prog["pk"] = final_dt if r < 0.8 else rng.choice(["i8", "f8", "O"])
    if rng.random() < 0.06:
        prog["ptdim_off"] = rng.choice([-1, 1])
    return prog


def _np_join(*codes):
    """numpy's promotion of a sequence of arrays (pairwise, left to right: promotion is not associative),
    computed independently of nipy.safe_dtype"""
    import functools
    return _dt_code(functools.reduce(np.promote_types, [np.dtype(DT_NP[c]) for c in codes]))


def _wval(rng, code):
    k = np.dtype(DT_NP[code]).kind
    if k == "b":
        return rng.choice(["0", "1", "1"])
    if k in "iu":
        return rng.choice(["0", "0", "1", "1", "2"])
    if k in "fc":
        return rng.choice(["0", "1", "1", "2", "1/2", "3/2"])
    return rng.choice(["0", "1", "2", "1/2", "1/3"])


def _wmat(rng, code, nout, nin, invertible):
    if invertible and nin == nout:
        n = nin
        U = [[1 if i == j else (rng.choice([0, 0, 1]) if j > i else 0) for j in range(n)] for i in range(n)]
        perm = list(range(n))
        rng.shuffle(perm)
        rows = [[str(v) for v in U[perm[i]]] + [_wval(rng, code)] for i in range(n)]
    else:
        rows = [[_wval(rng, code) for _ in range(nin + 1)] for _ in range(nout)]
    return rows + [["0"] * nin + ["1"]]


def _build_wdt(case):
    """short programs over the whole dtype lattice: matrix, domain and range dtypes drawn independently from
    bool / int8..64 / uint8..64 / float16..64 / complex64,128 / object; partners and points of yet other dtypes.
    Values stay small and non-negative so that fixed-width integer arithmetic does not wrap."""
    rng = random.Random(case["seed"])
    fresh = _Fresh(rng)
    # complex entries inside an object matrix are refused by the constructor's bottom-row test
    # (float(complex) is a TypeError); the property speaks of float, integer and symbolic entries, so a program
    # uses complex dtypes or the object dtype, not both
    codes = [c for c in X.CS_CODES if c not in ("c8", "c16")] if rng.random() < 0.6 else \
        [c for c in X.CS_CODES if c != "O"]
    # (nor bool matrices inside object maps: sympy cannot invert a matrix of Python bools)
    mcodes = codes + ([] if "O" in codes else ["b1"])
    if rng.random() < 0.35:
        mc = dc = rc = rng.choice(codes)
    else:
        mc, dc, rc = rng.choice(mcodes), rng.choice(codes), rng.choice(codes)
    nin = rng.choice([1, 2, 2, 3])
    nout = nin if rng.random() < 0.65 else rng.choice([1, 2, 3])
    init = {"dom": _cs_json(fresh.names(nin), rng.choice(CS_NAMES), dc),
            "rng": _cs_json(fresh.names(nout), rng.choice(CS_NAMES), rc),
            "kind": "dt:" + mc, "mat": _wmat(rng, mc, nout, nin, rng.random() < 0.7)}
    prog = {"init": init, "ops": [], "expect_init": "ok", "wide": True}
    pool = ["0", "1", "2", "3", "1/2", "3/2", "1", "2"]
    prog["pts"] = [[rng.choice(pool) for _ in range(MAXDIM + 2)] for _ in range(rng.choice([1, 2, 3]))]
    try:
        cur = _real_map(init)
    except Exception:
        prog["pk"] = dc
        return prog

    def small(m, lim):
        a = np.asarray(m.affine)
        try:
            return all(abs(_exact(v)) <= lim for v in a.ravel())
        except Exception:
            return False
    for _ in range(case["nops"]):
        dcs, rcs = _cs_of(cur.function_domain), _cs_of(cur.function_range)
        J = dcs["dt"]
        narrow = J in ("i1", "u1", "b1")
        if not small(cur, 10 if narrow else 200):
            break
        n_i, n_o = len(dcs["names"]), len(rcs["names"])
        kname = rng.choice(["compose_r", "compose_r", "compose_l", "compose_l", "prod_n", "prod_n", "inv", "inv",
                            "reord_d", "reord_r", "ren_d", "append", "shift_d", "shift_r"])
        op = {"op": kname, "expect": "any"}
        if kname in ("compose_r", "compose_l"):
            mc2 = J if rng.random() < 0.5 else rng.choice(mcodes)
            other = J if rng.random() < 0.8 else rng.choice(codes)
            k = rng.choice([1, 2, 3])
            if kname == "compose_r":
                B = {"dom": _cs_json(fresh.names(k, dcs["names"]), rng.choice(CS_NAMES), other), "rng": dict(dcs),
                     "kind": "dt:" + mc2, "mat": _wmat(rng, mc2, n_i, k, rng.random() < 0.6)}
            else:
                B = {"dom": dict(rcs), "rng": _cs_json(fresh.names(k, rcs["names"]), rng.choice(CS_NAMES), other),
                     "kind": "dt:" + mc2, "mat": _wmat(rng, mc2, k, n_o, rng.random() < 0.6)}
            op["map"] = B
            # the partner keeps the touching coordinate system only if its own promoted dtype is J
            if _np_join(mc2, B["dom"]["dt"], B["rng"]["dt"]) == J:
                op["expect"] = "ok"
            else:
                op["expect"], op["why"] = "refuse", "dtype"
        elif kname == "prod_n":
            if max(n_i, n_o) + 2 > MAXDIM:
                continue
            parts = []
            used_i, used_o = list(dcs["names"]), list(rcs["names"])
            for _j in range(rng.choice([1, 1, 2])):
                c2 = rng.choice(codes)
                mc2 = rng.choice([c2, c2, rng.choice(mcodes)])
                B = {"dom": _cs_json(fresh.names(1, used_i), "", c2), "rng": _cs_json(fresh.names(1, used_o), "", c2),
                     "kind": "dt:" + mc2, "mat": _wmat(rng, mc2, 1, 1, False)}
                used_i += B["dom"]["names"]
                used_o += B["rng"]["names"]
                parts.append(B)
            nl = rng.randint(0, len(parts))
            op.update(ls=parts[:nl], rs=parts[nl:], **{"in": rng.choice([None, "pin"]), "out": None})
            op["expect"] = "ok"
        elif kname == "inv":
            sq, sing = _exact_rank_info(cur.affine)
            if sq and not sing and J not in ("f2",):
                op["expect"] = "ok"
            elif sq and sing and J not in ("O", "f2"):
                try:
                    np.linalg.inv(np.asarray(cur.affine))
                    continue           # rounding hides the exact singularity from LAPACK: not a property matter
                except np.linalg.LinAlgError:
                    pass
        elif kname in ("reord_d", "reord_r"):
            names = dcs["names"] if kname == "reord_d" else rcs["names"]
            op["order"] = _gen_order(rng, names, False)
            op["expect"] = "ok"
        elif kname == "ren_d":
            op["kv"], op["expect"] = _gen_rename(rng, list(dcs["names"]), fresh, False)
        elif kname == "append":
            if max(n_i, n_o) >= MAXDIM:
                continue
            both = list(dcs["names"]) + list(rcs["names"])
            vk = rng.choice(["int", "float"])
            op.update(**{"in": fresh.names(1, both)[0], "out": fresh.names(1, both)[0]},
                      start=rng.choice(["0", "1", "2"]), step=rng.choice(["1", "2"]), vk=vk, expect="ok")
        else:
            if J.startswith("u") or J == "O":
                continue
            n = n_i if kname == "shift_d" else n_o
            vk = "int" if _is_intk(J) else "float"
            op.update(vec=[rng.choice(["0", "1", "2"]) for _ in range(n)], name="shifted", vk=vk, expect="ok")
        prog["ops"].append(op)
        try:
            with warnings.catch_warnings():
                warnings.simplefilter("ignore")
                nxt, _ = _apply_op(cur, op, None)
        except Exception:
            break
        if nxt is None:
            break
        cur = nxt
        if kname == "inv":
            break                      # inexact values from here on
    final = _dt_code(cur.function_domain.coord_dtype)
    # (bool points are not multiplied with the sympy numbers an object-dtype inverse holds)
    prog["pk"] = final if rng.random() < 0.6 else rng.choice(codes + ([] if final == "O" else ["b1"]))
    return prog


def _gen_pts(rng, base):
    npts = rng.choice([1, 2, 3, 5])
    vals = ["-3", "-2", "-1", "0", "1", "2", "3", "5", "7", "1/2", "-3/2", "1/4", "9/4"]
    pts = [[rng.choice(vals) for _ in range(MAXDIM + 2)] for _ in range(npts)]
    pts[0] = [str(v) for v in [2, -3, 5, 7, -1, 4, 1, 6]][: MAXDIM + 2]
    return pts


# ----------------------------------------------------------------------
# equality / similar_to / equivalent
# ----------------------------------------------------------------------
def _bstr(v):
    return str(bool(v)).lower()


def _run_eq(case):
    import copy
    import nipy.core.reference.coordinate_map as cm
    rng = random.Random(case["seed"])
    kind = rng.choice(["float", "float", "float", "int", "frac"])
    nin, nout = rng.randint(1, 4), rng.randint(1, 4)
    A = X.rand_map(rng, nin, nout, kind)
    mode = rng.choice(["same", "reordered", "reordered", "reordered", "tiny", "moderate", "renamed", "csname",
                       "dtype", "dims", "unrelated", "subset"])
    pi, po = list(range(nin)), list(range(nout))
    if mode != "same":
        rng.shuffle(pi)
        rng.shuffle(po)
    B = {"dom": dict(A["dom"], names=[A["dom"]["names"][j] for j in pi]),
         "rng": dict(A["rng"], names=[A["rng"]["names"][i] for i in po]), "kind": kind,
         "mat": [[A["mat"][po[i]][pi[j]] for j in range(nin)] + [A["mat"][po[i]][nin]] for i in range(nout)]
                + [["0"] * nin + ["1"]]}
    exact = mode in ("same", "reordered")
    if mode in ("tiny", "moderate") and kind == "float":
        i, j = rng.randrange(nout), rng.randrange(nin + 1)
        B["mat"][i][j] = str(Fraction(B["mat"][i][j]) + (Fraction(1, 2 ** 30) if mode == "tiny" else Fraction(1, 4)))
    elif mode in ("tiny", "moderate"):
        i, j = rng.randrange(nout), rng.randrange(nin + 1)
        B["mat"][i][j] = str(Fraction(B["mat"][i][j]) + 1)
    elif mode == "renamed":
        side = rng.choice(["dom", "rng"])
        B[side]["names"][rng.randrange(len(B[side]["names"]))] = "other"
    elif mode == "csname":
        side = rng.choice(["dom", "rng"])
        B[side]["name"] = B[side]["name"] + "_b"
    elif mode == "dtype" and kind != "frac":
        B["kind"] = "int" if kind == "float" else "float"
        dtn = MDT[B["kind"]]
        B["dom"]["dt"] = B["rng"]["dt"] = dtn
        B["mat"] = [[str(int(Fraction(v))) for v in row] for row in B["mat"]] if B["kind"] == "int" else B["mat"]
        if any(Fraction(v).denominator != 1 for row in A["mat"] for v in row):
            exact = False
    elif mode == "dims":
        B = X.rand_map(rng, nin + 1, nout, kind, dom_names=A["dom"]["names"] + ["extra"],
                       rng_names=A["rng"]["names"])
    elif mode == "unrelated":
        B = X.rand_map(rng, nin, nout, kind, dom_names=B["dom"]["names"], rng_names=B["rng"]["names"])
    elif mode == "subset" and nin >= 2:
        B = X.rand_map(rng, nin - 1, nout, kind, dom_names=B["dom"]["names"][:-1], rng_names=B["rng"]["names"])
    ra, rb = _real_map(A), _real_map(B)
    pts = _gen_pts(rng, kind)
    lines, impl, oracle = [], [], None
    for (jx, x, jy, y) in ((A, ra, B, rb), (B, rb, A, ra)):
        def obs(f):
            try:
                with warnings.catch_warnings():
                    warnings.simplefilter("ignore")
                    return _bstr(f())
            except Exception as e:
                return errname(e)
        e1, e2, e3 = obs(lambda: x == y), obs(lambda: x.similar_to(y)), obs(lambda: cm.equivalent(x, y))
        ne = obs(lambda: x != y)
        if e1 in ("true", "false") and ne == e1:
            oracle = oracle or "AffineTransform: == and != agree"
        lines.append(f"eq {_raw_line(jx)} {_raw_line(jy)}")
        impl.append({"status": "txt", "txt": f"eq {e1} | sim {e2} | equiv {e3}"})
        # clause: equivalent maps send every named input tuple to the same named outputs
        if e3 == "true":
            try:
                pk = _pk_for(x)
                px = _pts_np(pts, pk, x.ndims[0])
                col = {n: j for j, n in enumerate(x.function_domain.coord_names)}
                py = np.empty_like(px)
                for j, n in enumerate(y.function_domain.coord_names):
                    py[:, j] = px[:, col[n]]
                vx, vy = _call_f(x, px), _call_f(y, py)
                ocol = {n: j for j, n in enumerate(x.function_range.coord_names)}
                vy2 = np.empty_like(vy)
                for j, n in enumerate(y.function_range.coord_names):
                    vy2[:, ocol[n]] = vy[:, j]
                scale = max(1.0, float(np.max(np.abs(vx))) if vx.size else 1.0)
                if not np.allclose(vx, vy2, rtol=1e-4, atol=1e-4 * scale):
                    oracle = oracle or ("equivalent(m1, m2) is True but the named input tuple "
                                        f"{dict(zip(x.function_domain.coord_names, px[0].tolist()))} maps to "
                                        "different named outputs")
            except Exception as e:
                oracle = oracle or f"equivalent(m1, m2) is True but the maps cannot be compared by name: {e!r}"
        if e2 == "true":
            # maps reported similar carry the same coordinate names in the same order and agree at every point
            try:
                px = _pts_np(pts, _pk_for(x), x.ndims[0])
                if list(x.function_domain.coord_names) != list(y.function_domain.coord_names) or \
                   list(x.function_range.coord_names) != list(y.function_range.coord_names):
                    oracle = oracle or "similar_to is True for maps whose coordinate names differ"
                else:
                    vx, vy = _call_f(x, px), _call_f(y, px)
                    scale = max(1.0, float(np.max(np.abs(vx))) if vx.size else 1.0)
                    if not np.allclose(vx, vy, rtol=1e-4, atol=1e-4 * scale):
                        oracle = oracle or f"similar_to is True but the maps differ at {px[0].tolist()}"
            except Exception as e:
                oracle = oracle or f"similar_to is True but the maps cannot be compared: {e!r}"
        if e3 == "false" and exact and mode in ("same", "reordered"):
            oracle = oracle or ("equivalent(m1, m2) is False for a map and its exact reordering "
                                f"(domain order {pi}, range order {po})")
    # general maps: equality is identity of the functions
    with warnings.catch_warnings():
        warnings.simplefilter("ignore")
        try:
            G = cm._as_coordinate_map(ra) if kind == "float" else None
        except Exception:
            G = None
        try:
            if G is None:
                raise StopIteration
            if not cm.equivalent(G, G) or not (G == G) or not G.similar_to(G) or (G != G):
                oracle = oracle or "a general CoordinateMap is not equivalent / equal / similar to itself"
            if nin >= 2 and cm.equivalent(G, G.reordered_domain()):
                oracle = oracle or "a general CoordinateMap is reported equivalent to its reordering (functions differ)"
        except StopIteration:
            pass
        except Exception as e:
            oracle = oracle or f"equivalent on a general CoordinateMap raised {type(e).__name__}: {e}"
    return {"lines": lines, "impl": impl, "oracle": oracle, "nontrivial": True,
            "tags": sorted({"eq", "eq:" + mode, "kind=" + kind}), "mutated": None}


def _run_axis(case):
    import nipy.core.reference.coordinate_map as cm
    rng = random.Random(case["seed"])
    nin, nout = rng.randint(1, 5), rng.randint(1, 5)
    A = X.structured_map(rng, nin, nout, share=rng.random() < 0.5)
    fix0 = rng.random() < 0.6
    real = _real_map(A)
    try:
        orn = _ornts(real.affine, fix0)
    except Exception:
        return {"lines": [], "impl": [], "oracle": None, "nontrivial": False, "tags": ["axis-skipped"],
                "mutated": None}
    dn, rn = A["dom"]["names"], A["rng"]["names"]
    ids = list(dn) + [n for n in rn if n not in dn] + list(range(-nin - 1, nin + 2)) + ["nosuch"]
    ontxt = f"{len(orn)}" + "".join(" x" if o is None else f" {o}" for o in orn)

    def fo(v):
        return "x" if v is None else str(v)
    lines, impl, oracle = [], [], None
    snap = Snapshot(aff=real.affine)
    with warnings.catch_warnings():
        warnings.simplefilter("ignore")
        i2o = cm.axmap(real, "in2out", fix0)
        o2i = cm.axmap(real, "out2in", fix0)
        both = cm.axmap(real, "both", fix0)
        if both != (i2o, o2i):
            oracle = "axmap(..., 'both') is not the pair of the two single-direction maps"
        if set(i2o) != set(range(nin)) | set(dn) or set(o2i) != set(range(nout)) | set(rn) or \
           any(i2o[i] != i2o[n] for i, n in enumerate(dn)) or any(o2i[i] != o2i[n] for i, n in enumerate(rn)):
            oracle = "axmap: index keys and name keys disagree"
        t1 = " ".join(fo(i2o[i]) for i in range(nin))
        t2 = " ".join(fo(o2i[i]) for i in range(nout))
        # where every column and every row of the linear part has at most one non-zero entry, "the output axis
        # that best matches an input axis" is not a matter of numerics: it is the row of that entry
        lin = [[Fraction(v) for v in row[:-1]] for row in A["mat"][:-1]]
        colnz = [[i for i in range(nout) if lin[i][j] != 0] for j in range(nin)]
        rownz = [[j for j in range(nin) if lin[i][j] != 0] for i in range(nout)]
        mono = all(len(c) <= 1 for c in colnz) and all(len(r) <= 1 for r in rownz) and not fix0
        if mono and oracle is None:
            w_i2o = [c[0] if c else None for c in colnz]
            w_o2i = [r[0] if r else None for r in rownz]
            if [i2o[i] for i in range(nin)] != w_i2o or [o2i[i] for i in range(nout)] != w_o2i:
                oracle = (f"axmap on a map whose axes correspond one to one: in2out={[i2o[i] for i in range(nin)]} "
                          f"out2in={[o2i[i] for i in range(nout)]}, but input axis j feeds output axes {w_i2o} "
                          f"and output axis i is fed by {w_o2i}")
        for ax in ids:
            try:
                v = str(int(cm.input_axis_index(real, ax, fix0)))
            except Exception as e:
                v = errname(e)
            if oracle is None and isinstance(ax, int) and -nin <= ax < nin and v != str(ax % nin):
                oracle = f"input_axis_index({ax}) on {nin} input axes is {v}, not axis {ax % nin}"
            if oracle is None and mono and isinstance(ax, str) and ax in dn and ax not in rn and v != str(dn.index(ax)):
                oracle = f"input_axis_index({ax!r}) is {v}, but {ax!r} is input axis {dn.index(ax)}"
            if oracle is None and mono and isinstance(ax, str) and ax in rn and ax not in dn and \
               rownz[rn.index(ax)] and v != str(rownz[rn.index(ax)][0]):
                oracle = (f"input_axis_index({ax!r}) is {v}, but output axis {ax!r} is fed by input axis "
                          f"{rownz[rn.index(ax)][0]} alone")
            try:
                a, b = cm.io_axis_indices(real, ax, fix0)
                w = f"{fo(a)} {fo(b)}"
            except Exception as e:
                w = errname(e)
            key = f"i {ax}" if isinstance(ax, int) else f"n {_enc(ax)}"
            lines.append(f"axis {_raw_line(A)} {ontxt} {key}")
            impl.append({"status": "txt", "txt": f"in2out {t1} | out2in {t2} | iai {v} | ioi {w}"})
        for d in ("both", "in2out", "sideways", ""):
            try:
                cm.axmap(real, d, fix0)
                v = "ok"
            except Exception as e:
                v = errname(e)
            lines.append(f"axmapdir {d if d else 'empty'}")
            impl.append({"status": "txt", "txt": v})
    return {"lines": lines, "impl": impl, "oracle": oracle, "nontrivial": True,
            "tags": sorted({"axis", "axis:fix0" if fix0 else "axis:nofix0"}), "mutated": snap.changed()}


# ----------------------------------------------------------------------
class C01(PropertyCheck):
    id = "C01"
    title = "Coordinate-map algebra agrees with function semantics"
    lean_modules = ["NipyVerif.Props.C01", "NipyVerif.Props.C01B", "NipyVerif.Props.C01C", "NipyVerif.Props.C01D",
                    "NipyVerif.Props.C01Source", "NipyVerif.Props.C01E", "NipyVerif.Props.C01W"]
    driver = "Drivers/C01.lean"
    rule = ("chain: a program = an initial AffineTransform (float64 / int64 / object dtype with Fractions or sympy "
            "symbols, domain and range dimension 1..5, ~6% malformed constructor arguments; 20% built through "
            "from_params (matrix or (A, b) tuple), from_start_step, identity or CoordMapMaker.make_affine/__call__ "
            "with 15% malformed arguments), optionally wrapped as a general CoordinateMap (affine, polynomial shear "
            "with inverse, squaring without inverse; 20% made by CoordMapMaker.make_cmap), then 1..8 operations "
            "drawn from compose (2-, 3- and n-ary with up to 3 partners per side, 15% with a coordinate system "
            "differing in name, one coordinate, order, dtype or dimension), product (binary and n-ary with "
            "input_name/output_name), reordered_domain/range (uniform random permutations, by index or by name, "
            "default reversal, identity, malformed orders), renamed_domain/range (name and positive/negative index "
            "keys, swaps, cycles, chains, clashes), inverse, shifted_domain/range_origin (also on general maps), "
            "append_io_dim, drop_io_dim (by input name, output name, positive/negative index, unknown), and 1..5 "
            "points; sympy programs are compared at two substitution points. perm: every permutation of up to 4 "
            "(thorough: 5) axes on each side, affine and general. wdt: short programs whose matrix / domain / range "
            "dtypes are drawn independently from bool, int8..64, uint8..64, float16..64, complex64/128, object, with "
            "partners and points of yet other dtypes. eq: a map against its exact / perturbed / renamed / retyped "
            "reordering for ==, similar_to, equivalent (both argument orders). axis: structured matrices (scaled "
            "partial permutations, shared names, zero rows/columns) with every axis identifier for axmap, "
            "input_axis_index, io_axis_indices. cs: CoordinateSystem construction / index / equality / similar_to / "
            "product / CoordSysMaker / API predicates / safe_dtype (whole table) / can_cast / shapes of point "
            "batches (scalar, 1-D, 2-D, 3-D, empty, wrong width, transposed). fix0: direct _fix0 probes. "
            "w4 (wave 4): orth_axes probed directly on matrices with entries on both sides of the tolerance "
            "(2^-17 < 1e-5 < 2^-16, 2^-14 < 1e-4 < 2^-13, 1e-8), both allow_zero values, C / Fortran / "
            "negative-stride / float32 / list presentations; reference/spaces.py: XYZSpace names / == / in, "
            "known_space on objects lying in several listed spaces (CoordinateSystem, AffineTransform, general "
            "CoordinateMap), get_world_cs for every kind of world id (system of right / wrong dimension, known / "
            "unknown name, XYZSpace, CoordSysMaker, other) with ndim 0..8, extras as tuple or string, own space "
            "lists; xyz_order with own name2xyz dicts or the module default (tied letters avoided: argsort order "
            "of ties is unspecified); xyz_affine / is_xyz_affable on 2..5-D float / int64 maps (x, y, z shuffled "
            "or missing, spatial axes fed by late inputs, shears, leaks of dropped axes of size 2^-27..1) and on "
            "general maps. Non-trivial = at least one operation or a class constructor; distinct by full JSON of the case")
    assumptions = [
        "matrix inverse (numpy.linalg.inv / sympy Matrix.inv) is a parameter certified in the model: a candidate is "
        "accepted only if both products with the matrix are the identity; the implementation's floats are compared "
        "with the exact rational inverse to 1e-8 relative (float16: 4e-3, float32/complex64: 2e-6)",
        "np.allclose in the bottom-row test of AffineTransform.__init__ and in ==/similar_to is modelled exactly with "
        "rtol=1e-5, atol=1e-8; generated values stay away from the edge of that window; the function-level theorems "
        "(composition, programs) assume the exact bottom row [0,..,0,1] (hypothesis `bottomExact`, reported per "
        "generated program by the driver as `hyp`)",
        "nibabel.io_orientation is a parameter of drop_io_dim / axmap / input_axis_index / io_axis_indices (its result "
        "on the _fix0'd matrix is passed to the model); the drop theorems hold for every value of that parameter",
        "the tolerance of orth_axes is regenerated from the source (TINY as exact binary64 value); the model uses "
        "1/100000: `orth_tol_as_modelled` proves the two agree off the gap (1/100000, TINY] of width < 2^-69, "
        "which holds no binary64 value other than TINY itself (not generated); drop_keeps_rest assumes that no entry of the matrix lies in (0, 1e-5] "
        "(`noTiny`; generated entries are 0 or >= 2^-20 only in the axis kind, >= 1/4 in programs)",
        "IEEE rounding in np.dot / npl.inv (inputs are small dyadic rationals, so products are exact; inverses are "
        "compared with tolerance); exactly singular float matrices whose singularity LAPACK does not see are not generated",
        "fixed-width integer arithmetic is modelled in Z: values of narrow integer maps are compared only while the "
        "exact value fits the type (generated values are small and non-negative there)",
        "sympy symbols are compared after substituting two rational points (all operations are rational functions "
        "of the entries); a point at which the model meets a singular matrix is dropped",
        "numpy's promotion and can_cast tables are modelled by a size/kind rule and checked exhaustively (15 x 15) "
        "against numpy in every run; complex entries inside an object matrix (refused by float()) are not generated",
        "general CoordinateMap equality is identity of Python function objects: == / similar_to / equivalent on "
        "general maps are oracle-only (a map equals itself; it is not equivalent to its non-trivial reordering)",
        "nibabel.io_orientation is a parameter of xyz_affine too (its first three entries must be {0, 1, 2}); "
        "np.argsort in xyz_order is modelled as a stable insertion sort (what numpy runs below 16 elements); "
        "names mapped to one letter twice are not generated",
        "numpy's own defaults (rtol=1e-5, atol=1e-8 of np.allclose) are not nipy source: the translator checks "
        "that the calls pass no tolerance keywords",
        "coordinate systems with no coordinate at all compare equal whatever their dtype (numpy composite dtype); "
        "the model's composition gate uses structural equality, the two differ only for 0-dimensional systems, "
        "which are not generated as intermediate systems",
    ]
    level_note = ("proved (Lean, all inputs): composition/chains, n-ary product, inverse, reorder/rename with named "
                  "tuples, shifts, append, function-level drop (`drop_keeps_rest`, for every io_orientation result), "
                  "append-then-drop, `prog_sound` (induction over programs of all eleven operations, affine maps) and "
                  "`cprog_sound` (programs on general CoordinateMaps, invariant `CMap.wf`), `equivalent_sound` and "
                  "(wave 4) `equivalent_complete` (every exact reordering is equivalent, dims >= 1), "
                  "`make_affine_blocks`, `call_shape_rule` + `call_batch_from_source` (a batch is evaluated row by "
                  "row), from_start_step/identity, dtype lattice, call gate, the CoordinateSystem algebra "
                  "(`cs_index_spec`, `cs_eq_equivalence`, `cs_eq_is_structural`, `cs_product_spec`, `cs_new_spec`), "
                  "spaces.py (`space_contains_iff`, `known_space_spec`, `get_world_cs_spec`, `xyz_order_spec`, "
                  "`xyz_affine_spec`, `xyz_affine_refuses`). regenerated from source (Gen/C01Source, 20 `*_from_source` "
                  "/ `*_as_modelled` theorems): np.dot order / gate / iteration order of _compose_affines, block "
                  "layout of _product_affines (loop invariant: the slice assignments build `prodMat`), shift matrices "
                  "and composition side, bottom-row and shape tests, from_params / from_start_step, _fix0, orth_axes "
                  "and TINY, append_io_dim, make_affine, __call__, CoordinateSystem ==/similar_to (composite dtype), "
                  "_checked_values gate, CoordSysMaker. hypotheses (explicit, evaluated per generated program by the "
                  "driver as `hyp`): exact bottom row [0..0 1] of the initial and partner maps; dropped column "
                  "exactly zero off the dropped row (`noTiny`); `xyz_affine_spec`'s function-level part assumes the "
                  "dropped columns exactly zero (the code accepts 1e-8). parameters: io_orientation result (SVD-based "
                  "polar factor: no exact model; theorems hold for every value), certified matrix inverse. "
                  "oracle-only, with the reason: ==/similar_to/equivalent on *general* maps (identity of Python "
                  "function objects - not a mathematical object in the model); meaning of axmap/input_axis_index on "
                  "one-to-one maps (depends on io_orientation, a parameter); is_xyz_space / is_coordsys duck typing; "
                  "the order np.argsort gives to tied axes (unspecified by numpy)")

    # ------------------------------------------------------------------
    def translators(self):
        """Gen/C01Source.lean: the matrix expressions and tests of coordinate_map.py as Lean terms
        (Props/C01Source.lean proves they are the model's definitions)"""
        from harness.core import REPO, TieBroken
        from harness.props import c01_translate
        return c01_translate.translate(REPO, TieBroken)

    def generate(self, rng, tier):
        n_chain, n_gen = (460, 160) if tier == "quick" else (9000, 2500)
        cases = []
        for _ in range(n_chain):
            vk = rng.choice(["float"] * 5 + ["int"] * 3 + ["frac"] * 2 + ["sym"])
            nops = rng.choice([1, 1, 2, 2, 3, 3, 4, 5, 6, 8])
            cases.append({"kind": "chain", "seed": rng.randrange(1 << 40), "vk": vk,
                          "nops": min(nops, 4) if vk == "sym" else nops})
        for _ in range(n_gen):
            vk = rng.choice(["float"] * 4 + ["int"] * 2)
            cases.append({"kind": "chain", "seed": rng.randrange(1 << 40), "vk": vk, "general": True,
                          "nops": rng.choice([1, 1, 2, 2, 3, 4, 5, 6])})
        # every permutation of up to 4 (5) axes, both sides, by index and by name, affine and general
        top = 4 if tier == "quick" else 5
        for n in range(1, top + 1):
            for perm in itertools.permutations(range(n)):
                for side in ("reord_d", "reord_r"):
                    byname = rng.random() < 0.5
                    cases.append({"kind": "perm", "n": n, "perm": list(perm), "side": side, "byname": byname,
                                  "seed": rng.randrange(1 << 40),
                                  "vk": rng.choice(["float", "float", "int", "frac", "sym"]),
                                  "general": (rng.random() < 0.25)})
        for _ in range(40 if tier == "quick" else 400):
            cases.append({"kind": "fix0", "seed": rng.randrange(1 << 40)})
        for _ in range(220 if tier == "quick" else 3000):
            cases.append({"kind": "wdt", "seed": rng.randrange(1 << 40), "nops": rng.choice([0, 1, 1, 2, 2, 3])})
        for _ in range(90 if tier == "quick" else 1200):
            cases.append({"kind": "eq", "seed": rng.randrange(1 << 40)})
        for _ in range(60 if tier == "quick" else 800):
            cases.append({"kind": "axis", "seed": rng.randrange(1 << 40)})
        subs = ["new", "index", "cmp", "prod", "maker", "isapi", "safe", "shape", "shape"]
        for _ in range(70 if tier == "quick" else 600):
            cases.append({"kind": "cs", "sub": rng.choice(subs), "seed": rng.randrange(1 << 40)})
        # the whole can_cast / safe_dtype table, one row per case
        for a in X.NUM_CODES:
            cases.append({"kind": "cs", "sub": "safe", "row": a, "seed": rng.randrange(1 << 40)})
        # wave 4: orth_axes around its tolerance, spaces.py (drawn last: earlier kinds keep their cases per seed)
        from harness.props import c01_w4
        cases += c01_w4.generate(rng, tier)
        return cases

    # ------------------------------------------------------------------
    def _prog_of(self, case):
        if "prog" in case:
            return case["prog"]
        if case["kind"] == "chain":
            c = dict(case)
            if c.get("general") is True:
                c["general"] = True
            return _build(c)
        if case["kind"] == "wdt":
            return _build_wdt(case)
        if case["kind"] == "perm":
            rng = random.Random(case["seed"])
            fresh = _Fresh(rng)
            n, vk = case["n"], case["vk"]
            if case.get("general") and vk not in ("float", "int"):
                vk = "float"
            m = rng.choice([1, 2, 3, 4, 5])
            nin, nout = (n, m) if case["side"] == "reord_d" else (m, n)
            init = _gen_partner(rng, fresh, nin=nin, nout=nout, dt=MDT[vk], base=vk)
            names = init["dom"]["names"] if case["side"] == "reord_d" else init["rng"]["names"]
            order = [names[i] for i in case["perm"]] if case["byname"] else list(case["perm"])
            prog = {"init": init, "expect_init": "ok",
                    "ops": [{"op": case["side"], "order": order, "expect": "ok"}],
                    "pts": _gen_pts(rng, vk), "pk": MDT[vk]}
            if case.get("general"):
                prog["general"] = {"g": rng.choice(["affine", "shear"]), "c": "1"}
            return prog
        raise KeyError(case["kind"])

    def run_case(self, case):
        warnings.filterwarnings("ignore")
        if case["kind"] == "fix0":
            return self._fix0(case)
        if case["kind"] == "eq":
            return _run_eq(case)
        if case["kind"] == "axis":
            return _run_axis(case)
        if case["kind"] == "cs":
            return X.run_cs(case)
        if case["kind"] == "w4":
            from harness.props import c01_w4
            return c01_w4.run(case)
        prog = self._prog_of(case)
        r = _execute(prog)
        if prog["init"].get("kind") == "sym" and r["impl"] and r["impl"][0].get("status") == "ok":
            # second substitution point: the implementation's symbolic result must agree with the model there too
            # (the point may be a pole or a zero of a determinant: then it says nothing and is dropped; the
            # property clauses were already evaluated at the first point)
            r2 = None
            try:
                SUBS_TXT.update(SUBS_POINTS[1])
                r2 = _execute(prog)
            except Exception:
                r2 = None
            finally:
                SUBS_TXT.update(SUBS_POINTS[0])
            if r2 is not None and r2["impl"][0].get("status") == "ok":
                for o in r2["impl"]:
                    o["second_point"] = True
                r["lines"] += r2["lines"]
                r["impl"] += r2["impl"]
                r["tags"] = sorted(set(r["tags"]) | {"sym-2pt"})
        return r

    def _fix0(self, case):
        import nipy.core.reference.coordinate_map as cm
        rng = random.Random(case["seed"])
        nout, nin = rng.randint(1, 4), rng.randint(1, 4)
        m = [[rng.choice([0, 0, 0, 1, -2, 0.5]) for _ in range(nin + 1)] for _ in range(nout)]
        if rng.random() < 0.6:
            i, j = rng.randrange(nout), rng.randrange(nin)
            m[i] = [0] * nin + [m[i][-1]]
            for row in m:
                row[j] = 0
        m.append([0] * nin + [1])
        a = np.array(m, dtype=float)
        snap = Snapshot(a=a)
        out = cm._fix0(a)
        line = f"fix0 {nout + 1} {nin + 1} " + " ".join(fr(v) for v in a.ravel())
        obs = {"status": "fix0", "aff": [[fr(v) for v in row] for row in out]}
        return {"lines": [line], "impl": [obs], "oracle": None, "nontrivial": True, "tags": ["fix0"],
                "mutated": snap.changed()}

    # ------------------------------------------------------------------
    @staticmethod
    def _cmp_vals(impl_rows, model_txt, exact, extra_atol=0.0, dt=None):
        rows = [r.split() for r in model_txt.split(" ; ")] if model_txt.strip() else []
        if len(rows) != len(impl_rows):
            return f"row count impl={len(impl_rows)} model={len(rows)}"
        flat_m = [Fraction(t) for r in rows for t in r]
        scale = max([1.0] + [abs(float(v)) for v in flat_m])
        if dt in DT_BITS:
            # fixed-width integers wrap around; the model computes in Z: compared only while every value fits
            b = DT_BITS[dt]
            lo, hi = (0, 2 ** b - 1) if dt.startswith("u") else (-2 ** (b - 1), 2 ** (b - 1) - 1)
            if any(v < lo or v > hi for v in flat_m):
                return None
        rtol = DT_RTOL.get(dt, 1e-8)
        for i, (a, b) in enumerate(zip(impl_rows, rows)):
            if len(a) != len(b):
                return f"row {i}: length impl={len(a)} model={len(b)}"
            for j, (x, y) in enumerate(zip(a, b)):
                fx, fy = Fraction(x), Fraction(y)
                if fx == fy:
                    continue
                if exact or not close(fx, fy, rtol, rtol * scale + extra_atol):
                    return f"[{i},{j}]: impl={float(fx)!r} model={float(fy)!r}"
        return None

    def compare(self, case, obs, out):
        if out.startswith("bad-op"):
            return "model could not parse the line"
        if obs["status"] == "txt":
            return None if out.strip() == obs["txt"].strip() else f"impl={obs['txt']!r} model={out.strip()!r}"
        if obs["status"] == "fix0":
            toks = out.split()
            r, c = int(toks[0]), int(toks[1])
            body = [toks[2 + i * c: 2 + (i + 1) * c] for i in range(r)]
            return self._cmp_vals(obs["aff"], " ; ".join(" ".join(b) for b in body), True)
        parts = [p.strip() for p in out.split(" | ")]
        if obs.get("second_point") and parts[0] != "ok":
            return None       # the second substitution point hits a singular matrix in the model: says nothing
        if parts[0] != obs["status"]:
            return f"status impl={obs['status']} model={parts[0]}"
        if obs["status"] != "ok":
            return None

        def cs_txt(c):
            return _cs_line(c)
        if parts[1] != cs_txt(obs["dom"]):
            return f"domain impl={cs_txt(obs['dom'])} model={parts[1]}"
        if parts[2] != cs_txt(obs["rng"]):
            return f"range impl={cs_txt(obs['rng'])} model={parts[2]}"
        k = 3
        if "aff" in obs:
            toks = parts[3].split()
            r, c = int(toks[0]), int(toks[1])
            if r != len(obs["aff"]) or c != len(obs["aff"][0]):
                return f"affine shape impl={len(obs['aff'])}x{len(obs['aff'][0])} model={r}x{c}"
            body = " ; ".join(" ".join(toks[2 + i * c: 2 + (i + 1) * c]) for i in range(r))
            d = self._cmp_vals(obs["aff"], body, _is_intk(obs["aff_dt"]), dt=obs["aff_dt"])
            if d:
                return "affine " + d
            if obs["aff_dt"] != obs["dom"]["dt"]:
                return f"affine dtype {obs['aff_dt']} differs from coordinate dtype {obs['dom']['dt']}"
            k = 4
        call = parts[k]
        if isinstance(obs["call"], str):
            if call != obs["call"]:
                return f"call impl={obs['call']} model={call}"
        else:
            if not call.startswith("vals"):
                return f"call impl=values model={call}"
            d = self._cmp_vals(obs["call"], call[4:].strip(), False, dt=obs.get("call_dt", obs["dom"]["dt"]))
            if d:
                return "call " + d
        if "hyp" in obs:
            want = f"hyp {1 if obs['hyp'] else 0}"
            got = [q for q in parts if q.startswith("hyp ")]
            if got != [want]:
                return f"side conditions of prog_sound / cprog_sound: impl says {want!r}, model says {got!r}"
        if "inv" in obs:
            inv = parts[k + 1]
            if obs["inv"] is None:
                if inv != "noinv" and obs["dom"]["dt"] != "i8" and obs["rng"]["dt"] != "i8":
                    return f"inverse function impl=None model={inv[:40]}"
            elif obs["inv"] == "skip":
                if inv == "noinv":
                    return "inverse function impl=present model=noinv"
            else:
                if not inv.startswith("inv "):
                    return f"inverse function impl=values model={inv[:40]}"
                ymax = max([0.0] + [abs(float(Fraction(v))) for row in obs["call"] for v in row]) \
                    if not isinstance(obs["call"], str) else 0.0
                d = self._cmp_vals(obs["inv"], inv[3:].strip(), False,
                                   1e-12 * ymax * ymax + 1e-13 * obs.get("inv_amp", 0.0) * (1.0 + ymax))
                if d:
                    return "inverse-call " + d
        return None

    # ------------------------------------------------------------------
    def shrink(self, case):
        if case.get("kind") in ("fix0", "eq", "axis", "cs", "w4"):
            return
        try:
            prog = self._prog_of(case)
        except Exception:
            return
        ops = prog["ops"]
        for i in range(len(ops) - 1, -1, -1):
            # the operations after a removed one were generated for another current map: they may now be
            # refused legitimately, so only the property clauses of the steps that still succeed count
            tail = [dict(o, expect="any") for o in ops[i + 1:]]
            p = dict(prog, ops=ops[:i] + tail)
            yield {"kind": "prog", "prog": p}
        if len(prog["pts"]) > 1:
            yield {"kind": "prog", "prog": dict(prog, pts=prog["pts"][:1])}
        if "prog" not in case:
            yield {"kind": "prog", "prog": prog}

    def classify(self, case, failure):
        """known-finding key for the one genuine defect found on the pinned tree (fix proposed in
        proposed_fixes/C01-product-exact-one.patch): _product_affines (and from_params with an (A, b) tuple,
        through nibabel's from_matvec) store a *float* 1.0 in the corner of an object-dtype (exact) matrix;
        inverse() of an exactly singular exact map built from it runs sympy in floating point and returns a
        garbage 'inverse' instead of raising NonInvertibleMatrixError."""
        txt = failure if isinstance(failure, str) else str(failure)
        if "inverse(map(x)) != x" not in txt:
            return None
        try:
            prog = self._prog_of(case)
        except Exception:
            return None
        init = prog.get("init", {})
        exact = init.get("kind") in ("frac", "sym", "dt:O") or "O" in (init.get("dom", {}).get("dt"),
                                                                        init.get("rng", {}).get("dt"))
        made_by_product = init.get("ctor") in ("mkaff", "fpmv") or any(
            o["op"] in ("prod_r", "prod_l", "prod_n", "append") for o in prog.get("ops", []))
        return "product-float-one-in-exact-matrix" if (exact and made_by_product) else None


CHECK = C01()
