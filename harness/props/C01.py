"""C01 — coordinate-map algebra agrees with function semantics.

A case is a *program*: an initial AffineTransform (float64 / int64 / object dtype with
Fractions or sympy symbols), optionally wrapped as a general CoordinateMap, followed by
a chain of compose / product / reorder / rename / inverse / shift-origin / append /
drop operations, and a batch of points.

Correspondence: the explicit program is sent to the Lean model (`prog` / `gprog`
lines); status (ok, `None` from inverse, error class and the step at which it was
raised), both coordinate systems, the `.affine` and the values at the points must
agree (ints exactly, floats to 1e-8 relative).

Oracle: after every successful step the clause of the property that the step is about
is evaluated on the real objects (composition = successive application, inverse undoes,
product acts blockwise, reorder / rename keep named values, shifts, append / drop keep
the other axes), a step on valid arguments must not raise, and a composition of maps
whose coordinate systems differ must raise.
"""
from __future__ import annotations

import itertools
import random
import warnings
from fractions import Fraction

import numpy as np

from harness.core import PropertyCheck
from harness.util import Snapshot, close, errname, fr

NAME_POOL = ["i", "j", "k", "l", "m", "x", "y", "z", "t", "u", "v", "w", "p", "q", "r", "s",
             "phase", "freq", "slice", "time", "ax_0", "B-2"]
CS_NAMES = ["", "", "voxels", "world", "d", "r", "in", "out", "scanner"]
MDT = {"float": "f8", "int": "i8", "frac": "O", "sym": "O"}
SUBS_TXT = {"a": "3/2", "b": "-2", "c": "1/4"}
MAXDIM = 6


# ----------------------------------------------------------------------
# values
# ----------------------------------------------------------------------
def _np_dt(code):
    return {"i8": np.int64, "f8": np.float64, "O": object}[code]


def _dt_code(dt):
    dt = np.dtype(dt)
    if dt == np.dtype(object):
        return "O"
    if dt.kind in "iu":
        return "i8" if dt == np.dtype(np.int64) else "int:" + dt.name
    if dt.kind == "f":
        return "f8" if dt == np.dtype(np.float64) else "float:" + dt.name
    return "other:" + dt.name


def _entry(s, kind):
    """JSON text -> the Python object placed in the matrix."""
    if kind == "sym":
        import sympy
        return sympy.sympify(s, rational=True)
    f = Fraction(s)
    if kind == "float":
        return float(f)
    if kind == "int":
        return int(f)
    return f if f.denominator != 1 else int(f)


def _exact(v) -> Fraction:
    """exact value of a matrix entry / coordinate (sympy symbols substituted)."""
    if isinstance(v, Fraction):
        return v
    if isinstance(v, (int, np.integer)):
        return Fraction(int(v))
    if isinstance(v, (float, np.floating)):
        return Fraction(float(v))
    import sympy
    e = sympy.sympify(v).subs({sympy.Symbol(k): sympy.Rational(t) for k, t in SUBS_TXT.items()})
    e = sympy.nsimplify(e) if e.is_Rational else e
    if e.is_Rational:
        return Fraction(int(e.p), int(e.q))
    return Fraction(float(e))


def _subs_txt(s, kind):
    """exact rational text of a JSON entry (what the model receives)."""
    return fr(_exact(_entry(s, kind)))


def _mat_np(mat, kind):
    rows = [[_entry(s, kind) for s in row] for row in mat]
    if kind == "float":
        return np.array(rows, dtype=np.float64).reshape(len(mat), len(mat[0]) if mat else 0)
    if kind == "int":
        return np.array(rows, dtype=np.int64).reshape(len(mat), len(mat[0]) if mat else 0)
    a = np.empty((len(mat), len(mat[0]) if mat else 0), dtype=object)
    for i, row in enumerate(rows):
        for j, v in enumerate(row):
            a[i, j] = v
    return a


def _enc(s):
    return "s:" + s


def _cs_line(cs):
    return f"{_enc(cs['name'])} {cs['dt']} {len(cs['names'])}" + "".join(" " + _enc(n) for n in cs["names"])


def _raw_line(m):
    r = len(m["mat"])
    c = len(m["mat"][0]) if r else 0
    ent = " ".join(_subs_txt(s, m["kind"]) for row in m["mat"] for s in row)
    return f"{_cs_line(m['dom'])} {_cs_line(m['rng'])} {MDT[m['kind']]} {r} {c} {ent}".rstrip()


def _cs_obs(cs):
    return {"names": list(cs.coord_names), "name": cs.name, "dt": _dt_code(cs.coord_dtype)}


def _pts_np(pts, pk, n):
    """first n columns of the pool, as the requested dtype"""
    if pk == "f8":
        return np.array([[float(Fraction(v)) for v in p[:n]] for p in pts], dtype=np.float64).reshape(len(pts), n)
    if pk == "i8":
        return np.array([[int(Fraction(v)) for v in p[:n]] for p in pts], dtype=np.int64).reshape(len(pts), n)
    a = np.empty((len(pts), n), dtype=object)
    for i, p in enumerate(pts):
        for j in range(n):
            a[i, j] = Fraction(p[j])
    return a


def _to_float(arr):
    return np.array([[float(_exact(v)) for v in row] for row in np.atleast_2d(arr)], dtype=float)


# ----------------------------------------------------------------------
# independent helpers (externals of the model)
# ----------------------------------------------------------------------
def _my_fix0(aff):
    aff = np.array(aff, dtype=float)
    lin = aff[:-1, :-1]
    zr = [i for i in range(lin.shape[0]) if np.all(lin[i] == 0)]
    zc = [j for j in range(lin.shape[1]) if np.all(lin[:, j] == 0)]
    if len(zr) != 1 or len(zc) != 1:
        return aff
    aff = aff.copy()
    aff[zr[0], zc[0]] = 1
    return aff


def _ornts(aff, fix0):
    from nibabel import io_orientation
    a = _my_fix0(aff) if fix0 else np.array(aff, dtype=float)
    o = io_orientation(a)
    return [None if np.isnan(r) else int(r) for r in o[:, 0]]


def _exact_rank_info(aff):
    """(is square, exactly singular?) with Fractions"""
    m = [[_exact(v) for v in row] for row in np.asarray(aff)]
    n = len(m)
    if any(len(r) != n for r in m):
        return False, True
    for c in range(n):
        p = next((r for r in range(c, n) if m[r][c] != 0), None)
        if p is None:
            return True, True
        m[c], m[p] = m[p], m[c]
        for r in range(c + 1, n):
            f = m[r][c] / m[c][c]
            if f:
                m[r] = [x - f * y for x, y in zip(m[r], m[c])]
    return True, False


def _has_inverse(m):
    """exactly invertible AffineTransform with numeric entries of moderate dynamic range, or a general
    CoordinateMap carrying an inverse function"""
    from nipy.core.reference.coordinate_map import AffineTransform
    # floating-point coordinates only: whether an integer-typed map keeps an (integer) inverse is decided by
    # `inverse(preserve_dtype=True)`, i.e. by whether the exact inverse happens to be integral
    if m.function_domain.coord_dtype.kind != "f" or m.function_range.coord_dtype.kind != "f":
        return False
    if isinstance(m, AffineTransform):
        a = np.asarray(m.affine)
        if a.dtype == object or a.dtype.kind != "f":
            return False
        sq, sing = _exact_rank_info(a)
        if not sq or sing:
            return False
        try:
            return bool(np.linalg.cond(a.astype(float)) < 1e9)
        except Exception:
            return False
    return getattr(m, "inverse_function", None) is not None


def _offers_inverse(m):
    from nipy.core.reference.coordinate_map import AffineTransform
    if isinstance(m, AffineTransform):
        a = np.asarray(m.affine)
        if a.dtype == object or a.dtype.kind not in "fiu":
            return True          # symbolic / exotic dtypes: not judged here
        try:
            return m.inverse() is not None
        except Exception:
            return False
    return getattr(m, "inverse_function", None) is not None


# ----------------------------------------------------------------------
# real-code side
# ----------------------------------------------------------------------
def _real_cs(cs):
    from nipy.core.reference.coordinate_system import CoordinateSystem
    return CoordinateSystem(list(cs["names"]), cs["name"], _np_dt(cs["dt"]))


def _real_map(m):
    from nipy.core.reference.coordinate_map import AffineTransform
    return AffineTransform(_real_cs(m["dom"]), _real_cs(m["rng"]), _mat_np(m["mat"], m["kind"]))


def _shear(c, x):
    y = np.array(x, copy=True)
    if y.shape[1] > 1:
        y[:, 1:] = y[:, 1:] + c * y[:, :1] * y[:, :1]
    return y


def _real_general(A, g):
    import nipy.core.reference.coordinate_map as cm
    M = cm._as_coordinate_map(A)
    if g["g"] == "affine":
        return M
    f0, i0 = M.function, M.inverse_function
    if g["g"] == "shear":
        c = _entry(g["c"], "int" if _dt_code(A.function_domain.coord_dtype) == "i8" else "float")
        fwd = lambda x: _shear(c, f0(x))
        inv = (lambda y: i0(_shear(-c, y))) if i0 is not None else None
        return cm.CoordinateMap(A.function_domain, A.function_range, fwd, inv)
    return cm.CoordinateMap(A.function_domain, A.function_range, lambda x: f0(x) * f0(x), None)


def _order_arg(o):
    if o is None:
        return None
    return list(o)


def _apply_op(cur, op, general):
    """run one op on the real object; returns (result, mutated-arg-or-None)"""
    import nipy.core.reference.coordinate_map as cm
    k = op["op"]
    with warnings.catch_warnings():
        warnings.simplefilter("ignore")
        if k in ("compose_r", "compose_l"):
            B = _real_map(op["map"])
            return (cm.compose(cur, B) if k == "compose_r" else cm.compose(B, cur)), None
        if k == "compose3":
            L, R = _real_map(op["left"]), _real_map(op["right"])
            return cm.compose(L, cur, R), None
        if k in ("prod_r", "prod_l"):
            B = _real_map(op["map"])
            args = (cur, B) if k == "prod_r" else (B, cur)
            return cm.product(*args, input_name=op["in"], output_name=op["out"]), None
        if k == "reord_d":
            return cur.reordered_domain(_order_arg(op["order"])), None
        if k == "reord_r":
            return cur.reordered_range(_order_arg(op["order"])), None
        if k in ("ren_d", "ren_r"):
            d = {kk: v for kk, v in op["kv"]}
            snap = Snapshot(newnames=d)
            try:
                res = cur.renamed_domain(d) if k == "ren_d" else cur.renamed_range(d)
            finally:
                mut = snap.changed()
            return res, mut
        if k == "inv":
            return cur.inverse(), None
        if k in ("shift_d", "shift_r"):
            kindv = op.get("vk", "float")
            vec = [_entry(s, kindv) for s in op["vec"]]
            f = cm.shifted_domain_origin if k == "shift_d" else cm.shifted_range_origin
            return f(cur, vec, op["name"]), None
        if k == "append":
            kindv = op.get("vk", "float")
            return cm.append_io_dim(cur, op["in"], op["out"], _entry(op["start"], kindv),
                                    _entry(op["step"], kindv)), None
        if k == "drop":
            return cm.drop_io_dim(cur, op["axis"], op["fix0"]), None
    raise KeyError(k)


def _op_line(op, pre):
    """model tokens of one op (pre = real object before the op, for the externals)"""
    k = op["op"]
    if k in ("compose_r", "compose_l"):
        return f"{k} {_raw_line(op['map'])}"
    if k == "compose3":
        return f"compose3 {_raw_line(op['left'])} {_raw_line(op['right'])}"
    if k in ("prod_r", "prod_l"):
        return f"{k} {_raw_line(op['map'])} {_enc(op['in'])} {_enc(op['out'])}"
    if k in ("reord_d", "reord_r"):
        o = op["order"]
        if o is None:
            return f"{k} rev"
        if len(o) and isinstance(o[0], str):
            return f"{k} names {len(o)}" + "".join(" " + _enc(s) for s in o)
        return f"{k} ints {len(o)}" + "".join(f" {int(i)}" for i in o)
    if k in ("ren_d", "ren_r"):
        s = f"{k} {len(op['kv'])}"
        for kk, v in op["kv"]:
            s += (f" i {kk}" if isinstance(kk, int) else f" n {_enc(kk)}") + " " + _enc(v)
        return s
    if k == "inv":
        return "inv"
    if k in ("shift_d", "shift_r"):
        vk = op.get("vk", "float")
        return f"{k} {len(op['vec'])}" + "".join(" " + _subs_txt(s, vk) for s in op["vec"]) + " " + _enc(op["name"])
    if k == "append":
        vk = op.get("vk", "float")
        return f"append {_enc(op['in'])} {_enc(op['out'])} {_subs_txt(op['start'], vk)} {_subs_txt(op['step'], vk)}"
    if k == "drop":
        orn = _ornts(pre.affine, op["fix0"])
        ax = op["axis"]
        key = f"i {ax}" if isinstance(ax, int) else f"n {_enc(ax)}"
        return f"drop {key} {1 if op['fix0'] else 0} {len(orn)}" + "".join(" x" if o is None else f" {o}" for o in orn)
    raise KeyError(k)


# ----------------------------------------------------------------------
# oracle clauses on the real objects
# ----------------------------------------------------------------------
def _pk_for(m):
    return _dt_code(m.function_domain.coord_dtype)


def _ev(m, pts, n=None, pk=None):
    """evaluate a real map on the pool (first ndim columns), floats out"""
    n = m.ndims[0] if n is None else n
    x = _pts_np(pts, pk or _pk_for(m), n)
    return x, _to_float(m(x))


def _same(a, b):
    a = np.asarray(a, dtype=float)
    b = np.asarray(b, dtype=float)
    if a.shape != b.shape:
        return False
    scale = max(1.0, float(np.max(np.abs(b))) if b.size else 1.0)
    return bool(np.allclose(a, b, rtol=1e-7, atol=1e-7 * scale))


def _call_f(m, x):
    return _to_float(m(x))


def _clause(pre, op, post, pts, general):
    """None or a description of a violated clause of the property for this step."""
    import nipy.core.reference.coordinate_map as cm
    k = op["op"]
    pk = _pk_for(post) if post is not None else None
    with warnings.catch_warnings():
        warnings.simplefilter("ignore")
        if k in ("compose_r", "compose_l", "compose3"):
            if k == "compose_r":
                seq = [_real_map(op["map"]), pre]
            elif k == "compose_l":
                seq = [pre, _real_map(op["map"])]
            else:
                seq = [_real_map(op["right"]), pre, _real_map(op["left"])]
            x = _pts_np(pts, pk, post.ndims[0])
            y = x
            for m in seq:
                y = m(y)
            if not _same(_call_f(post, x), _to_float(y)):
                return f"{k}: the composed map evaluated at {x[0].tolist()} differs from applying the maps in turn"
            if post.function_domain != seq[0].function_domain or post.function_range != seq[-1].function_range:
                return f"{k}: composed map does not go from the first domain to the last range"
            # a composition of invertible maps is invertible: the result must still offer its inverse
            if all(_has_inverse(m) for m in seq) and not _offers_inverse(post):
                return (f"{k}: every composed map is invertible (exactly non-singular square affines / maps with an "
                        f"inverse function) but the composition offers no inverse")
            return None
        if k in ("prod_r", "prod_l"):
            B = _real_map(op["map"])
            first, second = (pre, B) if k == "prod_r" else (B, pre)
            n1, n2 = first.ndims[0], second.ndims[0]
            x = _pts_np(pts, "i8" if "i8" in (_pk_for(first), _pk_for(second)) else pk, n1 + n2)
            want = np.hstack([_to_float(first(x[:, :n1].astype(_np_dt(_pk_for(first)), copy=False)
                                              if _pk_for(first) != "O" else x[:, :n1])),
                              _to_float(second(x[:, n1:].astype(_np_dt(_pk_for(second)), copy=False)
                                               if _pk_for(second) != "O" else x[:, n1:]))])
            if not _same(_call_f(post, x), want):
                return f"{k}: the product map does not act independently on the two coordinate blocks at {x[0].tolist()}"
            if list(post.function_domain.coord_names) != list(first.function_domain.coord_names) + list(second.function_domain.coord_names):
                return f"{k}: product domain names are not the concatenation"
            return None
        if k in ("reord_d", "reord_r", "ren_d", "ren_r"):
            dom_side = k.endswith("_d")
            old = list((pre.function_domain if dom_side else pre.function_range).coord_names)
            new = list((post.function_domain if dom_side else post.function_range).coord_names)
            other_old = (pre.function_range if dom_side else pre.function_domain)
            other_new = (post.function_range if dom_side else post.function_domain)
            if list(other_old.coord_names) != list(other_new.coord_names):
                return f"{k}: the other side's coordinates changed"
            if k.startswith("reord"):
                o = op["order"]
                want_names = (old[::-1] if o is None else
                              [s if isinstance(s, str) else old[s] for s in o])
                if new != want_names:
                    return f"{k}: coordinate names {new} are not the requested order {want_names}"
                ren = {n: n for n in old}
            else:
                ren = {n: n for n in old}
                for kk, v in op["kv"]:
                    if isinstance(kk, str):
                        ren[kk] = v
                for kk, v in op["kv"]:
                    if isinstance(kk, int):
                        ren[old[kk]] = v
                if new != [ren[n] for n in old]:
                    return f"{k}: coordinate names {new} are not the requested relabelling of {old}"
            # named tuples: name -> value
            xq = _pts_np(pts, pk, post.ndims[0])
            yq = _call_f(post, xq)
            if dom_side:
                # the same named input tuple presented to the old map
                col = {ren[n]: j for j, n in enumerate(old)}   # new-name -> old position
                xp = np.empty_like(xq)
                for jn, nn in enumerate(new):
                    xp[:, col[nn]] = xq[:, jn]
                yp = _call_f(pre, xp)
                if not _same(yq, yp):
                    return (f"{k}: the named input tuple {dict(zip(new, xq[0].tolist()))} no longer maps to the same "
                            f"output values")
            else:
                yp = _call_f(pre, xq)
                col = {ren[n]: j for j, n in enumerate(old)}
                back = np.empty_like(yq)
                for jn, nn in enumerate(new):
                    back[:, col[nn]] = yq[:, jn]
                if not _same(back, yp):
                    return f"{k}: the named output values changed for input {xq[0].tolist()}"
            return None
        if k == "inv":
            x = _pts_np(pts, _pk_for(pre), pre.ndims[0])
            y = pre(x)
            back = _call_f(post, y)
            # rounding: a general map squares its (possibly large) intermediate values before the inverse
            # subtracts them again; the cancellation error grows with the square of the image
            ymax = float(np.max(np.abs(_to_float(y)))) if general else 0.0
            if not _same(back, _to_float(x)) and \
               not np.allclose(back, _to_float(x), rtol=1e-7, atol=1e-7 + 1e-12 * ymax * ymax):
                return f"inverse: inverse(map(x)) != x at x={x[0].tolist()}"
            if not general:
                yy = _pts_np(pts, _pk_for(post), post.ndims[0])
                fwd = _to_float(pre(post(yy))) if _pk_for(pre) != "i8" else None
                if fwd is not None and not _same(fwd, _to_float(yy)):
                    return f"inverse: map(inverse(y)) != y at y={yy[0].tolist()}"
            if post.function_domain.coord_names != pre.function_range.coord_names or \
               post.function_range.coord_names != pre.function_domain.coord_names:
                return "inverse: domain and range are not exchanged"
            return None
        if k in ("shift_d", "shift_r"):
            vec = np.array([float(_exact(_entry(s, op.get("vk", "float")))) for s in op["vec"]])
            x = _pts_np(pts, pk, post.ndims[0])
            n = pre.ndims[0] if k == "shift_d" else pre.ndims[1]
            if len(vec) != n:
                return None    # numpy broadcasting of a short vector: not a clause of the property
            if _pk_for(pre) == "i8":
                vec = np.trunc(vec)
            if k == "shift_d":
                xs = _to_float(x) + vec
                A = _to_float(pre.affine)
                want = xs @ A[:-1, :-1].T + A[:-1, -1]
            else:
                want = _call_f(pre, x) - vec
            if not _same(_call_f(post, x), want):
                return f"{k}: shifted map is not the map of the shifted coordinates at {x[0].tolist()}"
            return None
        if k == "append":
            x = _pts_np(pts, "i8" if _pk_for(pre) == "i8" else pk, post.ndims[0])
            y = _call_f(post, x)
            yo = _call_f(pre, x[:, :-1])
            vk = op.get("vk", "float")
            st, sp = float(_exact(_entry(op["start"], vk))), float(_exact(_entry(op["step"], vk)))
            if not _same(y[:, :-1], yo) or not _same(y[:, -1], st + sp * _to_float(x)[:, -1]):
                return f"append_io_dim: appended axis disturbs the other axes at {x[0].tolist()}"
            return None
        if k == "drop":
            oi, oo = list(pre.function_domain.coord_names), list(pre.function_range.coord_names)
            ni, no = list(post.function_domain.coord_names), list(post.function_range.coord_names)
            di = [j for j, n in enumerate(oi) if n not in ni]
            do = [j for j, n in enumerate(oo) if n not in no]
            if len(di) > 1 or len(do) > 1 or [n for n in oi if n in ni] != ni or [n for n in oo if n in no] != no:
                return "drop_io_dim: more than one axis per side dropped or remaining names reordered"
            if len(di) == 1 and len(do) == 1:
                x = _to_float(_pts_np(pts, "f8", post.ndims[0]))
                y = _call_f(post, x)
                A = _to_float(pre.affine)
                for filler in (0.0, 7.0):
                    xp = np.insert(x, di[0], filler, axis=1)
                    yp = xp @ A[:-1, :-1].T + A[:-1, -1]
                    yp = np.delete(yp, do[0], axis=1)
                    if not _same(y, yp):
                        return (f"drop_io_dim: after dropping '{oi[di[0]]}'/'{oo[do[0]]}' the remaining axes map "
                                f"differently at {x[0].tolist()}")
            return None
    return None


# ----------------------------------------------------------------------
# executing a program
# ----------------------------------------------------------------------
def _execute(prog):
    general = prog.get("general")
    pts = prog["pts"]
    tags = ["general" if general else "affine", "kind=" + prog["init"]["kind"]]
    head = ("gprog " if general else "prog ") + _raw_line(prog["init"])
    if general:
        head += " " + (f"shear {_subs_txt(general['c'], 'float')}" if general["g"] == "shear" else general["g"])
    oplines, oracle, mutated = [], None, None
    status, cur = "ok", None
    try:
        cur = _real_map(prog["init"])
        if general:
            cur = _real_general(cur, general)
    except Exception as e:
        status = errname(e) + "@init"
        if prog.get("expect_init", "any") == "ok":
            oracle = f"constructing a valid AffineTransform raised {type(e).__name__}: {e}"
    if cur is not None:
        for k, op in enumerate(prog["ops"]):
            tags.append(op["op"] + ("" if op.get("expect", "any") != "refuse" else ":mismatch"))
            try:
                oplines.append(_op_line(op, cur))
            except Exception as e:       # externals of the model cannot be computed (e.g. svd of objects)
                tags.append("skipped-op")
                break
            try:
                post, mut = _apply_op(cur, op, general)
                mutated = mutated or mut
            except Exception as e:
                status = f"{errname(e)}@{k}"
                if op.get("expect", "any") == "ok":
                    oracle = (f"step {k} ({op['op']}) raised {type(e).__name__}: {str(e)[:120]} on arguments the "
                              f"property covers")
                tags.append("refused")
                break
            if op.get("expect") == "refuse" and post is not None:
                oracle = (f"step {k} ({op['op']}): maps whose coordinate systems do not match "
                          f"({op.get('why', '')}) were combined instead of refused")
                break
            if post is None:
                status = f"none@{k}"
                if op.get("expect", "any") == "ok":
                    oracle = f"step {k}: inverse() returned None for an exactly invertible, well conditioned matrix"
                tags.append("no-inverse")
                break
            try:
                fail = _clause(cur, op, post, pts, general)
            except Exception as e:
                fail = (f"step {k} ({op['op']}): evaluating the resulting map raised {type(e).__name__}: "
                        f"{str(e)[:120]}")
            if fail and oracle is None:
                oracle = f"step {k}: {fail}"
            cur = post
    # final observation
    obs = {"status": status}
    pk = prog["pk"]
    line_pts = None
    if status == "ok":
        n = cur.ndims[0] + prog.get("ptdim_off", 0)
        n = max(n, 0)
        x = _pts_np(pts, pk, min(n, len(pts[0]))) if pts else np.zeros((0, n))
        n = x.shape[1]
        obs["dom"] = _cs_obs(cur.function_domain)
        obs["rng"] = _cs_obs(cur.function_range)
        if not general:
            obs["aff"] = [[fr(_exact(v)) for v in row] for row in cur.affine]
            obs["aff_dt"] = _dt_code(cur.affine.dtype)
        try:
            y = cur(x)
            obs["call"] = [[fr(_exact(v)) for v in row] for row in np.atleast_2d(y)]
            if general:
                if cur.inverse_function is None:
                    obs["inv"] = None
                else:
                    with warnings.catch_warnings():
                        warnings.simplefilter("ignore")
                        back = cur.inverse()(y)
                    obs["inv"] = [[fr(_exact(v)) for v in row] for row in np.atleast_2d(back)]
        except Exception as e:
            obs["call"] = errname(e)
            if general:
                obs["inv"] = "skip" if cur.inverse_function is not None else None
        line_pts = f"{pk} {len(pts)} {n} " + " ".join(fr(_exact(v)) for v in x.ravel())
        bot = prog["init"]["mat"][-1]
        if general and not (all(str(v) == "0" for v in bot[:-1]) and str(bot[-1]) == "1"):
            # bottom row merely close to [0,..,0,1] (accepted by the constructor's allclose): such a matrix is not an
            # affine map in the property's sense; only acceptance and evaluation are compared, not the inverse
            obs.pop("inv", None)
    else:
        line_pts = f"{pk} 0 0"
    line = f"{head} {len(oplines)} {' '.join(oplines)} {line_pts}".replace("  ", " ").rstrip()
    return {"lines": [line], "impl": [obs], "oracle": oracle,
            "nontrivial": len(prog["ops"]) >= 1 and len(prog["init"]["mat"]) >= 2,
            "tags": sorted(set(tags)), "mutated": mutated}


# ----------------------------------------------------------------------
# program builder (all randomness from random.Random(seed))
# ----------------------------------------------------------------------
class _Fresh:
    def __init__(self, rng):
        self.rng = rng
        self.k = 0

    def names(self, n, avoid=()):
        out = []
        while len(out) < n:
            if self.rng.random() < 0.7:
                c = self.rng.choice(NAME_POOL)
            else:
                self.k += 1
                c = f"n{self.k}"
            if c not in avoid and c not in out:
                out.append(c)
        return out


def _val(rng, kind, small=False):
    if kind == "int":
        return str(rng.choice([-3, -2, -1, 0, 0, 1, 1, 2, 3] if not small else [-1, 0, 1, 2]))
    if kind == "float":
        return rng.choice(["-3", "-2", "-1", "0", "0", "1", "1", "2", "3", "1/2", "-1/2", "3/2", "1/4", "5/2"])
    if kind == "frac":
        return rng.choice(["-2", "-1", "0", "0", "1", "2", "1/3", "-2/3", "1/2", "3/5", "5/7"])
    return rng.choice(["0", "1", "-1", "2", "a", "b", "c", "a+1", "2*b", "a*c", "1/2", "b-c"])


def _rand_mat(rng, kind, nout, nin, invertible=False):
    """(nout+1, nin+1) homogeneous matrix as JSON text"""
    if invertible and nin == nout and kind in ("float", "int", "frac"):
        n = nin
        # P * L * D * U with unit triangular small-integer factors: exactly invertible, well conditioned
        L = [[Fraction(1) if i == j else (Fraction(rng.choice([-1, 0, 0, 1, 2])) if j < i else Fraction(0))
              for j in range(n)] for i in range(n)]
        U = [[Fraction(1) if i == j else (Fraction(rng.choice([-2, -1, 0, 0, 1])) if j > i else Fraction(0))
              for j in range(n)] for i in range(n)]
        dch = [1, -1, 1, -1] if kind == "int" else [1, -1, 2, Fraction(1, 2), -2, 4]
        if kind == "float" and rng.random() < 0.25:
            # small (or large) scale factors: sub-millimetre voxels in metres, ...; the determinant is tiny (huge)
            # although the matrix is as well conditioned as before up to the ratio of the scales
            dch = [Fraction(1, 64), Fraction(-1, 128), Fraction(1, 32), Fraction(1, 1024)] if rng.random() < 0.7 \
                else [64, -128, 1024]
        if kind == "frac":
            dch = [1, -1, Fraction(1, 3), 3, Fraction(2, 3)]
        D = [Fraction(rng.choice(dch)) for _ in range(n)]
        perm = list(range(n))
        rng.shuffle(perm)
        M = [[sum(L[i][k] * D[k] * U[k][j] for k in range(n)) for j in range(n)] for i in range(n)]
        M = [M[perm[i]] for i in range(n)]
        rows = [[fr(v) for v in M[i]] + [_val(rng, kind)] for i in range(n)]
    else:
        rows = [[_val(rng, kind) for _ in range(nin + 1)] for _ in range(nout)]
        r = rng.random()
        if r < 0.08 and nout >= 1:      # an all-zero row / column (exactly singular, _fix0 food)
            i = rng.randrange(nout)
            rows[i] = ["0"] * nin + [rows[i][-1]]
            if nin >= 1 and rng.random() < 0.7:
                j = rng.randrange(nin)
                for row in rows:
                    row[j] = "0"
        elif r < 0.13 and nout >= 2:    # duplicated row
            i, j = rng.sample(range(nout), 2)
            rows[j] = list(rows[i])
    rows.append(["0"] * nin + ["1"])
    return rows


def _cs_json(names, name, dt):
    return {"names": list(names), "name": name, "dt": dt}


def _cs_of(real_cs):
    return _cs_json(real_cs.coord_names, real_cs.name, _dt_code(real_cs.coord_dtype))


def _kind_for(dt, rng, base):
    if dt == "i8":
        return "int"
    if dt == "f8":
        return "float"
    return base if base in ("frac", "sym") else "frac"


def _mismatch(rng, cs, fresh):
    """a coordinate system that differs from cs in exactly one respect"""
    cs = dict(cs, names=list(cs["names"]))
    ways = ["csname", "coord", "dtype", "dim"]
    if len(cs["names"]) >= 2:
        ways.append("perm")
    w = rng.choice(ways)
    if w == "csname":
        cs["name"] = cs["name"] + "_b"
    elif w == "coord":
        j = rng.randrange(len(cs["names"]))
        cs["names"][j] = fresh.names(1, cs["names"])[0]
    elif w == "dtype":
        cs["dt"] = {"f8": "i8", "i8": "f8", "O": "f8"}[cs["dt"]]
    elif w == "dim":
        if len(cs["names"]) >= 2 and rng.random() < 0.5:
            cs["names"].pop()
        else:
            cs["names"].append(fresh.names(1, cs["names"])[0])
    else:
        p = list(cs["names"])
        while p == cs["names"]:
            rng.shuffle(p)
        cs["names"] = p
    return cs, w


def _gen_partner(rng, fresh, dom=None, rngcs=None, nin=None, nout=None, dt="f8", base="float",
                 invertible=False, general=False):
    kind = _kind_for(dt, rng, base)
    if dom is None:
        nin = nin or rng.choice([1, 2, 2, 3, 3, 4, 5])
        avoid = rngcs["names"] if rngcs is not None and rng.random() < 0.7 else ()
        dom = _cs_json(fresh.names(nin, avoid), rng.choice(CS_NAMES), dt)
    if rngcs is None:
        nout = nout or rng.choice([1, 2, 2, 3, 3, 4, 5])
        avoid = dom["names"] if rng.random() < 0.7 else ()
        rngcs = _cs_json(fresh.names(nout, avoid), rng.choice(CS_NAMES), dt)
    kind_eff = kind
    if dom["dt"] != dt or rngcs["dt"] != dt:
        # a deliberately different dtype: the matrix follows the lower one so the constructor keeps it
        low = "i8" if "i8" in (dom["dt"], rngcs["dt"]) else "f8"
        kind_eff = _kind_for(low if (dom["dt"] == rngcs["dt"]) else dt, rng, base)
    mat = _rand_mat(rng, kind_eff, len(rngcs["names"]), len(dom["names"]), invertible)
    if general and len(rngcs["names"]) == len(dom["names"]) and kind_eff in ("float", "int"):
        # _as_coordinate_map inverts every affine piece with LAPACK: keep away from exactly singular
        # matrices whose singularity rounding hides (LAPACK then returns a meaningless "inverse")
        for _ in range(20):
            m = _mat_np(mat, kind_eff)
            _, sing = _exact_rank_info(m)
            if not sing:
                if np.linalg.cond(np.asarray(m, dtype=float)) < 1e6:
                    break
            else:
                try:
                    np.linalg.inv(np.asarray(m, dtype=float))
                except np.linalg.LinAlgError:
                    break
            mat = _rand_mat(rng, kind_eff, len(rngcs["names"]), len(dom["names"]), True)
    return {"dom": dom, "rng": rngcs, "kind": kind_eff, "mat": mat}


def _gen_order(rng, names, malformed):
    n = len(names)
    if not malformed:
        r = rng.random()
        if r < 0.12:
            return None
        p = list(range(n))
        if r < 0.2:
            pass                      # identity (short-cut branch)
        else:
            rng.shuffle(p)
        return [names[i] for i in p] if rng.random() < 0.5 else p
    w = rng.choice(["dup", "short", "long", "range", "unknown", "empty"])
    p = list(range(n))
    rng.shuffle(p)
    if w == "dup":
        p[rng.randrange(n)] = p[0] if n > 1 else 0
        if n == 1:
            p = [0, 0]
    elif w == "short":
        p = p[:-1] if n > 1 else []
    elif w == "long":
        p = p + [rng.randrange(n)]
    elif w == "range":
        p[rng.randrange(n)] = n + rng.randrange(2)
    elif w == "unknown":
        q = [names[i] for i in p]
        q[rng.randrange(n)] = "nosuch"
        return q
    else:
        return []
    return p if rng.random() < 0.6 or any(i >= n for i in p) else [names[i] for i in p]


def _gen_rename(rng, names, fresh, malformed):
    """renaming dictionary as [key, value] pairs (dict insertion order).  Well-formed ones are drawn from:
    fresh names; swaps and longer cycles of existing names; chains where a new name is another axis' old
    name (which itself moves on to a fresh name); identity entries; partial overlaps (a new name equal to an
    old name that is *not* renamed: duplicate result, legitimately refused); keys by name, index or negative
    index, mixed, in random order."""
    n = len(names)
    mode = rng.choice(["fresh", "fresh", "swap", "cycle", "chain", "chain", "identity", "overlap", "mixed"])
    tgt = {}                                   # axis index -> new name (simultaneous semantics)
    if mode in ("swap", "cycle") and n >= 2:
        k = 2 if (mode == "swap" or n == 2) else rng.randint(3, n) if n >= 3 else 2
        idx = rng.sample(range(n), k)
        sh = rng.randrange(1, k)               # rotation by sh: a k-cycle (or product of cycles)
        for a in range(k):
            tgt[idx[a]] = names[idx[(a + sh) % k]]
        if rng.random() < 0.4:                 # plus an unrelated fresh rename
            rest = [i for i in range(n) if i not in tgt]
            if rest:
                tgt[rng.choice(rest)] = fresh.names(1, names)[0]
    elif mode == "chain" and n >= 2:
        k = rng.randint(2, n)
        idx = rng.sample(range(n), k)          # idx[0] -> name of idx[1] -> ... -> last gets a fresh name
        for a in range(k - 1):
            tgt[idx[a]] = names[idx[a + 1]]
        tgt[idx[-1]] = fresh.names(1, names)[0]
    elif mode == "identity":
        for i in rng.sample(range(n), rng.randint(1, n)):
            tgt[i] = names[i] if rng.random() < 0.6 else fresh.names(1, list(names) + list(tgt.values()))[0]
    elif mode == "overlap" and n >= 2:
        i, j = rng.sample(range(n), 2)
        tgt[i] = names[j]                      # j keeps its name: duplicate, CoordinateSystem refuses
        if rng.random() < 0.5:
            rest = [t for t in range(n) if t not in (i, j)]
            if rest:
                tgt[rng.choice(rest)] = fresh.names(1, names)[0]
    elif mode == "mixed" and n >= 2:
        pool = list(names) + fresh.names(n, names)
        for i in rng.sample(range(n), rng.randint(1, n)):
            tgt[i] = rng.choice(pool)
    if not tgt:
        k = rng.randint(1, n)
        for i, nn in zip(rng.sample(range(n), k), fresh.names(k, names)):
            tgt[i] = nn
    items = list(tgt.items())
    rng.shuffle(items)                         # dict order must not matter
    kv = []
    for i, nn in items:
        r = rng.random()
        kv.append([names[i] if r < 0.5 else (i if r < 0.8 else i - n), nn])
    if not malformed:
        if rng.random() < 0.2:                 # both the index and the name of one axis: the index wins
            i, nn = items[0]
            extra = fresh.names(1, list(names) + [v for _, v in items])[0]
            kv = [[names[i], extra]] + [p for p in kv if not (p[0] == names[i] or
                                                            (isinstance(p[0], int) and p[0] % n == i))]
            kv.append([rng.choice([i, i - n]), nn])
        final = [tgt.get(i, names[i]) for i in range(n)]
        return kv, ("ok" if len(set(final)) == n else "any")
    idx = [i for i, _ in items]
    w = rng.choice(["unknown", "dupname", "range"])
    if w == "unknown":
        kv.append(["nosuch", "zz"])
    elif w == "dupname":
        if n >= 2:
            i = idx[0]
            other = names[(i + 1) % n]
            kv = [[names[i], other]]
        else:
            kv.append(["nosuch", "zz"])
    else:
        kv.append([n + rng.randrange(2), "zz"])
    return kv, "any"


def _build(case):
    """explicit program for a seed-form case; runs the real code to follow the current coordinate systems"""
    rng = random.Random(case["seed"])
    fresh = _Fresh(rng)
    base = case["vk"]
    general = case.get("general")
    dt0 = MDT[base]
    nin = rng.choice([1, 2, 2, 3, 3, 3, 4, 5])
    nout = nin if rng.random() < 0.6 else rng.choice([1, 2, 3, 4, 5])
    init = _gen_partner(rng, fresh, general=bool(general), nin=nin, nout=nout, dt=dt0, base=base,
                        invertible=rng.random() < 0.7)
    prog = {"init": init, "ops": [], "expect_init": "ok"}
    if general:
        g = rng.choice(["affine", "affine", "shear", "shear", "square"])
        prog["general"] = {"g": g, "c": rng.choice(["1", "2", "-1"]) if base == "int" else rng.choice(["1", "1/2", "-2"])}
    if rng.random() < 0.06:      # malformed constructor arguments
        w = rng.choice(["shape", "bottom", "bottom-tol", "dupnames"])
        prog["expect_init"] = "any"
        if w == "shape":
            init["mat"] = [row[:-1] for row in init["mat"]] if rng.random() < 0.5 and nin >= 1 else init["mat"][:-1]
            if not init["mat"] or not init["mat"][0]:
                init["mat"] = [["1"]]
        elif w == "bottom":
            init["mat"][-1][rng.randrange(nin + 1)] = "2"
        elif w == "bottom-tol" and base == "float":
            # inside / outside the np.allclose window of the bottom-row test, away from its edge
            init["mat"][-1][-1] = rng.choice([str(Fraction(1) + Fraction(1, 2 ** 18)),     # 3.8e-6: accepted
                                              str(Fraction(1) + Fraction(1, 2 ** 14))])    # 6.1e-5: refused
            if nin >= 1:
                init["mat"][-1][0] = rng.choice(["0", str(Fraction(1, 2 ** 30)), str(Fraction(1, 2 ** 20))])
            # only the constructor's acceptance window and the evaluation are probed: a matrix whose bottom row
            # is merely *close* to [0,..,0,1] is not an affine matrix in the property's sense (products use the
            # whole matrix, evaluation ignores the bottom row), so no algebra follows
            case = dict(case, nops=0)
        else:
            init["dom"]["names"] = (init["dom"]["names"] + init["dom"]["names"])[:nin] if nin == 1 else \
                [init["dom"]["names"][0]] + init["dom"]["names"][:-1]
            if len(set(init["dom"]["names"])) == len(init["dom"]["names"]):
                init["dom"]["names"][-1] = init["dom"]["names"][0]
            if nin == 1:
                prog["expect_init"] = "ok"
    try:
        cur = _real_map(init)
        if general:
            cur = _real_general(cur, prog["general"])
    except Exception:
        prog["pts"], prog["pk"] = _gen_pts(rng, base), dt0
        return prog
    aff_ops = ["compose_r"] * 3 + ["compose_l"] * 3 + ["compose3", "prod_r", "prod_l", "reord_d", "reord_d",
               "reord_d", "reord_r", "reord_r", "reord_r", "ren_d", "ren_d", "ren_r", "ren_r", "inv", "inv",
               "shift_d", "shift_r", "append", "append", "drop", "drop", "drop"]
    gen_ops = ["compose_r"] * 3 + ["compose_l"] * 3 + ["compose3", "prod_r", "prod_l", "reord_d", "reord_d",
               "reord_r", "reord_r", "ren_d", "ren_r", "inv", "inv"]
    for _ in range(case["nops"]):
        dcs, rcs = _cs_of(cur.function_domain), _cs_of(cur.function_range)
        dt = dcs["dt"]
        if dt not in ("i8", "f8", "O") or rcs["dt"] != dt and not general:
            break
        n_i, n_o = len(dcs["names"]), len(rcs["names"])
        kname = rng.choice(gen_ops if general else aff_ops)
        if general and dt == "i8" and kname == "inv":
            # inverse(preserve_dtype=True) truncates the float inverse (astype) and then gives up when a
            # rounded 0.999.. became 0: whether an int64 general map has an inverse function is a rounding matter
            continue
        bad = rng.random() < 0.15
        op = {"op": kname, "expect": "ok"}
        if kname in ("compose_r", "compose_l", "compose3"):
            inv_ok = rng.random() < 0.6
            why = None
            if kname in ("compose_r", "compose3"):
                target = dict(dcs)
                if bad:
                    target, why = _mismatch(rng, dcs, fresh)
                R = _gen_partner(rng, fresh, general=bool(general), rngcs=target, nin=len(target["names"]) if inv_ok else None,
                                 dt=dt if why != "dtype" else target["dt"], base=base, invertible=inv_ok)
                if why == "dtype":
                    R["dom"]["dt"] = target["dt"]
            if kname in ("compose_l", "compose3"):
                target = dict(rcs)
                bad_l = bad and (kname == "compose_l" or rng.random() < 0.5)
                wl = None
                if bad_l:
                    target, wl = _mismatch(rng, rcs, fresh)
                L = _gen_partner(rng, fresh, general=bool(general), dom=target, nout=len(target["names"]) if inv_ok else None,
                                 dt=rcs["dt"] if wl != "dtype" else target["dt"], base=base, invertible=inv_ok)
                if wl == "dtype":
                    L["rng"]["dt"] = target["dt"]
                why = why or wl
            if kname == "compose_r":
                op["map"] = R
            elif kname == "compose_l":
                op["map"] = L
            else:
                op["left"], op["right"] = L, R
            if why:
                op["expect"], op["why"] = "refuse", why
        elif kname in ("prod_r", "prod_l"):
            room = MAXDIM - max(n_i, n_o)
            if room < 1:
                continue
            k_i, k_o = rng.randint(1, min(room, 3)), rng.randint(1, min(room, 3))
            pdt = dt if (general or rng.random() < 0.8) else rng.choice(["i8", "f8"])
            if dt == "O":
                pdt = "O"
            B = _gen_partner(rng, fresh, general=bool(general), nin=k_i, nout=k_o, dt=pdt, base=base)
            used_i, used_o = set(dcs["names"]), set(rcs["names"])
            B["dom"]["names"] = fresh.names(k_i, used_i)
            B["rng"]["names"] = fresh.names(k_o, used_o)
            if bad:
                B["dom"]["names"][0] = dcs["names"][0]      # clash of input names: refused by CoordinateSystem
                op["expect"] = "any"
            op.update(map=B, **{"in": rng.choice(["product", "pin", ""]), "out": rng.choice(["product", "pout"])})
        elif kname in ("reord_d", "reord_r"):
            names = dcs["names"] if kname == "reord_d" else rcs["names"]
            op["order"] = _gen_order(rng, names, bad)
            if bad:
                op["expect"] = "any"
        elif kname in ("ren_d", "ren_r"):
            names = dcs["names"] if kname == "ren_d" else rcs["names"]
            op["kv"], op["expect"] = _gen_rename(rng, list(names), fresh, bad)
        elif kname == "inv":
            op["expect"] = "any"
            if base == "sym" and n_i > 2:
                continue          # symbolic inverses of 4x4 and larger matrices take sympy minutes
            if general:
                pass
            else:
                sq, sing = _exact_rank_info(cur.affine)
                if sq and not sing:
                    A = _to_float(cur.affine)
                    if np.linalg.cond(A) > 1e6:
                        continue
                    op["expect"] = "ok"
                elif sq and dt != "O":
                    try:
                        np.linalg.inv(np.asarray(cur.affine, dtype=float))
                        continue       # rounding hides the exact singularity from LAPACK: not a property matter
                    except np.linalg.LinAlgError:
                        pass
        elif kname in ("shift_d", "shift_r"):
            n = n_i if kname == "shift_d" else n_o
            vk = "int" if (dt == "i8" and rng.random() < 0.7) else ("frac" if dt == "O" else "float")
            ln = n
            if bad:
                ln = rng.choice([x for x in (0, 1, n - 1, n + 1) if x != n and x >= 0])
                op["expect"] = "any"
            op.update(vec=[_val(rng, vk) for _ in range(ln)], name=rng.choice(["shifted", "", "new-origin"]), vk=vk)
        elif kname == "append":
            if max(n_i, n_o) >= MAXDIM:
                continue
            vk = "int" if dt == "i8" else ("frac" if dt == "O" else "float")
            both = list(dcs["names"]) + list(rcs["names"])
            a_in, a_out = fresh.names(1, both)[0], fresh.names(1, both)[0]
            if rng.random() < 0.15:
                # names colliding across sides are legal: the new input axis named like an existing output
                # axis (or the other way round); only the later drop-by-name becomes ambiguous
                free_o = [x for x in rcs["names"] if x not in dcs["names"]]
                free_i = [x for x in dcs["names"] if x not in rcs["names"]]
                if free_o and rng.random() < 0.5:
                    a_in = rng.choice(free_o)
                elif free_i:
                    a_out = rng.choice(free_i)
            op.update(**{"in": a_in, "out": a_out},
                      start=_val(rng, vk), step=rng.choice(["1", "2", "-1", "0", _val(rng, vk)]), vk=vk)
            if bad:
                op["in"] = dcs["names"][0]
                op["expect"] = "any"
        elif kname == "drop":
            if dt == "O" or n_i < 2 or n_o < 2:
                continue
            op["expect"] = "any"
            r = rng.random()
            if r < 0.45:
                ax = rng.choice(dcs["names"])
            elif r < 0.75:
                ax = rng.choice(rcs["names"])
            elif r < 0.95:
                ax = rng.randrange(-n_i, n_i)
            else:
                ax = rng.choice(["nosuch", n_i + 1])
            op.update(axis=ax, fix0=rng.random() < 0.7)
            try:
                _ornts(cur.affine, op["fix0"])
            except Exception:
                continue
        prog["ops"].append(op)
        try:
            with warnings.catch_warnings():
                warnings.simplefilter("ignore")
                nxt, _ = _apply_op(cur, op, general)
        except Exception:
            break
        if nxt is None:
            break
        cur = nxt
        # after append, sometimes drop the appended axis again (must succeed and restore the map)
        if kname == "append" and op["expect"] == "ok" and rng.random() < 0.6 and _dt_code(cur.affine.dtype) != "O":
            step_nonzero = _exact(_entry(op["step"], op["vk"])) != 0
            fz = True if not step_nonzero else rng.random() < 0.5
            d = {"op": "drop", "axis": rng.choice([op["in"], op["out"], -1]), "fix0": fz, "expect": "any"}
            try:
                orn = _ornts(cur.affine, fz)
                clash = op["in"] in rcs["names"] or op["out"] in dcs["names"]
                if step_nonzero and orn[-1] == cur.ndims[1] - 1 and not (clash and isinstance(d["axis"], str)):
                    d["expect"] = "ok"
                with warnings.catch_warnings():
                    warnings.simplefilter("ignore")
                    nxt, _ = _apply_op(cur, d, general)
                prog["ops"].append(d)
                cur = nxt
            except Exception:
                prog["ops"].append(d)
                break
    final_dt = _dt_code(cur.function_domain.coord_dtype)
    prog["pts"] = _gen_pts(rng, base)
    r = rng.random()
    prog["pk"] = final_dt if r < 0.8 else rng.choice(["i8", "f8", "O"])
    if rng.random() < 0.06:
        prog["ptdim_off"] = rng.choice([-1, 1])
    return prog


def _gen_pts(rng, base):
    npts = rng.choice([1, 2, 3, 5])
    vals = ["-3", "-2", "-1", "0", "1", "2", "3", "5", "7", "1/2", "-3/2", "1/4", "9/4"]
    pts = [[rng.choice(vals) for _ in range(MAXDIM + 2)] for _ in range(npts)]
    pts[0] = [str(v) for v in [2, -3, 5, 7, -1, 4, 1, 6]][: MAXDIM + 2]
    return pts


# ----------------------------------------------------------------------
class C01(PropertyCheck):
    id = "C01"
    title = "Coordinate-map algebra agrees with function semantics"
    lean_modules = ["NipyVerif.Props.C01"]
    driver = "Drivers/C01.lean"
    rule = ("a case is a program: an initial AffineTransform (float64 / int64 / object dtype with Fractions or sympy "
            "symbols, domain and range dimension 1..5, ~6% malformed constructor arguments), optionally wrapped as a "
            "general CoordinateMap (affine, polynomial shear with inverse, squaring without inverse), then 1..8 "
            "operations drawn from compose (2- and 3-ary, 15% with a coordinate system differing in name, one "
            "coordinate, order, dtype or dimension), product, reordered_domain/range (uniform random permutations, "
            "by index or by name, default reversal, identity, malformed orders), renamed_domain/range (name and "
            "positive/negative index keys, clashes), inverse, shifted_domain/range_origin, append_io_dim, "
            "drop_io_dim, and 1..5 points; plus every permutation of up to 4 (thorough: 5) axes on each side for "
            "affine and general maps, and direct _fix0 probes. Non-trivial = at least one operation on a map with "
            "at least one axis; distinct by full JSON of the case")
    assumptions = [
        "matrix inverse (numpy.linalg.inv / sympy Matrix.inv) is a parameter certified in the model: a candidate is "
        "accepted only if both products with the matrix are the identity; the implementation's floats are compared "
        "with the exact rational inverse to 1e-8 relative",
        "np.allclose in the bottom-row test of AffineTransform.__init__ is modelled exactly with rtol=1e-5, "
        "atol=1e-8; generated values stay away from the edge of that window; the composition theorems assume the "
        "exact bottom row [0,..,0,1]",
        "nibabel.io_orientation is a parameter of drop_io_dim (its result on the _fix0'd matrix is passed to the model)",
        "orth_axes uses the tolerance 1e-5; drop theorems are stated for exact zeros (generated entries are 0 or >= 1/4)",
        "IEEE rounding in np.dot / npl.inv (inputs are small dyadic rationals, so products are exact; inverses are "
        "compared with tolerance); exactly singular float matrices whose singularity LAPACK does not see are not generated",
        "sympy symbols are compared after substituting a=3/2, b=-2, c=1/4 (all operations are rational functions of the entries)",
        "dtype lattice restricted to int64 < float64 < object",
    ]
    level_note = ("general CoordinateMap: composition/inverse/product theorems hold for arbitrary Lean functions; "
                  "append/drop theorem covers the affine case with io_orientation as a hypothesis")

    # ------------------------------------------------------------------
    def generate(self, rng, tier):
        n_chain, n_gen = (420, 140) if tier == "quick" else (9000, 2500)
        cases = []
        for _ in range(n_chain):
            vk = rng.choice(["float"] * 5 + ["int"] * 3 + ["frac"] * 2 + ["sym"])
            cases.append({"kind": "chain", "seed": rng.randrange(1 << 40), "vk": vk,
                          "nops": rng.choice([1, 1, 2, 2, 3, 3, 4, 5, 6, 8])})
        for _ in range(n_gen):
            vk = rng.choice(["float"] * 4 + ["int"] * 2)
            cases.append({"kind": "chain", "seed": rng.randrange(1 << 40), "vk": vk, "general": True,
                          "nops": rng.choice([1, 1, 2, 2, 3, 4, 5, 6])})
        # every permutation of up to 4 (5) axes, both sides, by index and by name, affine and general
        top = 4 if tier == "quick" else 5
        for n in range(1, top + 1):
            for perm in itertools.permutations(range(n)):
                for side in ("reord_d", "reord_r"):
                    byname = rng.random() < 0.5
                    cases.append({"kind": "perm", "n": n, "perm": list(perm), "side": side, "byname": byname,
                                  "seed": rng.randrange(1 << 40),
                                  "vk": rng.choice(["float", "float", "int", "frac", "sym"]),
                                  "general": (rng.random() < 0.25)})
        for _ in range(40 if tier == "quick" else 400):
            cases.append({"kind": "fix0", "seed": rng.randrange(1 << 40)})
        return cases

    # ------------------------------------------------------------------
    def _prog_of(self, case):
        if "prog" in case:
            return case["prog"]
        if case["kind"] == "chain":
            c = dict(case)
            if c.get("general") is True:
                c["general"] = True
            return _build(c)
        if case["kind"] == "perm":
            rng = random.Random(case["seed"])
            fresh = _Fresh(rng)
            n, vk = case["n"], case["vk"]
            if case.get("general") and vk not in ("float", "int"):
                vk = "float"
            m = rng.choice([1, 2, 3, 4, 5])
            nin, nout = (n, m) if case["side"] == "reord_d" else (m, n)
            init = _gen_partner(rng, fresh, nin=nin, nout=nout, dt=MDT[vk], base=vk)
            names = init["dom"]["names"] if case["side"] == "reord_d" else init["rng"]["names"]
            order = [names[i] for i in case["perm"]] if case["byname"] else list(case["perm"])
            prog = {"init": init, "expect_init": "ok",
                    "ops": [{"op": case["side"], "order": order, "expect": "ok"}],
                    "pts": _gen_pts(rng, vk), "pk": MDT[vk]}
            if case.get("general"):
                prog["general"] = {"g": rng.choice(["affine", "shear"]), "c": "1"}
            return prog
        raise KeyError(case["kind"])

    def run_case(self, case):
        warnings.filterwarnings("ignore")
        if case["kind"] == "fix0":
            return self._fix0(case)
        prog = self._prog_of(case)
        return _execute(prog)

    def _fix0(self, case):
        import nipy.core.reference.coordinate_map as cm
        rng = random.Random(case["seed"])
        nout, nin = rng.randint(1, 4), rng.randint(1, 4)
        m = [[rng.choice([0, 0, 0, 1, -2, 0.5]) for _ in range(nin + 1)] for _ in range(nout)]
        if rng.random() < 0.6:
            i, j = rng.randrange(nout), rng.randrange(nin)
            m[i] = [0] * nin + [m[i][-1]]
            for row in m:
                row[j] = 0
        m.append([0] * nin + [1])
        a = np.array(m, dtype=float)
        snap = Snapshot(a=a)
        out = cm._fix0(a)
        line = f"fix0 {nout + 1} {nin + 1} " + " ".join(fr(v) for v in a.ravel())
        obs = {"status": "fix0", "aff": [[fr(v) for v in row] for row in out]}
        return {"lines": [line], "impl": [obs], "oracle": None, "nontrivial": True, "tags": ["fix0"],
                "mutated": snap.changed()}

    # ------------------------------------------------------------------
    @staticmethod
    def _cmp_vals(impl_rows, model_txt, exact, extra_atol=0.0):
        rows = [r.split() for r in model_txt.split(" ; ")] if model_txt.strip() else []
        if len(rows) != len(impl_rows):
            return f"row count impl={len(impl_rows)} model={len(rows)}"
        flat_m = [Fraction(t) for r in rows for t in r]
        scale = max([1.0] + [abs(float(v)) for v in flat_m])
        for i, (a, b) in enumerate(zip(impl_rows, rows)):
            if len(a) != len(b):
                return f"row {i}: length impl={len(a)} model={len(b)}"
            for j, (x, y) in enumerate(zip(a, b)):
                fx, fy = Fraction(x), Fraction(y)
                if fx == fy:
                    continue
                if exact or not close(fx, fy, 1e-8, 1e-8 * scale + extra_atol):
                    return f"[{i},{j}]: impl={float(fx)!r} model={float(fy)!r}"
        return None

    def compare(self, case, obs, out):
        if out.startswith("bad-op"):
            return "model could not parse the line"
        if obs["status"] == "fix0":
            toks = out.split()
            r, c = int(toks[0]), int(toks[1])
            body = [toks[2 + i * c: 2 + (i + 1) * c] for i in range(r)]
            return self._cmp_vals(obs["aff"], " ; ".join(" ".join(b) for b in body), True)
        parts = [p.strip() for p in out.split(" | ")]
        if parts[0] != obs["status"]:
            return f"status impl={obs['status']} model={parts[0]}"
        if obs["status"] != "ok":
            return None

        def cs_txt(c):
            return _cs_line(c)
        if parts[1] != cs_txt(obs["dom"]):
            return f"domain impl={cs_txt(obs['dom'])} model={parts[1]}"
        if parts[2] != cs_txt(obs["rng"]):
            return f"range impl={cs_txt(obs['rng'])} model={parts[2]}"
        k = 3
        if "aff" in obs:
            toks = parts[3].split()
            r, c = int(toks[0]), int(toks[1])
            if r != len(obs["aff"]) or c != len(obs["aff"][0]):
                return f"affine shape impl={len(obs['aff'])}x{len(obs['aff'][0])} model={r}x{c}"
            body = " ; ".join(" ".join(toks[2 + i * c: 2 + (i + 1) * c]) for i in range(r))
            d = self._cmp_vals(obs["aff"], body, obs["aff_dt"] == "i8")
            if d:
                return "affine " + d
            if obs["aff_dt"] != obs["dom"]["dt"]:
                return f"affine dtype {obs['aff_dt']} differs from coordinate dtype {obs['dom']['dt']}"
            k = 4
        call = parts[k]
        if isinstance(obs["call"], str):
            if call != obs["call"]:
                return f"call impl={obs['call']} model={call}"
        else:
            if not call.startswith("vals"):
                return f"call impl=values model={call}"
            d = self._cmp_vals(obs["call"], call[4:].strip(), False)
            if d:
                return "call " + d
        if "inv" in obs:
            inv = parts[k + 1]
            if obs["inv"] is None:
                if inv != "noinv" and obs["dom"]["dt"] != "i8" and obs["rng"]["dt"] != "i8":
                    return f"inverse function impl=None model={inv[:40]}"
            elif obs["inv"] == "skip":
                if inv == "noinv":
                    return "inverse function impl=present model=noinv"
            else:
                if not inv.startswith("inv "):
                    return f"inverse function impl=values model={inv[:40]}"
                ymax = max([0.0] + [abs(float(Fraction(v))) for row in obs["call"] for v in row]) \
                    if not isinstance(obs["call"], str) else 0.0
                d = self._cmp_vals(obs["inv"], inv[3:].strip(), False, 1e-12 * ymax * ymax)
                if d:
                    return "inverse-call " + d
        return None

    # ------------------------------------------------------------------
    def shrink(self, case):
        if case.get("kind") == "fix0":
            return
        try:
            prog = self._prog_of(case)
        except Exception:
            return
        ops = prog["ops"]
        for i in range(len(ops) - 1, -1, -1):
            p = dict(prog, ops=ops[:i] + ops[i + 1:])
            yield {"kind": "prog", "prog": p}
        if len(prog["pts"]) > 1:
            yield {"kind": "prog", "prog": dict(prog, pts=prog["pts"][:1])}
        if "prog" not in case:
            yield {"kind": "prog", "prog": prog}

    def classify(self, case, failure):
        return None


CHECK = C01()
