"""Helpers of the C04 check: exact affine algebra, typed / laid-out test data, SciPy's index
extension written independently of the Lean model (for the oracle), ctypes glue standing in for
the `.pyx` glue of `cubic_spline.c`."""
from __future__ import annotations

import ctypes
import itertools
from fractions import Fraction

import numpy as np

MODES = ["constant", "grid-constant", "nearest", "reflect", "grid-mirror", "mirror", "wrap", "grid-wrap"]
INT_DTYPES = ["int8", "int16", "int32", "int64", "uint8", "uint16", "uint32", "uint64"]
SRC_DTYPES = ["float64", "float64", "float64", "float32", "int16", "int16", "uint8", "uint8", "int8", "int32",
              "int64", "uint16", "uint32", "uint64", "bool"]
LAYOUTS = ["C", "C", "C", "F", "strided", "neg", "proxy", "readonly", "memmap"]
CS_MODES = {"zero": 0, "nearest": 1, "reflect": 2}


# ----------------------------------------------------------------------
# exact affine algebra on n x (n+1) nested lists  [A | b]
# ----------------------------------------------------------------------
def F(M):
    return [[Fraction(x) for x in row] for row in M]


def f_comp(a, c):
    """a o c for [A|b] blocks (a: m x (n+1), c: n x (k+1))"""
    m, n, k = len(a), len(c), len(c[0]) - 1
    out = []
    for i in range(m):
        row = [sum(a[i][l] * c[l][j] for l in range(n)) for j in range(k)]
        row.append(sum(a[i][l] * c[l][k] for l in range(n)) + a[i][n])
        out.append(row)
    return out


def f_apply(a, x):
    n = len(a[0]) - 1
    return [sum(a[i][j] * x[j] for j in range(n)) + a[i][n] for i in range(len(a))]


def f_inv(a):
    """exact inverse of a square [A|b] affine; None if singular"""
    n = len(a)
    M = [list(a[i][:n]) + [Fraction(int(i == j)) for j in range(n)] for i in range(n)]
    for c in range(n):
        p = next((r for r in range(c, n) if M[r][c] != 0), None)
        if p is None:
            return None
        M[c], M[p] = M[p], M[c]
        pv = M[c][c]
        M[c] = [x / pv for x in M[c]]
        for r in range(n):
            if r != c and M[r][c] != 0:
                f = M[r][c]
                M[r] = [x - f * y for x, y in zip(M[r], M[c])]
    Ai = [row[n:] for row in M]
    b = [a[i][n] for i in range(n)]
    return [Ai[i] + [-sum(Ai[i][j] * b[j] for j in range(n))] for i in range(n)]


def f_ident(n):
    return [[Fraction(int(i == j)) for j in range(n)] + [Fraction(0)] for i in range(n)]


def H(a):
    """homogeneous float matrix of an [A|b] block"""
    a = np.array([[float(x) for x in row] for row in a], dtype=float)
    m = a.shape[0]
    h = np.zeros((m + 1, a.shape[1]))
    h[:m] = a
    h[m, -1] = 1
    return h


def is_exact(M):
    """all entries are floats that survive Fraction -> float -> Fraction"""
    return all(Fraction(float(x)) == x and abs(x) < 2 ** 20 and (x == 0 or abs(x) > 2 ** -12)
               for row in M for x in row)


def tofloat(M):
    return [[float(x) for x in row] for row in M]


def all_idx(shape):
    return list(itertools.product(*[range(s) for s in shape]))


def inside(p, shape):
    return all(0 <= x < s for x, s in zip(p, shape))


def scale_of(arr):
    arr = np.asarray(arr, dtype=float)
    return max(1.0, float(np.max(np.abs(arr))) if np.size(arr) else 1.0)


# ----------------------------------------------------------------------
# SciPy's boundary modes on integer coordinates (written from the documentation of
# scipy.ndimage; the Lean model has its own definition, both are compared with SciPy)
# ----------------------------------------------------------------------
def ext_index(mode, n, i):
    """index read at integer coordinate i on an axis of n samples; None = fill value"""
    if 0 <= i < n:
        return i
    if mode in ("constant", "grid-constant"):
        return None
    if mode == "nearest":
        return min(max(i, 0), n - 1)
    if mode in ("reflect", "grid-mirror"):          # d c b a | a b c d | d c b a
        j = i % (2 * n)
        return j if j < n else 2 * n - 1 - j
    if mode == "mirror":                            # d c b | a b c d | c b a
        if n == 1:
            return 0
        j = i % (2 * (n - 1))
        return j if j < n else 2 * (n - 1) - j
    if mode == "grid-wrap":
        return i % n
    if mode == "wrap":                              # legacy: period n - 1
        if n == 1:
            return 0
        sz = n - 1
        if i < 0:
            return i + sz * ((-i) // sz + 1)
        return i - sz * (i // sz)
    raise ValueError(mode)


def ext_exact(mode, order):
    """does scipy.ndimage reproduce the boundary-extended array exactly at integer points
    outside the array?  nearest / grid-constant with a pre-filter are approximations (scipy
    issue 13600); the looser tolerance LOOSE applies there"""
    return not (mode in ("nearest", "grid-constant") and order > 1)


LOOSE = 2e-3        # relative to the data scale


def cs_ext_index(mode, ddim, x):
    """sample read by cubic_spline.c at integer coordinate x (None: the result is 0)"""
    if mode == 0:
        return x if 0 <= x <= ddim else None
    if mode == 1:
        return min(max(x, 0), ddim)
    if -ddim <= x <= 2 * ddim:
        if ddim == 0:
            return 0
        j = x % (2 * ddim)
        return 2 * ddim - j if j > ddim else j
    return None


# ----------------------------------------------------------------------
# typed, laid-out data
# ----------------------------------------------------------------------
class ArrayProxy:
    """array-like with `shape` that yields its array only through np.asarray (as a nibabel
    array proxy does)"""

    def __init__(self, arr):
        self._arr = arr
        self.shape = arr.shape
        self.ndim = arr.ndim
        self.dtype = arr.dtype

    def __array__(self, dtype=None, copy=None):
        a = self._arr
        if dtype is not None and np.dtype(dtype) != a.dtype:
            return a.astype(dtype)
        return a


def make_typed(seed, shape, dtype):
    """random samples representable in `dtype` (small magnitudes; floats are eighths)"""
    rs = np.random.RandomState(seed)
    if dtype == "bool":
        return rs.randint(0, 2, size=shape).astype(bool)
    if dtype.startswith("uint"):
        return rs.randint(0, 90, size=shape).astype(dtype)
    if dtype.startswith("int"):
        return rs.randint(-20, 60, size=shape).astype(dtype)
    if seed % 2:
        return (rs.randint(-64, 64, size=shape) / 8.0).astype(dtype)
    return rs.randint(-20, 60, size=shape).astype(dtype)


def lay_out(arr, layout):
    """same values, different memory layout / container"""
    arr = np.asarray(arr)
    if layout == "F":
        return np.asfortranarray(arr)
    if layout == "strided":
        big = np.full([2 * s + 1 for s in arr.shape], 7).astype(arr.dtype)
        sl = tuple(slice(1, None, 2) for _ in arr.shape)
        big[sl] = arr
        return big[sl]
    if layout == "neg":
        rev = arr[::-1].copy()
        return rev[::-1]
    if layout == "readonly":
        a = arr.copy()
        a.flags.writeable = False
        return a
    if layout == "proxy":
        return ArrayProxy(arr.copy())
    if layout == "memmap":
        import tempfile
        if arr.size == 0:
            return arr.copy()
        m = np.memmap(tempfile.TemporaryFile(), dtype=arr.dtype, mode="w+", shape=arr.shape)
        m[...] = arr
        return m
    return np.ascontiguousarray(arr)


def base_array(obj):
    return obj._arr if isinstance(obj, ArrayProxy) else obj


def cast_oracle(exp, dtype):
    """what a float expectation becomes in an integer output dtype, up to the rounding direction:
    clipped to the dtype's range (the comparison then allows 1/2)"""
    if dtype is None or np.dtype(dtype).kind not in "iu":
        return exp
    info = np.iinfo(dtype)
    out = []
    for e in exp:
        if e is None:
            out.append(None)
        elif isinstance(e, tuple):
            out.append((float(min(max(e[0], info.min), info.max)), e[1]))
        else:
            out.append(float(min(max(e, info.min), info.max)))
    return out


# ----------------------------------------------------------------------
# ctypes stand-ins for the .pyx glue of cubic_spline.c (rebuilt from the tree under test)
# ----------------------------------------------------------------------
_LIB = {}


def cs_lib():
    if "lib" not in _LIB:
        from harness import cshim
        lib = cshim.load("registration")
        lib.cubic_spline_resample3d.restype = None
        lib.cubic_spline_resample3d.argtypes = [ctypes.py_object, ctypes.py_object, ctypes.c_void_p,
                                                ctypes.c_int, ctypes.c_int, ctypes.c_int]
        lib.cubic_spline_transform.restype = None
        lib.cubic_spline_transform.argtypes = [ctypes.py_object, ctypes.py_object]
        lib.cubic_spline_sample3d.restype = ctypes.c_double
        lib.cubic_spline_sample3d.argtypes = [ctypes.c_double] * 3 + [ctypes.py_object] + [ctypes.c_int] * 3
        lib.cubic_spline_sample4d.restype = ctypes.c_double
        lib.cubic_spline_sample4d.argtypes = [ctypes.c_double] * 4 + [ctypes.py_object] + [ctypes.c_int] * 4
        _LIB["lib"] = lib
    return _LIB["lib"]


def cs_glue4():
    """_cspline_sample4d as the .pyx defines it, calling the C of the tree under test"""
    lib = cs_lib()

    def cs_s4(Rr, Cc, X=0, Y=0, Z=0, T=0, mx="zero", my="zero", mz="zero", mt="zero"):
        X, Y, Z, T = (np.reshape(a, Rr.shape).astype(np.double) for a in (X, Y, Z, T))
        it = np.nditer(Rr, flags=["multi_index"], op_flags=["readwrite"])
        m = [CS_MODES[mx], CS_MODES[my], CS_MODES[mz], CS_MODES[mt]]
        for r in it:
            k = it.multi_index
            r[...] = lib.cubic_spline_sample4d(float(X[k]), float(Y[k]), float(Z[k]), float(T[k]), Cc, *m)
        return Rr

    return cs_s4


def cs_glue(cap=None):
    """(_cspline_resample3d, _cspline_sample3d, _cspline_transform) as the .pyx defines them,
    calling the C of the tree under test; `cap` records routine / matrix / coordinates"""
    lib = cs_lib()
    cap = {} if cap is None else cap

    def cs_res(out, im, dims, Tvox, mx="zero", my="zero", mz="zero"):
        cap["routine"] = "cspline_resample3d"
        Tv = np.asarray(Tvox, dtype="double", order="C")
        cap["mat"] = Tv[:3].copy()
        lib.cubic_spline_resample3d(out, np.asarray(im), Tv.ctypes.data, CS_MODES[mx], CS_MODES[my], CS_MODES[mz])
        return out

    def cs_tr(x):
        x = np.asarray(x)
        cc = np.zeros(x.shape, dtype=np.double)
        lib.cubic_spline_transform(cc, x)
        return cc

    def cs_s3(Rr, Cc, X=0, Y=0, Z=0, mx="zero", my="zero", mz="zero"):
        cap["routine"] = "cspline_sample3d"
        X = np.reshape(X, Rr.shape).astype(np.double)
        Y = np.reshape(Y, Rr.shape).astype(np.double)
        Z = np.reshape(Z, Rr.shape).astype(np.double)
        cap["coords"] = np.array([X.ravel(), Y.ravel(), Z.ravel()])
        it = np.nditer(Rr, flags=["multi_index"], op_flags=["readwrite"])
        a, b, c = CS_MODES[mx], CS_MODES[my], CS_MODES[mz]
        for r in it:
            k = it.multi_index
            r[...] = lib.cubic_spline_sample3d(float(X[k]), float(Y[k]), float(Z[k]), Cc, a, b, c)
        return Rr

    return cs_res, cs_s3, cs_tr
