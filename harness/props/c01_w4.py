"""C01, wave 4: direct probes of `orth_axes` around its tolerance and `nipy/core/reference/spaces.py`
(XYZSpace, known_space, get_world_cs, xyz_order, xyz_affine / is_xyz_affable on coordinate maps).

line kinds (all answered by `run3` in Model/C01W.lean):
  w4 orth <mat> <in_ax> <out_ax> <allow_zero>        -> true / false
  w4 xyznames s:<name>                               -> the three names
  w4 speq s:<a> s:<b>                                -> XYZSpace == XYZSpace
  w4 inspace s:<space> <names> <spaces>              -> in ... known ...
  w4 world <world id> <ndim> <extras> <spaces>       -> coordinate system or refusal
  w4 xyzorder <names> <name2xyz>                     -> order ... or AxesError
  w4 xyzaff <raw map> <name2xyz> <ornts>             -> affable ... | matrix or refusal
"""
from __future__ import annotations

import random
import warnings
from fractions import Fraction

import numpy as np

from harness.util import Snapshot, fr

SPACE_NAMES = ["unknown", "scanner", "aligned", "mni", "talairach"]
OTHER_NAMES = ["hijo", "mni2", "x", "", "scanner_", "MNI"]
ERRS = {"SpaceError": "error:SpaceError", "AxesError": "error:AxesError", "AffineError": "error:AffineError",
        "SpaceTypeError": "error:SpaceTypeError", "ValueError": "error:valueError",
        "CoordSysMakerError": "error:CoordSysMakerError", "TypeError": "error:typeError",
        "IndexError": "error:indexError", "KeyError": "error:keyError",
        "CoordinateSystemError": "error:CoordinateSystemError"}


def _err(e):
    return ERRS.get(type(e).__name__, "error:" + type(e).__name__)


def _enc(s):
    return "s:" + s


def _strs(l):
    return f"{len(l)}" + "".join(" " + _enc(s) for s in l)


def _xyz(name):
    return [f"{name}-x=L->R", f"{name}-y=P->A", f"{name}-z=I->S"]


# entries on both sides of 1e-5 (2^-17 < 1e-5 < 2^-16), of 1e-4 (2^-14 < 1e-4 < 2^-13) and of 1e-8
NEAR = ["1/131072", "1/65536", "-1/65536", "-1/131072", "1/16384", "1/8192", "1/1048576", "-1/16384",
        "1/134217728", "1/67108864"]


def generate(rng, tier):
    q = tier == "quick"
    n_orth, n_sp, n_world, n_ord, n_aff, n_pres = (70, 30, 50, 50, 70, 60) if q else (900, 300, 600, 600, 900, 800)
    cases = []
    for sub, n in (("orth", n_orth), ("space", n_sp), ("world", n_world), ("xyzorder", n_ord), ("xyzaff", n_aff),
                   ("pres", n_pres)):
        for _ in range(n):
            cases.append({"kind": "w4", "sub": sub, "seed": rng.randrange(1 << 40)})
    return cases


# ---------------------------------------------------------------------------------------------
def _run_orth(rng):
    import nipy.core.reference.coordinate_map as cm
    nout, nin = rng.randint(1, 5), rng.randint(1, 5)
    mode = rng.random()
    m = [["0"] * (nin + 1) for _ in range(nout)]
    rows = list(range(nout))
    rng.shuffle(rows)
    for j in range(min(nin, nout)):
        if rng.random() < 0.85:
            m[rows[j]][j] = rng.choice(["1", "2", "-3", "1/2", "1/1024"] + NEAR[:4])
    for _ in range(rng.choice([0, 1, 1, 2, 3])):
        m[rng.randrange(nout)][rng.randrange(nin)] = rng.choice(NEAR + ["1", "-2"]) if mode < 0.8 else \
            rng.choice(["1", "-2", "3/4"])
    for i in range(nout):
        m[i][nin] = rng.choice(["0", "1", "-5/2", "1/65536"])
    m.append(["0"] * nin + ["1"])
    layout = rng.choice(["c", "c", "f", "neg", "f32", "list"])
    a = np.array([[float(Fraction(v)) for v in row] for row in m])
    if layout == "f":
        a = np.asfortranarray(a)
    elif layout == "neg":
        a = a[::-1, ::-1].copy()[::-1, ::-1]
    elif layout == "f32":
        a = a.astype(np.float32)         # every generated entry is a small dyadic: exact in float32
    arg = a.tolist() if layout == "list" else a
    lines, impl = [], []
    snap = Snapshot(a=a)
    pairs = [(i, o) for i in range(nin) for o in range(nout)]
    rng.shuffle(pairs)
    oracle = None
    for i, o in pairs[:4]:
        for az in (True, False):
            try:
                v = "true" if bool(cm.orth_axes(i, o, arg, az)) else "false"
                if az and bool(cm.orth_axes(i, o, arg)) != (v == "true"):
                    oracle = "orth_axes: the default of allow_zero is not True"
            except Exception as e:       # noqa: BLE001
                v = _err(e)
            lines.append(f"w4 orth {nout + 1} {nin + 1} " + " ".join(fr(Fraction(x)) for row in m for x in row)
                         + f" {i} {o} {1 if az else 0}")
            impl.append({"status": "txt", "txt": v})
    return {"lines": lines, "impl": impl, "oracle": oracle, "nontrivial": True,
            "tags": ["w4-orth", "w4-orth:" + layout], "mutated": snap.changed()}


def _pick_space(rng):
    return rng.choice(SPACE_NAMES + SPACE_NAMES + OTHER_NAMES)


def _run_space(rng):
    from nipy.core.reference import spaces as S
    from nipy.core.reference.coordinate_system import CoordinateSystem
    import nipy.core.reference.coordinate_map as cm
    lines, impl, oracle = [], [], None
    a, b = _pick_space(rng), _pick_space(rng)
    sa, sb = S.XYZSpace(a), S.XYZSpace(b)
    lines.append(f"w4 xyznames {_enc(a)}")
    impl.append({"status": "txt", "txt": " ".join(_enc(x) for x in sa.as_tuple())})
    if (sa.x, sa.y, sa.z) != tuple(sa.as_tuple()) or sa.as_map() != dict(zip("xyz", sa.as_tuple())):
        oracle = "XYZSpace: x / y / z, as_tuple and as_map disagree"
    lines.append(f"w4 speq {_enc(a)} {_enc(b)}")
    impl.append({"status": "txt", "txt": "true" if sa == sb else "false"})
    if (sa == sb) == (sa != sb) or sa == 3 or not S.is_xyz_space(sa) or S.is_xyz_space(a):
        oracle = oracle or "XYZSpace: == / != / is_xyz_space are inconsistent"
    # an object in some spaces: names drawn from the xyz names of one or two spaces plus extras, shuffled
    srcs = rng.sample(SPACE_NAMES + OTHER_NAMES[:2], rng.choice([1, 1, 2, 2, 3]))
    names = []
    for k_, src in enumerate(srcs):
        names += _xyz(src)[: 3 if (k_ > 0 or rng.random() < 0.8) else 2]
    names += rng.sample(["t", "u", "i", "x"], rng.randint(0, 2))
    names = list(dict.fromkeys(names))
    rng.shuffle(names)
    # the spaces asked about: the sources (so that several may contain the object) among others, any order
    spaces = [s_ for s_ in srcs if rng.random() < 0.8] + \
        [rng.choice(SPACE_NAMES + OTHER_NAMES[:2]) for _ in range(rng.randint(0, 2))]
    rng.shuffle(spaces)
    cs = CoordinateSystem(names, "obj")
    obj_kind = rng.choice(["cs", "affine", "cmap"])
    if obj_kind == "cs":
        obj = cs
    else:
        dom = CoordinateSystem([f"d{j}" for j in range(len(names))], "dom")
        obj = cm.AffineTransform(dom, cs, np.eye(len(names) + 1))
        if obj_kind == "cmap":
            obj = cm._as_coordinate_map(obj)
    sp = S.XYZSpace(a)
    inside = obj in sp
    ks = S.known_space(obj, [S.XYZSpace(s) for s in spaces])
    lines.append(f"w4 inspace {_enc(a)} {_strs(names)} {_strs(spaces)}")
    impl.append({"status": "txt", "txt": f"in {'true' if inside else 'false'} known "
                 f"{'none' if ks is None else _enc(ks.name)}"})
    if ks is not None and obj not in ks:
        oracle = oracle or "known_space returned a space that does not contain the object"
    # the module-level registry: every standard space is known, its maker gives its names
    std = rng.choice(SPACE_NAMES)
    sp = getattr(S, std + "_space")
    mk = getattr(S, std + "_csm")
    if sp not in S.known_spaces or list(mk(3).coord_names) != _xyz(std) or \
       any(S.known_names.get(n) != c for n, c in zip(_xyz(std), "xyz")):
        oracle = oracle or f"the standard space {std!r} is not registered with its x / y / z names"
    return {"lines": lines, "impl": impl, "oracle": oracle, "nontrivial": True, "tags": ["w4-space"], "mutated": None}


def _run_world(rng):
    from nipy.core.reference import spaces as S
    from nipy.core.reference.coordinate_system import CoordinateSystem, CoordSysMaker
    ndim = rng.choice([0, 1, 2, 3, 3, 4, 4, 5, 7, 8])
    extras = rng.choice([list("tuvw"), list("tuvw"), ["t"], [], ["t", "t"], ["time", "mni-x=L->R"], list("abcdefg")])
    k = rng.random()
    spaces = None if k < 0.5 else [rng.choice(SPACE_NAMES + OTHER_NAMES[:2]) for _ in range(rng.randint(0, 3))]
    sp_names = SPACE_NAMES if spaces is None else spaces
    w = rng.choice(["cs", "str", "str", "space", "maker", "other"])
    if w == "cs":
        n = rng.choice([ndim, ndim, max(0, ndim - 1), ndim + 1])
        names = [f"c{j}" for j in range(n)]
        dt = rng.choice(["f8", "f4", "i8"])
        obj = CoordinateSystem(names, "given", {"f8": np.float64, "f4": np.float32, "i8": np.int64}[dt])
        wtxt = f"cs {_enc('given')} {dt} {_strs(names)}"
    elif w == "str":
        s = rng.choice(sp_names + SPACE_NAMES[:2] + OTHER_NAMES[:3]) if sp_names else rng.choice(SPACE_NAMES)
        obj = s
        wtxt = f"str {_enc(s)}"
    elif w == "space":
        s = _pick_space(rng)
        obj = S.XYZSpace(s)
        wtxt = f"space {_enc(s)}"
    elif w == "maker":
        names = rng.choice([list("xyzt"), list("ijklmnop"), ["a"], [], ["a", "a", "b"]])
        obj = CoordSysMaker(names, "mk")
        wtxt = f"maker {_enc('mk')} f8 {_strs(names)}"
    else:
        obj = rng.choice([3, 2.5, None, ("mni",)])
        wtxt = "other"
    kwargs = {}
    if extras != list("tuvw") or rng.random() < 0.3:
        kwargs["extras"] = rng.choice([tuple(extras), "".join(extras)]) if all(len(e) == 1 for e in extras) else tuple(extras)
    if spaces is not None:
        kwargs["spaces"] = [S.XYZSpace(s) for s in spaces]
    oracle = None
    try:
        with warnings.catch_warnings():
            warnings.simplefilter("ignore")
            cs = S.get_world_cs(obj, ndim, **kwargs)
        from harness.props.C01 import _cs_obs, _cs_line
        txt = _cs_line(_cs_obs(cs))
        if cs.ndim != ndim:
            oracle = f"get_world_cs(..., ndim={ndim}) returned a {cs.ndim}-dimensional system"
    except Exception as e:       # noqa: BLE001
        txt = _err(e)
    line = f"w4 world {wtxt} {ndim} {_strs(extras)} {_strs(sp_names)}"
    return {"lines": [line], "impl": [{"status": "txt", "txt": txt}], "oracle": oracle, "nontrivial": True,
            "tags": ["w4-world", "w4-world:" + w], "mutated": None}


def _name2xyz(rng, names):
    """a name -> 'x'|'y'|'z' dict (as list of pairs, later pairs win), sometimes the module default"""
    if rng.random() < 0.4:
        return None
    d = []
    pool = list(names) + ["zz", "x"]
    for _ in range(rng.randint(0, 5)):
        d.append((rng.choice(pool), rng.choice("xyz")))
    if rng.random() < 0.6:
        three = rng.sample(list(names), 3) if len(names) >= 3 else []
        d += list(zip(three, "xyz"))
    return d


def _d_txt(d):
    from nipy.core.reference import spaces as S
    pairs = list(S.known_names.items()) if d is None else d
    return f"{len(pairs)}" + "".join(f" {_enc(k)} {'xyz'.index(v)}" for k, v in pairs)


def _gen_names(rng, n):
    sp = rng.choice(SPACE_NAMES)
    base = _xyz(sp)
    r = rng.random()
    if r < 0.15:
        base = base[:2] + _xyz(rng.choice(SPACE_NAMES))[2:]           # mixed spaces
    elif r < 0.25:
        base = base[:2]
    extra = rng.sample(["t", "u", "v", "w", "i", "j", "k"], 4)
    names = (base + extra)[:n] if rng.random() < 0.7 else (extra[: max(0, n - len(base))] + base)[:n]
    if rng.random() < 0.6:
        rng.shuffle(names)
    return list(dict.fromkeys(names))


def _run_xyzorder(rng):
    from nipy.core.reference import spaces as S
    from nipy.core.reference.coordinate_system import CoordinateSystem
    n = rng.choice([1, 2, 3, 3, 4, 4, 5, 6])
    names = _gen_names(rng, n)
    d = _name2xyz(rng, names)
    # two names mapped to one letter give a tie in argsort: the order of tied axes is not specified, avoid
    pairs = dict(S.known_names.items() if d is None else d)
    vals = [pairs[nm] for nm in names if nm in pairs]
    if len(vals) != len(set(vals)):
        d = [(k, v) for k, v in (d or []) if k not in names] + list(zip(names[:3], "xyz")) if len(names) >= 3 else []
    cs = CoordinateSystem(names, "w")
    oracle = None
    try:
        o = S.xyz_order(cs) if d is None else S.xyz_order(cs, dict(d))
        txt = "order " + " ".join(str(int(v)) for v in o)
        pairs = dict(S.known_names.items() if d is None else d)
        if sorted(int(v) for v in o) != list(range(len(names))):
            oracle = f"xyz_order returned {o}, not a permutation of the axes"
        elif [pairs.get(names[int(v)]) for v in o[:3]] != ["x", "y", "z"]:
            oracle = f"xyz_order: the first three axes of {o} are not the x, y, z axes of {names}"
    except Exception as e:       # noqa: BLE001
        txt = _err(e)
    line = f"w4 xyzorder {_strs(names)} {_d_txt(d)}"
    return {"lines": [line], "impl": [{"status": "txt", "txt": txt}], "oracle": oracle, "nontrivial": True,
            "tags": ["w4-xyzorder"], "mutated": None}


def _run_xyzaff(rng):
    from nipy.core.reference import spaces as S
    import nipy.core.reference.coordinate_map as cm
    from harness.props.C01 import _real_map, _raw_line, _ornts
    nin, nout = rng.choice([2, 3, 3, 4, 4, 5]), rng.choice([3, 3, 4, 4, 5])
    sp = rng.choice(SPACE_NAMES)
    r = rng.random()
    rn = _xyz(sp) + rng.sample(["t", "u", "v", "w"], nout - 3)
    if r < 0.15:
        rng.shuffle(rn)                                    # x, y, z not first / not in order
    elif r < 0.22:
        rn[rng.randrange(3)] = "q"                         # one of them missing
    dn = list("ijklm")[:nin]
    lin = [["0"] * nin for _ in range(nout)]
    perm = list(range(min(nin, nout)))
    if rng.random() < 0.5:
        head = perm[:3]
        rng.shuffle(head)
        perm[:3] = head
    if rng.random() < 0.15:
        rng.shuffle(perm)                                  # a spatial axis fed by a late input axis
    for j, i in enumerate(perm):
        lin[i][j] = rng.choice(["1", "2", "-3", "1/2", "4", "-1/4"])
    if rng.random() < 0.4:                                 # shear inside the spatial block
        lin[rng.randrange(min(3, nout))][rng.randrange(min(3, nin))] = rng.choice(["1/4", "-1/2", "1/8"])
    if nin > 3 and rng.random() < 0.35:                    # a dropped input axis leaks into x, y, z
        lin[rng.randrange(3)][rng.randrange(3, nin)] = rng.choice(
            ["1/2", "-1", "1/134217728", "1/67108864", "1/1048576"])
    mat = [lin[i] + [rng.choice(["0", "1", "-5/2", "10", "3/4"])] for i in range(nout)] + [["0"] * nin + ["1"]]
    m = {"dom": {"names": dn, "name": "vox", "dt": "f8"}, "rng": {"names": rn, "name": sp, "dt": "f8"},
         "kind": rng.choice(["float", "float", "int"]) if all("/" not in v for row in mat for v in row) else "float",
         "mat": mat}
    if m["kind"] == "int":
        m["dom"]["dt"] = m["rng"]["dt"] = "i8"
    d = _name2xyz(rng, rn) if rng.random() < 0.3 else None
    real = _real_map(m)
    with warnings.catch_warnings():
        warnings.simplefilter("ignore")
        try:
            orn = _ornts(real.affine, False)
        except Exception:       # noqa: BLE001
            return {"lines": [], "impl": [], "oracle": None, "nontrivial": False, "tags": ["w4-skipped"], "mutated": None}
        snap = Snapshot(aff=real.affine)
        args = () if d is None else (dict(d),)
        oracle = None
        ok = S.is_xyz_affable(real, *args)
        try:
            M = np.asarray(S.xyz_affine(real, *args))
            txt = f"affable {'true' if ok else 'false'} | " + f"{M.shape[0]} {M.shape[1]} " + " ".join(fr(v) for row in M.tolist() for v in row)
            if not ok:
                oracle = "xyz_affine succeeded but is_xyz_affable says False"
            # the extracted 4 x 4 matrix gives the x, y, z of every point, whatever the other coordinates are
            pts = np.array([[rng.choice([0, 1, -2, 3, 7, 64]) for _ in range(nin)] for _ in range(4)], dtype=float)
            full = np.asarray(real(pts.astype(real.function_domain.coord_dtype)), dtype=float)[:, :3]
            mine = pts[:, :3] @ M[:3, :3].T.astype(float) + M[:3, 3].astype(float)
            if not np.allclose(full, mine, rtol=1e-6, atol=1e-5):
                oracle = oracle or (f"xyz_affine accepted the map but its matrix does not give the x, y, z of the point "
                                    f"{pts[0].tolist()}: {mine[0].tolist()} vs {full[0].tolist()}")
        except S.SpaceError as e:
            txt = f"affable {'true' if ok else 'false'} | " + _err(e)
            if ok:
                oracle = "xyz_affine raised but is_xyz_affable says True"
        # a general CoordinateMap has no affine: SpaceTypeError, not affable
        if rng.random() < 0.2:
            g = cm._as_coordinate_map(real)
            try:
                S.xyz_affine(g)
                oracle = oracle or "xyz_affine accepted a general CoordinateMap"
            except S.SpaceTypeError:
                if S.is_xyz_affable(g):
                    oracle = oracle or "is_xyz_affable is True for a general CoordinateMap"
            except Exception as e:       # noqa: BLE001
                oracle = oracle or f"xyz_affine on a general CoordinateMap raised {type(e).__name__}, not SpaceTypeError"
    ontxt = f"{len(orn)}" + "".join(" x" if o is None else f" {o}" for o in orn)
    line = f"w4 xyzaff {_raw_line(m)} {_d_txt(d)} {ontxt}"
    return {"lines": [line], "impl": [{"status": "txt", "txt": txt}], "oracle": oracle, "nontrivial": True,
            "tags": ["w4-xyzaff"], "mutated": snap.changed()}


PRES = ["c", "f", "neg", "tt", "ro", "list", "tuple", "f32", "wide"]


def _present(a, how):
    """the same numbers in another presentation"""
    if how == "f":
        return np.asfortranarray(a)
    if how == "neg":
        return a[::-1, ::-1].copy()[::-1, ::-1]
    if how == "tt":
        return a.T.copy().T
    if how == "ro":
        b = a.copy()
        b.setflags(write=False)
        return b
    if how == "list":
        return a.tolist()
    if how == "tuple":
        return tuple(tuple(r) for r in a.tolist())
    if how == "f32":
        return a.astype(np.float32)
    if how == "wide":                       # a window of a larger array
        big = np.full((a.shape[0] + 2, a.shape[1] + 3), 99.0)
        big[1:-1, 2:-1] = a
        return big[1:-1, 2:-1]
    return a.copy()


def _run_pres(rng):
    """a map is determined by its numbers: the same matrix / points handed over in another layout, dtype or
    container give the same map and the same values, through a history of operations on one object with
    observations in between; nothing the caller handed over is written to"""
    import nipy.core.reference.coordinate_map as cm
    from nipy.core.reference.coordinate_system import CoordinateSystem as CS
    n = rng.randint(1, 4)
    nout = n if rng.random() < 0.7 else rng.randint(1, 4)
    vals = [0, 0, 1, -1, 2, -3, 0.5, 4, -0.25]
    while True:
        lin = np.array([[rng.choice(vals) for _ in range(n)] for _ in range(nout)], dtype=float)
        if nout != n or abs(np.linalg.det(lin)) >= 0.125 or rng.random() < 0.15:
            break
    a = np.zeros((nout + 1, n + 1))
    a[:-1, :-1] = lin
    a[:-1, -1] = [rng.choice([0, 1, -2.5, 10]) for _ in range(nout)]
    a[-1, -1] = 1
    dn, rn = list("ijkl")[:n], list("xyzt")[:nout]
    how_m, how_p = rng.choice(PRES), rng.choice(PRES)
    pts = np.array([[rng.choice([0, 1, -2, 3, 7, 0.5]) for _ in range(n)] for _ in range(rng.choice([1, 3, 4]))])
    base = cm.AffineTransform(CS(dn, "d"), CS(rn, "r"), a.copy())
    arg_m, arg_p = _present(a, how_m), _present(pts, how_p)
    snap = Snapshot(**{k: v for k, v in (("m", arg_m), ("p", arg_p)) if isinstance(v, np.ndarray)})
    oracle = None

    def same(u, v):
        u, v = np.asarray(u, dtype=float), np.asarray(v, dtype=float)
        return u.shape == v.shape and bool(np.allclose(u, v, rtol=1e-6, atol=1e-6))
    try:
        with warnings.catch_warnings():
            warnings.simplefilter("ignore")
            m = cm.AffineTransform(CS(dn, "d"), CS(rn, "r"), arg_m)
            first = np.array(m(arg_p), dtype=float)
            want = np.array(base(pts), dtype=float)
            if not same(m.affine, a) or not same(first, want):
                oracle = f"the same matrix as {how_m} and the same points as {how_p} give another map / other values"
            # a history on the one object, observations in between
            steps = []
            other = cm.AffineTransform(CS(rn, "r"), CS(rn, "r2"), np.eye(nout + 1) * 2 - np.diag([0] * nout + [1]))
            steps.append(("compose", lambda: cm.compose(other, m), lambda r: same(r(pts), 2 * want)))
            perm = list(range(n))
            rng.shuffle(perm)
            steps.append(("reordered_domain", lambda: m.reordered_domain(perm),
                          lambda r: same(r(pts[:, perm]), want)))
            steps.append(("renamed_range", lambda: m.renamed_range({rn[0]: "q"}), lambda r: same(r(pts), want)))
            twin = cm.AffineTransform(CS([d_ + "2" for d_ in dn], "d"), CS([r_ + "2" for r_ in rn], "r"), a.copy())
            steps.append(("product", lambda: cm.product(m, twin),
                          lambda r: same(r(np.hstack([pts, pts])), np.hstack([want, want]))))
            steps.append(("append_io_dim", lambda: cm.append_io_dim(m, "w", "u", 3, 2),
                          lambda r: same(r(np.hstack([pts, pts[:, :1]]))[:, :-1], want)))
            steps.append(("shifted_domain_origin", lambda: cm.shifted_domain_origin(m, [1] * n, "new"),
                          lambda r: same(r(pts - 1), want)))
            if nout == n and abs(np.linalg.det(lin)) >= 0.125:
                steps.append(("inverse", lambda: m.inverse(), lambda r: r is not None and same(r(want), pts)))
            steps.append(("equivalent", lambda: cm.equivalent(m, base), lambda r: r is True))
            rng.shuffle(steps)
            for name, op, ok in steps[: rng.randint(2, len(steps))]:
                res = op()
                if oracle is None and not ok(res):
                    oracle = f"history on one map ({how_m} matrix): the result of {name} is not what the map's numbers say"
                again = np.array(m(arg_p), dtype=float)
                if oracle is None and (not same(again, first) or not same(m.affine, a)
                                       or list(m.function_domain.coord_names) != dn
                                       or list(m.function_range.coord_names) != rn):
                    oracle = f"history on one map: {name} changed the map it was applied to"
    except Exception as e:       # noqa: BLE001
        oracle = f"a map built from a {how_m} matrix and evaluated on {how_p} points raised {type(e).__name__}: {e}"
    return {"lines": [], "impl": [], "oracle": oracle, "nontrivial": True,
            "tags": ["w4-pres", "w4-pres:m=" + how_m, "w4-pres:p=" + how_p], "mutated": snap.changed()}


def run(case):
    rng = random.Random(case["seed"])
    if case["sub"] == "pres":
        return _run_pres(rng)
    return {"orth": _run_orth, "space": _run_space, "world": _run_world, "xyzorder": _run_xyzorder,
            "xyzaff": _run_xyzaff}[case["sub"]](rng)
