"""Re-compile nipy's plain C kernels from /repo's working tree (gcc) and load
them with ctypes.  Cached by content hash under /verif/.build.

Groups
  registration : joint_histogram.c cubic_spline.c polyaffine.c wichmann_prng.c
  segmentation : mrf.c
  quantile     : quantile.c
  fff          : lib/fff/*.c + lib/lapack_lite/*.c   (pure C, no Python objects)

NumPy-using groups get a shim that defines the PY_ARRAY_UNIQUE_SYMBOL the
sources expect and imports the array API (`verif_import_array`).
Load with ``lib = load("registration")``; functions taking PyArrayObject* are
called with ``ctypes.py_object`` arguments (the library is a PyDLL: GIL held).
``sanitize=True`` builds with clang ASan+UBSan (search aid; needs LD_PRELOAD of
the asan runtime, see ``asan_env``).
"""
from __future__ import annotations

import ctypes
import glob
import hashlib
import os
import subprocess
import sysconfig

import numpy as np

REPO = os.environ.get("NIPY_VERIF_REPO", "/repo")
VERIF = os.path.dirname(os.path.dirname(os.path.abspath(__file__)))
BUILD = os.path.join(VERIF, ".build")

REG = "nipy/algorithms/registration"
SEG = "nipy/algorithms/segmentation"
STA = "nipy/algorithms/statistics"

GROUPS = {
    "registration": dict(
        srcs=[f"{REG}/joint_histogram.c", f"{REG}/cubic_spline.c", f"{REG}/polyaffine.c",
              f"{REG}/wichmann_prng.c"],
        incs=[REG], numpy=True,
        shim='#include "_registration.h"\n'),
    "segmentation": dict(srcs=[f"{SEG}/mrf.c"], incs=[SEG], numpy=True,
                         shim='#include "_segmentation.h"\n'),
    "quantile": dict(srcs=[f"{STA}/quantile.c"], incs=[STA], numpy=False, shim=None, pyinc=True),
    "fff": dict(srcs=["lib/fff/*.c", "lib/lapack_lite/*.c"], incs=["lib/fff", "lib/lapack_lite"],
                numpy=False, shim=None),
}

SHIM_TAIL = r'''
#include <Python.h>
#include <numpy/arrayobject.h>
int verif_import_array(void) { return _import_array(); }
'''


def _files(group):
    out = []
    for pat in GROUPS[group]["srcs"]:
        out += sorted(glob.glob(os.path.join(REPO, pat)))
    return out


def _hash(group, sanitize):
    h = hashlib.sha1()
    g = GROUPS[group]
    for d in g["incs"]:
        for f in sorted(glob.glob(os.path.join(REPO, d, "*.h"))):
            h.update(open(f, "rb").read())
    for f in _files(group):
        h.update(f.encode()); h.update(open(f, "rb").read())
    h.update(repr((sanitize, g["shim"])).encode())
    return h.hexdigest()[:16]


def build(group, sanitize=False):
    g = GROUPS[group]
    os.makedirs(BUILD, exist_ok=True)
    tag = _hash(group, sanitize)
    so = os.path.join(BUILD, f"{group}-{'asan-' if sanitize else ''}{tag}.so")
    if os.path.exists(so):
        return so
    srcs = _files(group)
    incs = [f"-I{os.path.join(REPO, d)}" for d in g["incs"]]
    if g["numpy"] or g.get("pyinc"):
        incs += [f"-I{np.get_include()}", f"-I{sysconfig.get_paths()['include']}"]
    if g["numpy"]:
        shim = os.path.join(BUILD, f"shim-{group}-{tag}-{os.getpid()}.c")
        with open(shim, "w") as f:
            f.write(g["shim"] + SHIM_TAIL)
        srcs = srcs + [shim]
    cc = ["clang", "-fsanitize=address,undefined", "-fno-omit-frame-pointer", "-O1", "-g"] if sanitize \
        else ["gcc", "-O1", "-g"]
    tmp = f"{so}.{os.getpid()}.tmp"   # several workers may build the same group at once
    cmd = cc + ["-fPIC", "-shared", "-w", "-DNPY_NO_DEPRECATED_API=0"] + incs + srcs + ["-lm", "-o", tmp]
    p = subprocess.run(cmd, capture_output=True, text=True)
    if p.returncode != 0:
        raise RuntimeError(f"C build of group {group} failed:\n{p.stderr[-3000:]}")
    os.replace(tmp, so)
    return so


_LOADED = {}


def load(group, sanitize=False):
    sanitize = sanitize or os.environ.get("VERIF_SANITIZE") == "1"
    key = (group, sanitize)
    if key in _LOADED:
        return _LOADED[key]
    so = build(group, sanitize)
    lib = ctypes.PyDLL(so) if GROUPS[group]["numpy"] else ctypes.CDLL(so)
    if GROUPS[group]["numpy"]:
        lib.verif_import_array.restype = ctypes.c_int
        if lib.verif_import_array() != 0:
            raise RuntimeError("numpy C API import failed in shim")
    _LOADED[key] = lib
    return lib


def asan_env():
    """Environment for a subprocess that loads sanitized libraries."""
    out = subprocess.run(["clang", "-print-file-name=libclang_rt.asan-x86_64.so"],
                         capture_output=True, text=True).stdout.strip()
    env = dict(os.environ)
    env["LD_PRELOAD"] = out
    env["ASAN_OPTIONS"] = "detect_leaks=0:abort_on_error=1:halt_on_error=1"
    env["UBSAN_OPTIONS"] = "halt_on_error=1:print_stacktrace=1"
    return env


if __name__ == "__main__":
    import sys
    import time
    for g in (sys.argv[1:] or list(GROUPS)):
        t = time.time()
        print(g, build(g), f"{time.time() - t:.1f}s")
