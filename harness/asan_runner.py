"""Run a property module's cases in-process against ASan/UBSan builds of /repo's C
kernels (cshim honours VERIF_SANITIZE=1).  Started by harness/props/C20.py with
LD_PRELOAD=<asan runtime>.  Prints `CASE <json>` before each case so that the
crashing input is known when the sanitizer aborts the process."""
import importlib
import json
import os
import random
import sys
import warnings

sys.path.insert(0, os.path.dirname(os.path.dirname(os.path.abspath(__file__))))
warnings.filterwarnings("ignore")


def main():
    pid, seed, n = sys.argv[1], int(sys.argv[2]), int(sys.argv[3])
    import harness.overlay  # noqa
    check = importlib.import_module(f"harness.props.{pid}").CHECK
    cases = list(check.generate(random.Random(seed), "quick"))
    random.Random(seed).shuffle(cases)
    k = 0
    for c in cases[:n]:
        print("CASE " + json.dumps(c, default=str), flush=True)
        try:
            check.run_case(c)
        except Exception as e:  # Python-level refusal or harness problem: not a memory error
            print("EXC " + type(e).__name__, flush=True)
        k += 1
    print(f"DONE {k}", flush=True)


if __name__ == "__main__":
    main()
