"""Helpers shared by the property modules: exact-rational text, canonicalisation,
tolerant comparison against the model's exact answer, input-mutation digests."""
from __future__ import annotations

import hashlib
from fractions import Fraction

import numpy as np


def frac(x) -> Fraction:
    """Exact value of a Python/NumPy number (floats are dyadic rationals)."""
    if isinstance(x, Fraction):
        return x
    if isinstance(x, (int, np.integer)):
        return Fraction(int(x))
    if isinstance(x, (float, np.floating)):
        return Fraction(float(x))
    if isinstance(x, str):
        return Fraction(x)
    return Fraction(x)


def fr(x) -> str:
    """Canonical text `p` or `p/q` (matches NipyVerif.fmtRat)."""
    f = frac(x)
    return str(f.numerator) if f.denominator == 1 else f"{f.numerator}/{f.denominator}"


def frs(xs) -> str:
    return " ".join(fr(x) for x in xs)


def plist(xs) -> str:
    """length-prefixed list of rationals"""
    xs = list(xs)
    return f"{len(xs)} " + frs(xs) if xs else "0"


def pmat(m) -> str:
    m = np.asarray(m, dtype=object) if not isinstance(m, np.ndarray) else m
    r, c = m.shape
    return f"{r} {c} " + frs(m.ravel().tolist())


def parse_rats(s: str):
    return [Fraction(t) for t in s.split()] if s.strip() else []


def close(a, b, rtol=1e-9, atol=1e-9) -> bool:
    a = float(a); b = float(b)
    if a == b:
        return True
    return abs(a - b) <= atol + rtol * max(abs(a), abs(b))


def all_close(xs, ys, rtol=1e-9, atol=1e-9) -> bool:
    xs = list(xs); ys = list(ys)
    return len(xs) == len(ys) and all(close(x, y, rtol, atol) for x, y in zip(xs, ys))


def cmp_rats(impl_vals, model_out: str, rtol=1e-9, atol=1e-9):
    """Compare implementation floats with the model's exact rationals."""
    if model_out.startswith(("error", "bad-op")):
        return f"impl returned values, model says {model_out}"
    try:
        mv = parse_rats(model_out)
    except Exception:
        return f"unparsable model output {model_out[:80]!r}"
    iv = list(impl_vals)
    if len(iv) != len(mv):
        return f"length impl={len(iv)} model={len(mv)}"
    for k, (a, b) in enumerate(zip(iv, mv)):
        if not close(a, b, rtol, atol):
            return f"index {k}: impl={float(a)!r} model={float(b)!r}"
    return None


def digest(obj) -> str:
    """Byte-level digest of an argument (arrays, dicts, lists, scalars)."""
    h = hashlib.sha1()

    def go(o):
        if isinstance(o, np.ndarray):
            h.update(str((o.shape, o.dtype.str, o.strides if o.size else ())).encode())
            h.update(np.ascontiguousarray(o).tobytes() if o.dtype != object else repr(o.tolist()).encode())
        elif isinstance(o, dict):
            for k in o:  # order matters too
                go(k); go(o[k])
        elif isinstance(o, (list, tuple)):
            h.update(b"[")
            for x in o:
                go(x)
            h.update(b"]")
        else:
            h.update(repr(o).encode())
    go(obj)
    return h.hexdigest()


class Snapshot:
    """Detect mutation of caller data: ``s = Snapshot(a=arr, d=dict)``; call;
    ``s.changed()`` -> name of the first mutated argument or None."""

    def __init__(self, **kw):
        self.objs = kw
        self.before = {k: digest(v) for k, v in kw.items()}

    def changed(self):
        for k, v in self.objs.items():
            if digest(v) != self.before[k]:
                return k
        return None


def errname(e: BaseException) -> str:
    """Map an exception to the small enum shared with the models."""
    n = type(e).__name__
    table = {"ValueError": "valueError", "AxisError": "axisError", "IndexError": "indexError",
             "KeyError": "keyError", "TypeError": "typeError", "NotImplementedError": "notImplemented",
             "NiftiError": "niftiError", "AttributeError": "attributeError",
             "ZeroDivisionError": "zeroDivision", "LinAlgError": "linalgError"}
    return "error:" + table.get(n, n)
