"""Regenerates /verif/MANIFEST.json from the property modules that exist.
Run: /venv/bin/python -m harness.manifest"""
import importlib
import json
import os
import sys

VERIF = os.path.dirname(os.path.dirname(os.path.abspath(__file__)))
sys.path.insert(0, VERIF)

BASELINE = ("cd /repo && /venv/bin/python -m pytest -ra -q -p no:cacheprovider --timeout=900 "
            "--continue-on-collection-errors")

COMMON_NOTE = ("Trusted: Lean 4.33.0 kernel + Mathlib v4.33.0; axioms limited to propext, Classical.choice, "
               "Quot.sound (audited every run with #print axioms; no sorry/native_decide/bv_decide); the hand-written "
               "model is tied to /repo's working tree by the correspondence check (model driver vs real code on the "
               "same generated inputs) and, where listed, by translators that regenerate Lean tables from the source; "
               "IEEE rounding and NumPy/SciPy/nibabel/sympy internals are parameters of the model. ")


def main():
    props = [json.loads(l) for l in open(os.path.join(VERIF, "properties.jsonl"))]
    checks, na = [], []
    for p in props:
        pid = p["id"]
        path = os.path.join(VERIF, "harness", "props", pid + ".py")
        claimed = open(os.path.join(VERIF, "harness", "claimed.txt")).read().split()
        if not os.path.exists(path) or pid not in claimed:
            na.append({"property_id": pid, "reason": "check under construction in this session (model and theorems not yet committed); not claimed until it runs clean"})
            continue
        mod = importlib.import_module(f"harness.props.{pid}")
        c = mod.CHECK
        checks.append({
            "property_id": pid,
            "quick_cmd": f"./check {pid} quick",
            "thorough_cmd": f"./check {pid} thorough",
            "evidence_file": f"/verif/evidence/{pid}.json",
            "replay_cmd_template": f"./check {pid} --replay {{path}}",
            "engine": "lean4-proof+correspondence",
            "level_claimed": {
                "category": "proof",
                "text": getattr(c, "level_text", "") or (
                    "Lean 4 theorems about an executable model of the anchored code, for all inputs; the model is "
                    "tied to the current source by a differential correspondence check and a property oracle on the real code."),
                "design_ref": f"DESIGN.md §5 {pid}",
            },
            "level_note": COMMON_NOTE + (getattr(c, "level_note", "") or ""),
            "technique": getattr(c, "technique", "Lean 4 machine-checked proof over an executable model + model/implementation correspondence"),
        })
    man = {
        "version": 1,
        "setup_cmd": "/venv/bin/python -m harness.setup",
        "hooks": {
            "guard": "NIPY_VERIF",
            "enable": "no source hooks are needed: checks import /repo's working tree through harness/overlay.py and re-compile /repo's C kernels with gcc; NIPY_VERIF_REPO=<dir> redirects the tree under test",
            "baseline_off_cmd": BASELINE,
            "source_commits": [],
            "add_only": True,
        },
        "engines": [{
            "name": "lean4-proof+correspondence",
            "path": "/verif/lean (Lean 4 models, lemmas, property theorems, drivers) + /verif/harness (Python spine)",
            "serves_properties": [c["property_id"] for c in checks],
            "kind_free_text": "machine-checked proof in Lean 4 over executable models; differential correspondence against the real code; property oracle for concrete replays",
        }],
        "checks": checks,
        "not_applicable": na,
        "notes": "See DESIGN.md. known_findings.json lists recorded genuine defects; fix: commits in /repo are listed there as fixed.",
    }
    with open(os.path.join(VERIF, "MANIFEST.json"), "w") as f:
        json.dump(man, f, indent=1)
    print(f"claimed {len(checks)}, not claimed {len(na)}")


if __name__ == "__main__":
    main()
