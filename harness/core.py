"""Spine of the nipy verification harness.

One property = one module ``harness.props.<ID>`` exposing a subclass instance
``CHECK`` of :class:`PropertyCheck`.  ``run_check`` executes DESIGN.md §2.2:

  1. translators  -> lean/NipyVerif/Gen/*.lean   (tie (a))
  2. lake build of the property's theorem module, axiom + forbidden-token audit
  3. correspondence: model (Lean driver, line protocol) vs implementation
  4. property oracle on the real code over the same cases
  5. decision, replay files, known-findings matching
  6. evidence/<id>.json
"""
from __future__ import annotations

import concurrent.futures as cf
import hashlib
import importlib
import json
import os
import random
import re
import subprocess
import sys
import time
import traceback
from concurrent.futures.process import BrokenProcessPool

VERIF = os.path.dirname(os.path.dirname(os.path.abspath(__file__)))
LEAN_DIR = os.path.join(VERIF, "lean")
REPO = os.environ.get("NIPY_VERIF_REPO", "/repo")
ALLOWED_AXIOMS = {"propext", "Classical.choice", "Quot.sound"}
FORBIDDEN = re.compile(
    r"\bsorry\b|\badmit\b|^\s*axiom\s|native_decide|bv_decide|implemented_by|"
    r"\bunsafe\s|maxHeartbeats\s+0\b", re.M)
NWORKERS = int(os.environ.get("VERIF_JOBS", "16"))


class TieBroken(Exception):
    """A translator could not parse the source shape it expects."""


class PropertyCheck:
    id = "C00"
    title = ""
    #: theorem module(s) (Lean module names) that must build for this property
    lean_modules: list[str] = []
    #: driver file relative to lean/
    driver: str | None = None
    #: non-trivial rule text for the evidence
    rule = ""
    assumptions: list[str] = []
    trusted_base_extra: list[str] = []
    #: known-finding keys this module can classify -> human text
    finding_keys: dict[str, str] = {}

    # ---- tie (a) -----------------------------------------------------
    def translators(self):
        """Return list of (relative lean path, content). Raise TieBroken."""
        return []

    # ---- generation --------------------------------------------------
    def generate(self, rng: random.Random, tier: str):
        raise NotImplementedError

    def corpus(self):
        d = os.path.join(VERIF, "corpus", self.id)
        out = []
        if os.path.isdir(d):
            for f in sorted(os.listdir(d)):
                if f.endswith(".json"):
                    with open(os.path.join(d, f)) as fh:
                        j = json.load(fh)
                    out.extend(j if isinstance(j, list) else [j])
        return out

    # ---- per case (runs in a worker process) -------------------------
    def run_case(self, case) -> dict:
        """Run the real implementation + oracle on one case.

        Returns dict with keys
          lines    : list[str]  model input lines (may be empty)
          impl     : list       canonical implementation observations, one per line
          oracle   : None | str property failure on the real code (concrete)
          nontrivial: bool
          tags     : list[str]  branches / kinds hit
          mutated  : None | str caller data mutated (C20 clause)
        """
        raise NotImplementedError

    def compare(self, case, impl_obs, model_out: str):
        """None if the model's answer matches the implementation's."""
        return None if str(impl_obs) == model_out else f"impl={impl_obs!r} model={model_out!r}"

    def shrink(self, case):
        return []

    def classify(self, case, failure: str):
        """Return a known-finding key for this failure, or None."""
        return None

    def key_of(self, case):
        return json.dumps(case, sort_keys=True, default=str)


# ----------------------------------------------------------------------
# Lean side
# ----------------------------------------------------------------------
def _strip_lean_comments(src: str) -> str:
    out, i, depth, n = [], 0, 0, len(src)
    while i < n:
        if src.startswith("/-", i):
            depth += 1; i += 2; continue
        if depth and src.startswith("-/", i):
            depth -= 1; i += 2; continue
        if depth:
            i += 1; continue
        if src.startswith("--", i):
            j = src.find("\n", i)
            i = n if j < 0 else j
            continue
        out.append(src[i]); i += 1
    return "".join(out)


def lean_sources(modules=None):
    """Lean files to audit: the transitive NipyVerif.* import closure of `modules`
    (all files under lean/NipyVerif when `modules` is None)."""
    if modules is None:
        res = []
        for root, _, files in os.walk(os.path.join(LEAN_DIR, "NipyVerif")):
            for f in files:
                if f.endswith(".lean"):
                    res.append(os.path.join(root, f))
        return sorted(res)
    seen, todo = set(), list(modules)
    while todo:
        m = todo.pop()
        if m in seen:
            continue
        seen.add(m)
        path = os.path.join(LEAN_DIR, m.replace(".", "/") + ".lean")
        if not os.path.exists(path):
            continue
        for mm in re.finditer(r"^\s*import\s+(NipyVerif\.[\w.]+)", _strip_lean_comments(open(path).read()), re.M):
            todo.append(mm.group(1))
    return sorted(os.path.join(LEAN_DIR, m.replace(".", "/") + ".lean") for m in seen
                  if os.path.exists(os.path.join(LEAN_DIR, m.replace(".", "/") + ".lean")))


def forbidden_tokens(modules=None):
    hits = []
    for p in lean_sources(modules):
        txt = _strip_lean_comments(open(p).read())
        for m in FORBIDDEN.finditer(txt):
            hits.append(f"{os.path.relpath(p, LEAN_DIR)}: {m.group(0).strip()}")
    return hits


def theorems_of(module: str):
    """Names of theorems declared in a Props module (with namespace)."""
    path = os.path.join(LEAN_DIR, module.replace(".", "/") + ".lean")
    txt = _strip_lean_comments(open(path).read())
    ns, names = [], []
    for line in txt.splitlines():
        m = re.match(r"\s*namespace\s+(\S+)", line)
        if m:
            ns.append(m.group(1)); continue
        m = re.match(r"\s*end\s+(\S+)", line)
        if m and ns and ns[-1] == m.group(1):
            ns.pop(); continue
        m = re.match(r"\s*(?:@\[[^\]]*\]\s*)?(?:private\s+|protected\s+)?theorem\s+(\S+)", line)
        if m:
            names.append(".".join(ns + [m.group(1)]))
    return names


def run(cmd, cwd=None, timeout=None, inp=None):
    p = subprocess.run(cmd, cwd=cwd, input=inp, capture_output=True, text=True,
                       timeout=timeout)
    return p.returncode, p.stdout, p.stderr


def lake_build(modules, timeout=3000):
    rc, out, err = run(["lake", "build"] + modules, cwd=LEAN_DIR, timeout=timeout)
    return rc == 0, (out + err)


def audit_axioms(check: PropertyCheck):
    """Generate and elaborate the audit file; returns (theorems, bad, log)."""
    thms = []
    for m in check.lean_modules:
        thms += theorems_of(m)
    lines = [f"import {m}" for m in check.lean_modules]
    lines += [f"#print axioms {t}" for t in thms]
    rel = f"NipyVerif/Gen/Audit{check.id}.lean"
    path = os.path.join(LEAN_DIR, rel)
    os.makedirs(os.path.dirname(path), exist_ok=True)
    content = "\n".join(lines) + "\n"
    if not os.path.exists(path) or open(path).read() != content:
        open(path, "w").write(content)
    rc, out, err = run(["lake", "env", "lean", rel], cwd=LEAN_DIR, timeout=1800)
    log = out + err
    bad = []
    if rc != 0:
        bad.append("audit file failed to elaborate")
    seen = {}
    for m in re.finditer(r"'([^']+)' depends on axioms: \[([^\]]*)\]", log, re.S):
        seen[m.group(1)] = {a.strip() for a in m.group(2).replace("\n", " ").split(",") if a.strip()}
    for m in re.finditer(r"'([^']+)' does not depend on any axioms", log):
        seen[m.group(1)] = set()
    for t in thms:
        if t not in seen:
            bad.append(f"{t}: no axiom report")
        elif not seen[t] <= ALLOWED_AXIOMS:
            bad.append(f"{t}: axioms {sorted(seen[t] - ALLOWED_AXIOMS)}")
    return thms, bad, log


def sync_lakefile():
    """lakefile.toml lists one native driver executable per Drivers/*.lean."""
    drivers = sorted(f[:-5] for f in os.listdir(os.path.join(LEAN_DIR, "Drivers")) if f.endswith(".lean"))
    txt = ('name = "NipyVerif"\nversion = "0.1.0"\ndefaultTargets = ["NipyVerif"]\n\n'
           '[[lean_lib]]\nname = "NipyVerif"\n')
    for d in drivers:
        txt += f'\n[[lean_exe]]\nname = "drv{d}"\nroot = "Drivers.{d}"\n'
    p = os.path.join(LEAN_DIR, "lakefile.toml")
    if not os.path.exists(p) or open(p).read() != txt:
        open(p, "w").write(txt)


_DRIVER_BIN = {}


def driver_cmd(driver):
    """Native executable of the (Mathlib-free) driver; interpreter as fallback."""
    if driver in _DRIVER_BIN:
        return _DRIVER_BIN[driver]
    name = "drv" + os.path.basename(driver)[:-5]
    cmd = ["lake", "env", "lean", "--run", driver]
    if os.environ.get("VERIF_INTERPRET") != "1":
        sync_lakefile()
        rc, out, err = run(["lake", "build", name], cwd=LEAN_DIR, timeout=3000)
        binp = os.path.join(LEAN_DIR, ".lake", "build", "bin", name)
        if rc == 0 and os.path.exists(binp):
            cmd = [binp]
    _DRIVER_BIN[driver] = cmd
    return cmd


def run_driver(driver, lines, timeout=3000):
    if not lines:
        return []
    cmd = driver_cmd(driver)
    # split the work over several driver processes
    nproc = max(1, min(NWORKERS, len(lines) // 8))
    chunks = [lines[i::nproc] for i in range(nproc)]
    outs = [None] * nproc

    def one(k):
        inp = "\n".join(chunks[k]) + "\n"
        rc, out, err = run(cmd, cwd=LEAN_DIR, timeout=timeout, inp=inp)
        if rc != 0:
            raise RuntimeError(f"lean driver failed rc={rc}: {err[-2000:]}")
        res = out.split("\n")
        if res and res[-1] == "":
            res.pop()
        if len(res) != len(chunks[k]):
            raise RuntimeError(f"driver returned {len(res)} lines for {len(chunks[k])} inputs: {err[-500:]}")
        return res

    with cf.ThreadPoolExecutor(max_workers=nproc) as ex:
        outs = list(ex.map(one, range(nproc)))
    res = [None] * len(lines)
    for k in range(nproc):
        res[k::nproc] = outs[k]
    return res


# ----------------------------------------------------------------------
# workers
# ----------------------------------------------------------------------
_CHECK = None


def _init_worker(mod):
    global _CHECK
    import warnings
    warnings.filterwarnings("ignore")
    os.environ.setdefault("OMP_NUM_THREADS", "1")
    os.environ.setdefault("OPENBLAS_NUM_THREADS", "1")
    sys.path.insert(0, VERIF)
    import harness.overlay  # noqa
    _CHECK = importlib.import_module(mod).CHECK


class _CaseAlarm(BaseException):
    """raised by the per-case alarm inside a worker (BaseException: not swallowed by `except Exception`)"""


CASE_ALARM = int(os.environ.get("VERIF_CASE_ALARM", "120"))


CASE_RSS = int(os.environ.get("VERIF_CASE_RSS_MB", "6000"))     # a case whose process grows beyond this is stopped
_CASE_T0 = [0.0]


def _rss_mb():
    try:
        with open("/proc/self/statm") as f:
            return int(f.read().split()[1]) * (os.sysconf("SC_PAGE_SIZE") // 1024) // 1024
    except Exception:
        return 0


def _alarm(signum, frame):
    # periodic (every 10 s while a case runs): stop the case when it has run for CASE_ALARM seconds or the worker
    # has grown beyond CASE_RSS megabytes (a runaway allocation is non-termination seen earlier)
    if time.time() - _CASE_T0[0] >= CASE_ALARM or _rss_mb() > CASE_RSS:
        raise _CaseAlarm()


def _do_case(args):
    i, case = args
    t0 = time.time()
    import signal
    armed = False
    try:
        signal.signal(signal.SIGALRM, _alarm)
        # periodic: an alarm that goes off inside a frame that discards exceptions (a `__del__`, a bare
        # `except:` in a retry loop, a C call-back) is raised again every 10 s until the case is left
        _CASE_T0[0] = t0
        signal.setitimer(signal.ITIMER_REAL, 10, 10)
        armed = True
    except Exception:      # not in a main thread / no SIGALRM: fall back to the pool time-out
        pass
    try:
        r = _CHECK.run_case(case)
    except _CaseAlarm:
        # a routine that does not terminate on an input the property covers is a failure of the property
        # (reported with this case as the replay), not an infrastructure problem
        r = {"lines": [], "impl": [], "nontrivial": True, "tags": ["did-not-terminate"], "mutated": None,
             "oracle": f"the routines under test did not terminate within {CASE_ALARM} s (or grew beyond "
                       f"{CASE_RSS} MB) on this case"}
    except Exception:  # harness bug or unexpected impl exception not caught by module
        r = {"lines": [], "impl": [], "oracle": None, "nontrivial": False,
             "tags": ["harness-exception"], "mutated": None,
             "error": traceback.format_exc()[-3000:]}
    finally:
        if armed:
            try:
                signal.setitimer(signal.ITIMER_REAL, 0)
            except Exception:
                pass
    r.setdefault("lines", []); r.setdefault("impl", []); r.setdefault("oracle", None)
    r.setdefault("nontrivial", True); r.setdefault("tags", []); r.setdefault("mutated", None)
    r["dt"] = time.time() - t0
    return i, r


_POOLS = {}
CASE_TIMEOUT = int(os.environ.get("VERIF_CASE_TIMEOUT", "900"))


def _get_pool(mod, jobs):
    key = (mod, jobs)
    ex = _POOLS.get(key)
    if ex is None:
        ex = cf.ProcessPoolExecutor(max_workers=jobs, initializer=_init_worker, initargs=(mod,))
        _POOLS[key] = ex
    return ex


def _drop_pool(mod, jobs):
    ex = _POOLS.pop((mod, jobs), None)
    if ex is not None:
        _kill(ex)


def _kill(ex):
    try:
        for p in list(getattr(ex, "_processes", {}).values()):
            p.kill()
    except Exception:
        pass
    try:
        ex.shutdown(wait=False, cancel_futures=True)
    except Exception:
        pass


def shutdown_pools():
    for key in list(_POOLS):
        _drop_pool(*key)


_CRASH = {"lines": [], "impl": [], "nontrivial": True, "tags": ["crash"], "mutated": None, "dt": 0,
          "oracle": "interpreter crashed or hung while running this case"}


def _lane(mod, items, results):
    """Sequential lane with a private 1-worker pool: when the worker dies (or a case
    hangs), the culprit is the first case of the lane that has no result yet."""
    pos = 0
    while pos < len(items):
        ex = cf.ProcessPoolExecutor(max_workers=1, initializer=_init_worker, initargs=(mod,))
        futs = [(i, ex.submit(_do_case, (i, c))) for i, c in items[pos:]]
        advanced = len(futs)
        for k, (i, f) in enumerate(futs):
            try:
                _, r = f.result(timeout=CASE_TIMEOUT)
                results[i] = r
            except (BrokenProcessPool, cf.TimeoutError, cf.CancelledError):
                results[i] = dict(_CRASH)
                advanced = k + 1
                break
        _kill(ex)
        pos += advanced


def run_cases(mod, cases, jobs=NWORKERS):
    """Run all cases in worker processes (persistent pool); isolates interpreter crashes."""
    results = [None] * len(cases)
    todo = list(enumerate(cases))
    if not todo:
        return results
    jobs = max(1, jobs)
    try:
        ex = _get_pool(mod, jobs)
        chunk = max(1, min(32, len(todo) // (jobs * 4) or 1))
        for i, r in ex.map(_do_case, todo, chunksize=chunk, timeout=max(CASE_TIMEOUT, 4 * len(todo))):
            results[i] = r
    except (BrokenProcessPool, cf.TimeoutError):
        _drop_pool(mod, jobs)
    missing = [(i, c) for i, c in todo if results[i] is None]
    if missing:
        # isolation mode: parallel sequential lanes, each with its own 1-worker pool
        nl = min(jobs, len(missing))
        lanes = [missing[k::nl] for k in range(nl)]
        with cf.ThreadPoolExecutor(max_workers=nl) as tp:
            list(tp.map(lambda lane: _lane(mod, lane, results), lanes))
    return results


# ----------------------------------------------------------------------
# known findings
# ----------------------------------------------------------------------
def load_findings(pid):
    p = os.path.join(VERIF, "known_findings.json")
    if not os.path.exists(p):
        return {}
    j = json.load(open(p))
    return {f["key"]: f for f in j.get("findings", []) if f["property"] == pid}


# ----------------------------------------------------------------------
# main entry
# ----------------------------------------------------------------------
def write_replay(pid, payload):
    os.makedirs(os.path.join(VERIF, "replays"), exist_ok=True)
    h = hashlib.sha1(json.dumps(payload, sort_keys=True, default=str).encode()).hexdigest()[:12]
    path = os.path.join(VERIF, "replays", f"{pid}-{h}.json")
    with open(path, "w") as f:
        json.dump(payload, f, indent=1, default=str)
    return path


def evaluate(check, mod, cases):
    """Run cases through impl+oracle and model; return per-case verdicts."""
    res = run_cases(mod, cases)
    lines, owner = [], []
    for i, r in enumerate(res):
        for k, ln in enumerate(r["lines"]):
            lines.append(ln); owner.append((i, k))
    model_out = run_driver(check.driver, lines) if (check.driver and lines) else []
    corr = {}
    for (i, k), out in zip(owner, model_out):
        d = check.compare(cases[i], res[i]["impl"][k], out)
        if d is not None and i not in corr:
            corr[i] = f"line {k}: {res[i]['lines'][k][:300]} :: {d[:600]}"
    return res, corr, len(lines)


def shrink_failure(check, mod, case, kind):
    """Greedy shrinking keeping the same kind of failure (oracle / corr)."""
    cur = case
    t0 = time.time()
    budget = float(os.environ.get("VERIF_SHRINK_BUDGET", "75"))
    for _ in range(60):
        if time.time() - t0 > budget:      # time-boxed: a partly shrunk replay is still a replay
            break
        cands = list(check.shrink(cur))[:64]
        if not cands:
            break
        res, corr, _ = evaluate(check, mod, cands)
        nxt = None
        for i, c in enumerate(cands):
            bad = (res[i]["oracle"] is not None) if kind == "oracle" else (i in corr)
            if bad:
                nxt = c; break
        if nxt is None:
            break
        cur = nxt
    return cur


def run_check(pid, tier="quick", replay=None):
    t0 = time.time()
    seed = int(os.environ.get("VERIF_SEED", "0"))
    tier = os.environ.get("VERIF_TIER", tier) if tier is None else tier
    mod = f"harness.props.{pid}"
    sys.path.insert(0, VERIF)
    import harness.overlay  # noqa
    check: PropertyCheck = importlib.import_module(mod).CHECK
    rng = random.Random(seed * 1000003 + int(pid[1:]))
    log = []
    broken = []       # broken proof obligations / ties (names)
    violations = []   # (kind, text, replay-path)
    known_lines = []

    # 1. translators
    try:
        for rel, content in check.translators():
            p = os.path.join(LEAN_DIR, rel)
            os.makedirs(os.path.dirname(p), exist_ok=True)
            if not os.path.exists(p) or open(p).read() != content:
                open(p, "w").write(content)
    except TieBroken as e:
        broken.append(f"translator: {e}")

    # 2. build + audit
    thms, obligations, discharged = [], 0, 0
    if check.lean_modules:
        ok, blog = lake_build(check.lean_modules)
        if not ok:
            errs = [l for l in blog.splitlines() if "error" in l][:20]
            broken.append("lake build failed: " + " | ".join(errs))
        hits = forbidden_tokens(check.lean_modules)
        if hits:
            broken.append("forbidden tokens: " + "; ".join(hits[:10]))
        if ok:
            thms, bad, alog = audit_axioms(check)
            obligations = len(thms)
            discharged = len(thms) - len({b.split(":")[0] for b in bad if ":" in b})
            if bad:
                broken.append("axiom audit: " + "; ".join(bad[:10]))
            if tier == "thorough" and os.environ.get("VERIF_SKIP_LEANCHECKER") != "1":
                rc, o, e = run(["lake", "env", "leanchecker"] + check.lean_modules,
                               cwd=LEAN_DIR, timeout=3000)
                log.append(f"leanchecker rc={rc}")
                if rc != 0:
                    broken.append("leanchecker rejected: " + (o + e)[-400:])
        else:
            try:
                thms = sum((theorems_of(m) for m in check.lean_modules), [])
            except Exception:
                thms = []
            obligations = max(1, len(thms))

    # 3/4. cases
    if replay:
        payload = json.load(open(replay))
        cases = payload["cases"] if "cases" in payload else [payload["case"]]
    else:
        cases = check.corpus() + list(check.generate(rng, tier))
    res, corr, nlines = evaluate(check, mod, cases)

    # widen the search when a tie is broken but no concrete failure is in hand
    def oracle_fail_idx(rs):
        return [i for i, r in enumerate(rs) if r["oracle"] is not None]

    # source fingerprints: which watched files differ from the tree the checks were validated on
    touched = []
    try:
        from harness import fingerprint
        ch = fingerprint.changed(REPO)
        if ch:
            touched = fingerprint.relevant(pid, ch, getattr(check, "watch", ()))
            log.append(f"source differs from fingerprints in {len(ch)} file(s); watched by {pid}: {touched[:6]}")
    except Exception as e:  # never a verdict
        log.append(f"fingerprint comparison unavailable: {e!r}")

    # Widened search (time-boxed): a tie is broken but no concrete failure is in hand, or a
    # watched source file changed and the quick cases found nothing.  More search is never a
    # verdict by itself; it only looks for a concrete failing input.
    if (broken or corr or touched) and not oracle_fail_idx(res) and not replay and tier != "thorough":
        budget = float(os.environ.get("VERIF_WIDEN_BUDGET", "420"))
        tw = time.time()
        extra = list(check.generate(random.Random(seed + 7919), "thorough"))
        random.Random(seed + 104729).shuffle(extra)
        step = max(64, min(2000, len(extra) // 12 or 1))
        done = 0
        while done < len(extra) and time.time() - tw < budget:
            part = extra[done:done + step]
            res2, corr2, nl2 = evaluate(check, mod, part)
            base = len(cases)
            cases = cases + part
            res = res + res2
            for k, v in corr2.items():
                corr[base + k] = v
            nlines += nl2
            done += len(part)
            if oracle_fail_idx(res2) or (corr2 and not (broken or touched)):
                break
        log.append(f"widened search: +{done} of {len(extra)} thorough-tier cases in {time.time() - tw:.0f}s")

    findings = load_findings(pid)
    seen_keys = set()
    harness_errors = [r["error"] for r in res if r.get("error")]
    ofails = oracle_fail_idx(res)
    reported = 0
    for i in ofails:
        key = check.classify(cases[i], res[i]["oracle"])
        if key is not None and key in findings:
            if key not in seen_keys:
                seen_keys.add(key)
                known_lines.append(f"KNOWN-FINDING: property={pid} {findings[key]['what']}")
            continue
        if reported >= 3:
            continue
        small = shrink_failure(check, mod, cases[i], "oracle") if not replay else cases[i]
        r2, _, _ = evaluate(check, mod, [small])
        path = write_replay(pid, {"property": pid, "kind": "oracle", "case": small,
                                  "failure": r2[0]["oracle"] or res[i]["oracle"],
                                  "original_case": cases[i], "seed": seed, "tier": tier})
        violations.append(("oracle", res[i]["oracle"], path))
        reported += 1

    unexplained_corr = {}
    for i, d in corr.items():
        if res[i]["oracle"] is not None:
            continue  # already reported / known through the oracle
        key = check.classify(cases[i], "corr:" + d)
        if key is not None and key in findings:
            if key not in seen_keys:
                seen_keys.add(key)
                known_lines.append(f"KNOWN-FINDING: property={pid} {findings[key]['what']}")
            continue
        unexplained_corr[i] = d

    if not violations and (broken or unexplained_corr):
        payload = {"property": pid, "kind": "tie-broken",
                   "broken_obligations": broken,
                   "correspondence_disagreements": [
                       {"case": cases[i], "diff": d} for i, d in list(unexplained_corr.items())[:5]],
                   "note": "no concrete input violating the property was found on the "
                           "implementation; the property is no longer shown to hold",
                   "seed": seed, "tier": tier}
        if unexplained_corr:
            i0 = next(iter(unexplained_corr))
            payload["case"] = shrink_failure(check, mod, cases[i0], "corr")
            _, c2, _ = evaluate(check, mod, [payload["case"]])
            payload["case_diff"] = c2.get(0, "(shrunk case no longer disagrees; see correspondence_disagreements)")
        path = write_replay(pid, payload)
        violations.append(("tie", "; ".join(broken) or "correspondence disagreement", path))

    # 6. evidence
    keys = set()
    tags = {}
    nontrivial = set()
    for c, r in zip(cases, res):
        k = check.key_of(c)
        keys.add(k)
        if r["nontrivial"]:
            nontrivial.add(k)
        for t in r["tags"]:
            tags[t] = tags.get(t, 0) + 1
    mutated = [r["mutated"] for r in res if r["mutated"]]
    samples = []
    for c, r in list(zip(cases, res))[:: max(1, len(cases) // 4)][:4]:
        samples.append({"case": c, "impl": [str(x)[:200] for x in r["impl"][:3]],
                        "model_lines": [l[:200] for l in r["lines"][:3]]})
    ev = {
        "property_id": pid, "tier": tier, "seed": seed, "level": "proof",
        "coverage": {
            "obligations": max(obligations, 1), "discharged": discharged if not broken else min(discharged, max(obligations, 1) - 1),
            "checker_cmd": f"cd lean && lake build {' '.join(check.lean_modules)} && lake env lean NipyVerif/Gen/Audit{pid}.lean"
                           + (" && lake env leanchecker " + " ".join(check.lean_modules) if tier == "thorough" else ""),
            "trusted_base": ["Lean 4.33.0 kernel", "Mathlib v4.33.0 (compiled in image)",
                             "axioms: propext, Classical.choice, Quot.sound only (audited by #print axioms on every run)",
                             "correspondence harness /verif/harness (generators, canonicalisation, overlay importer, ctypes C shim)",
                             "IEEE-754 rounding, NumPy/SciPy/nibabel/sympy internals (modelled as parameters, see assumptions)"]
                            + list(check.trusted_base_extra),
            "theorems": thms,
            "evaluations": len(cases),
            "distinct_nontrivial": len(nontrivial),
            "rule": check.rule,
            "samples": samples,
            "traces_validated_against_impl": nlines,
            "correspondence_disagreements": len(corr),
            "oracle_failures": len(ofails),
            "known_findings_hit": sorted(seen_keys),
            "branch_histogram": dict(sorted(tags.items())),
            "input_mutations_observed": sorted(set(mutated))[:20],
            "broken_obligations": broken,
            "source_files_changed_vs_fingerprints": touched[:50],
            "exhaustive": False,
        },
        "assumptions": list(check.assumptions),
        "wall_s": round(time.time() - t0, 2),
        "violations": len(violations),
    }
    evdir = os.environ.get("VERIF_EVIDENCE_DIR") or os.path.join(VERIF, "evidence")
    os.makedirs(evdir, exist_ok=True)
    with open(os.path.join(evdir, f"{pid}.json"), "w") as f:
        json.dump(ev, f, indent=1, default=str)

    shutdown_pools()
    for l in log:
        print("#", l)
    print(f"# {pid} tier={tier} seed={seed} cases={len(cases)} nontrivial={len(nontrivial)} "
          f"model-lines={nlines} theorems={obligations} discharged={discharged} "
          f"corr-disagreements={len(corr)} oracle-failures={len(ofails)} wall={ev['wall_s']}s")
    if tags:
        print("# branches:", " ".join(f"{k}={v}" for k, v in sorted(tags.items())))
    for l in known_lines:
        print(l)
    if harness_errors:
        print("# HARNESS ERROR (not a verdict):", harness_errors[0], file=sys.stderr)
        if not violations:
            return 2
    for kind, text, path in violations:
        suffix = " no-failing-input-found" if kind == "tie" else ""
        print(f"# {kind}: {text[:500]}")
        print(f"VIOLATION property={pid} replay={path}{suffix}")
    return 1 if violations else 0
