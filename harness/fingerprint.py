"""Source fingerprints of the tree the checks were last validated on.

`/verif/fingerprints.json` (committed, written only by `python -m harness.fingerprint --write`
after a fix: commit in /repo) maps every source file of nipy (``nipy/**`` and ``lib/**``:
.py .pyx .pxd .pxi .c .h, test directories excluded) to the sha1 of its content at /repo's HEAD.

A check compares the tree under test with it.  A difference is *not* a verdict: it only
decides how much search the quick tier spends (see core.run_check: when a file the property
watches has changed and the quick cases found nothing, the thorough generator is run as
well, time-boxed).  On the unchanged tree nothing differs and nothing extra runs.
"""
from __future__ import annotations

import hashlib
import json
import os
import sys

VERIF = os.path.dirname(os.path.dirname(os.path.abspath(__file__)))
PATH = os.path.join(VERIF, "fingerprints.json")
EXTS = (".py", ".pyx", ".pxd", ".pxi", ".c", ".h")


def scan(repo):
    out = {}
    for top in ("nipy", "lib"):
        for root, dirs, files in os.walk(os.path.join(repo, top)):
            dirs[:] = [d for d in dirs if d not in ("tests", "__pycache__", "build", ".git")]
            for f in files:
                if f.endswith(EXTS):
                    p = os.path.join(root, f)
                    try:
                        with open(p, "rb") as fh:
                            out[os.path.relpath(p, repo)] = hashlib.sha1(fh.read()).hexdigest()
                    except OSError:
                        pass
    return out


def changed(repo):
    """sorted list of source files that differ from the recorded fingerprints
    (None when no fingerprints are recorded)."""
    if not os.path.exists(PATH):
        return None
    ref = json.load(open(PATH))["files"]
    cur = scan(repo)
    return sorted(f for f in set(ref) | set(cur) if ref.get(f) != cur.get(f))


def watch_list(pid):
    """anchors.files of the property (directories are prefixes)."""
    for line in open(os.path.join(VERIF, "properties.jsonl")):
        p = json.loads(line)
        if p["id"] == pid:
            return [f.rstrip("/") for f in p.get("anchors", {}).get("files", [])]
    return []


def relevant(pid, files, extra=()):
    """the changed files this property watches.  A changed file that no property
    watches is relevant to every property (its impact is unknown)."""
    if not files:
        return []
    allw = []
    for line in open(os.path.join(VERIF, "properties.jsonl")):
        allw += [f.rstrip("/") for f in json.loads(line).get("anchors", {}).get("files", [])]
    mine = watch_list(pid) + [e.rstrip("/") for e in extra]

    def hit(f, ws):
        return any(f == w or f.startswith(w + "/") for w in ws)
    if pid == "C20":   # quantifies over every routine exercised by C01-C19
        return list(files)
    return [f for f in files if hit(f, mine) or not hit(f, allw)]


if __name__ == "__main__":
    repo = os.environ.get("NIPY_VERIF_REPO", "/repo")
    if "--write" in sys.argv:
        import subprocess
        head = subprocess.run(["git", "-C", repo, "rev-parse", "HEAD"], capture_output=True, text=True).stdout.strip()
        dirty = subprocess.run(["git", "-C", repo, "status", "--porcelain", "--untracked-files=no"],
                               capture_output=True, text=True).stdout.strip()
        if dirty:
            print("refusing: tracked files of the repository are modified"); sys.exit(1)
        json.dump({"repo_head": head, "files": scan(repo)}, open(PATH, "w"), indent=0, sort_keys=True)
        print("wrote", PATH, head)
    else:
        print(changed(repo))
