"""Overlay importer: nipy's .py modules come from /repo's working tree, only the
compiled extension modules (which this sandbox cannot rebuild: no Cython) come
from the installed copy in site-packages.

Usage:  import harness.overlay  (side effect: installs the finder)  then
        ``import nipy``.

REPO can be redirected with NIPY_VERIF_REPO (used to run checks against a
scratch worktree that carries a seeded change).
"""
import importlib.machinery
import importlib.util
import os
import sys
import sysconfig

REPO = os.environ.get("NIPY_VERIF_REPO", "/repo")
SITE = sysconfig.get_paths()["purelib"]
_EXT_SUFFIXES = tuple(importlib.machinery.EXTENSION_SUFFIXES)


class _Overlay:
    """meta_path finder for ``nipy`` and its submodules."""

    @staticmethod
    def find_spec(fullname, path=None, target=None):
        if fullname != "nipy" and not fullname.startswith("nipy."):
            return None
        parts = fullname.split(".")
        rel = os.path.join(*parts)
        # 1. package or module in the source tree
        pkg_init = os.path.join(REPO, rel, "__init__.py")
        if os.path.isfile(pkg_init):
            spec = importlib.util.spec_from_file_location(
                fullname, pkg_init,
                submodule_search_locations=[os.path.join(REPO, rel),
                                            os.path.join(SITE, rel)])
            return spec
        mod = os.path.join(REPO, rel + ".py")
        if os.path.isfile(mod):
            return importlib.util.spec_from_file_location(fullname, mod)
        # 2. compiled extension from the installed copy
        for suf in _EXT_SUFFIXES:
            so = os.path.join(SITE, rel + suf)
            if os.path.isfile(so):
                return importlib.util.spec_from_file_location(fullname, so)
        return None


def install():
    if not any(isinstance(f, type) and f.__name__ == "_Overlay" for f in sys.meta_path):
        sys.meta_path.insert(0, _Overlay)
    # make sure a stale import of the installed copy is not reused
    for k in [k for k in sys.modules if k == "nipy" or k.startswith("nipy.")]:
        f = getattr(sys.modules[k], "__file__", "") or ""
        if f.startswith(SITE) and not f.endswith(_EXT_SUFFIXES):
            del sys.modules[k]


install()
