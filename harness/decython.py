"""A small "de-cythoniser": turn the *current text* of an algorithmic ``.pyx``
file of /repo into an importable pure-Python module, so that edits of the
``.pyx`` are observable although this sandbox has no Cython.

    from harness.decython import load_pyx
    iv = load_pyx("nipy/algorithms/statistics/intvol.pyx")
    iv.EC3d(mask)

Two phases.

1. text: Cython-only syntax is removed line by line (line count is kept, so
   tracebacks point at the ``.pyx`` line): ``cimport``, ``ctypedef``,
   ``@cython.*`` decorators, ``cdef extern from "math.h"`` blocks, ``cdef`` /
   ``cpdef`` functions (-> ``def`` with untyped signature), typed arguments of
   plain ``def``, ``cdef`` variable declarations and ``cdef:`` blocks,
   ``<type>`` casts, ``nogil``.  Declarations are *recorded* per function.
2. AST: C typing of the recorded variables is emulated.  Every assignment
   (plain, tuple, augmented) to a declared C integer becomes
   ``v = _cint(expr, bits, signed)`` (``int()`` then two's-complement wrap), to
   a C double ``v = float(expr)``, to a typed ``ndarray`` buffer
   ``v = _cbuf(expr, dtype, ndim)`` (dtype/ndim check like Cython's buffer
   acquisition; element reads then give Python scalars, i.e. C scalars that do
   not wrap like NumPy ``uint8``).  Typed arguments are coerced on entry, typed
   returns on exit; inside ``@cython.cdivision(True)`` functions ``/ // %`` get
   C semantics.  ``math.h`` names are bound to C-faithful wrappers of ``math``.

Anything not understood raises :class:`NotUnderstood` — nothing is guessed.
Relative imports of the ``.pyx`` (``from .utils import …``) resolve against
/repo through the overlay importer (``NIPY_VERIF_REPO`` honoured).
"""
from __future__ import annotations

import ast
import importlib
import math
import os
import re
import types

import numpy as np


class NotUnderstood(Exception):
    """The .pyx uses a construct the de-cythoniser does not translate."""


# ---------------------------------------------------------------------------
# C types
# ---------------------------------------------------------------------------
# name (last dotted component) -> ("int", bits, signed) | ("float", bits) | ("bool",) | ("object",)
_BASE = {
    "char": ("int", 8, True), "short": ("int", 16, True), "int": ("int", 32, True),
    "long": ("int", 64, True), "Py_ssize_t": ("int", 64, True), "size_t": ("int", 64, False),
    "ssize_t": ("int", 64, True), "unsigned int": ("int", 32, False), "unsigned long": ("int", 64, False),
    "unsigned char": ("int", 8, False), "long long": ("int", 64, True),
    "int8_t": ("int", 8, True), "int16_t": ("int", 16, True), "int32_t": ("int", 32, True),
    "int64_t": ("int", 64, True), "uint8_t": ("int", 8, False), "uint16_t": ("int", 16, False),
    "uint32_t": ("int", 32, False), "uint64_t": ("int", 64, False),
    "npy_int8": ("int", 8, True), "npy_int16": ("int", 16, True), "npy_int32": ("int", 32, True),
    "npy_int64": ("int", 64, True), "npy_uint8": ("int", 8, False), "npy_uint16": ("int", 16, False),
    "npy_uint32": ("int", 32, False), "npy_uint64": ("int", 64, False),
    "intp_t": ("int", 64, True), "npy_intp": ("int", 64, True), "uintp_t": ("int", 64, False),
    "int_t": ("int", 64, True), "long_t": ("int", 64, True),
    "double": ("float", 64), "float": ("float", 32), "float64_t": ("float", 64),
    "float32_t": ("float", 32), "float_t": ("float", 64), "double_t": ("float", 64),
    "npy_double": ("float", 64), "npy_float64": ("float", 64), "npy_float32": ("float", 32),
    "bint": ("bool",), "object": ("object",),
}
_NP_DTYPE = {("int", 8, True): "int8", ("int", 16, True): "int16", ("int", 32, True): "int32",
             ("int", 64, True): "int64", ("int", 8, False): "uint8", ("int", 16, False): "uint16",
             ("int", 32, False): "uint32", ("int", 64, False): "uint64",
             ("float", 64): "float64", ("float", 32): "float32", ("bool",): "uint8"}

_FORBIDDEN = [
    (r"^\s*cdef\s+class\b", "cdef class"), (r"^\s*c?p?def\s+(struct|union|enum|fused)\b", "struct/union/enum/fused"),
    (r"^\s*ctypedef\s+(struct|union|enum|fused)\b", "ctypedef struct/union/enum/fused"),
    (r"\bsizeof\s*\(", "sizeof"), (r"\bprange\s*\(", "prange"), (r"\bmalloc\s*\(|\bfree\s*\(", "malloc/free"),
    (r"^\s*(DEF|IF|ELIF|ELSE)\b", "compile-time DEF/IF"), (r"^\s*include\s", "include"),
    (r"^\s*cdef\s+(public|api|readonly)\b", "cdef public/api"), (r"\bwith\s+gil\b", "with gil"),
    (r"\[\s*:\s*(,\s*:\s*)*(:\s*1\s*)?\]\s+\w", "typed memoryview declaration"),
    (r"&\s*[A-Za-z_]\w*\s*\[", "address-of"),
]


class _Types:
    def __init__(self):
        self.alias = {}

    def scalar(self, txt):
        """C scalar type descriptor of a type text, or None if it is not a known scalar."""
        t = " ".join(txt.replace("const ", " ").split())
        if t in self.alias:
            return self.alias[t]
        if t in _BASE:
            return _BASE[t]
        last = t.split(".")[-1]
        if "." in t and last in _BASE:
            return _BASE[last]
        return None

    def parse(self, txt, where):
        """-> ("buf", dtype, ndim) | scalar descriptor.  Raises when unknown."""
        t = txt.strip()
        m = re.fullmatch(r"(?:\w+\.)?ndarray\s*\[\s*([\w. ]+?)\s*(?:,\s*ndim\s*=\s*(\d+))?"
                         r"(?:\s*,\s*mode\s*=\s*['\"]\w+['\"])?\s*\]", t)
        if m:
            sc = self.scalar(m.group(1))
            if sc is None or sc[0] == "object":
                raise NotUnderstood(f"{where}: buffer element type {m.group(1)!r}")
            return ("buf", _NP_DTYPE[sc], int(m.group(2) or 1))
        if re.fullmatch(r"(?:\w+\.)?ndarray", t):
            return ("object",)
        if "*" in t or "[" in t or "&" in t:
            raise NotUnderstood(f"{where}: pointer/array/memoryview type {t!r}")
        sc = self.scalar(t)
        if sc is None:
            raise NotUnderstood(f"{where}: unknown C type {t!r}")
        return sc


# ---------------------------------------------------------------------------
# runtime helpers injected into the generated module
# ---------------------------------------------------------------------------
def _cint(v, bits, signed):
    if isinstance(v, (float, np.floating)) and not math.isfinite(v):
        raise OverflowError("cannot convert float infinity/NaN to C integer")
    v = int(v) & ((1 << bits) - 1)
    if signed and v >> (bits - 1):
        v -= 1 << bits
    return v


def _cfloat(v, bits):
    return float(v) if bits == 64 else float(np.float32(v))


def _cbool(v):
    return 1 if v else 0


class _CBuf(np.ndarray):
    """ndarray whose scalar element reads are Python scalars (C scalar semantics)."""

    def __getitem__(self, idx):
        r = np.ndarray.__getitem__(self, idx)
        if isinstance(r, np.generic):
            return r.item()
        return r


def _cbuf(v, dtype, ndim, name="buffer"):
    if v is None:
        return None
    if not isinstance(v, np.ndarray):
        raise TypeError(f"Cannot convert {type(v).__name__} to numpy.ndarray")
    if v.ndim != ndim:
        raise ValueError(f"Buffer has wrong number of dimensions (expected {ndim}, got {v.ndim})")
    want = np.dtype(dtype)
    if not (v.dtype.kind == want.kind and v.dtype.itemsize == want.itemsize) or not v.dtype.isnative:
        raise ValueError(f"Buffer dtype mismatch, expected '{want.name}' but got '{v.dtype.name}'")
    return v.view(_CBuf)


def _cdiv(a, b):
    """C `/` (Cython 3, cdivision=True): IEEE double division; C ints are true-divided."""
    with np.errstate(all="ignore"):
        return float(np.float64(a) / np.float64(b))


def _cfloordiv(a, b):
    if isinstance(a, (int, np.integer)) and isinstance(b, (int, np.integer)):
        q = abs(int(a)) // abs(int(b))          # ZeroDivisionError: C behaviour undefined
        return q if (a >= 0) == (b >= 0) else -q
    with np.errstate(all="ignore"):
        return float(np.floor(np.float64(a) / np.float64(b)))


def _cmod(a, b):
    if isinstance(a, (int, np.integer)) and isinstance(b, (int, np.integer)):
        return int(a) - _cfloordiv(a, b) * int(b)
    with np.errstate(all="ignore"):
        return float(np.fmod(np.float64(a), np.float64(b)))


def _m1(f):
    def g(x):
        with np.errstate(all="ignore"):
            return float(f(np.float64(x)))
    g.__name__ = f.__name__
    return g


# math.h names -> C-faithful callables (NaN instead of ValueError, double results)
_MATH_H = {
    "floor": _m1(np.floor), "ceil": _m1(np.ceil), "sqrt": _m1(np.sqrt), "fabs": _m1(np.fabs),
    "log": _m1(np.log), "log2": _m1(np.log2), "log10": _m1(np.log10), "exp": _m1(np.exp),
    "acos": _m1(np.arccos), "asin": _m1(np.arcsin), "atan": _m1(np.arctan), "cos": _m1(np.cos),
    "sin": _m1(np.sin), "tan": _m1(np.tan), "lgamma": lambda x: float(math.lgamma(x)),
    "isnan": lambda x: 1 if math.isnan(x) else 0, "isinf": lambda x: 1 if math.isinf(x) else 0,
    "pow": lambda x, y: float(np.float_power(np.float64(x), np.float64(y))),
    "atan2": lambda y, x: float(np.arctan2(np.float64(y), np.float64(x))),
    "fmax": lambda x, y: float(np.fmax(x, y)), "fmin": lambda x, y: float(np.fmin(x, y)),
}


# ---------------------------------------------------------------------------
# phase 1: text
# ---------------------------------------------------------------------------
def _strip_comment(line):
    out, q = [], None
    i = 0
    while i < len(line):
        ch = line[i]
        if q:
            if ch == "\\":
                out.append(line[i:i + 2]); i += 2; continue
            if ch == q:
                q = None
        elif ch in "'\"":
            q = ch
        elif ch == "#":
            break
        out.append(ch); i += 1
    return "".join(out).rstrip()


def _depth(s):
    d, q = 0, None
    for i, ch in enumerate(s):
        if q:
            if ch == q and s[i - 1] != "\\":
                q = None
        elif ch in "'\"":
            q = ch
        elif ch in "([{":
            d += 1
        elif ch in ")]}":
            d -= 1
    return d


def _split_top(s, sep=","):
    parts, d, cur = [], 0, []
    for ch in s:
        if ch in "([{":
            d += 1
        elif ch in ")]}":
            d -= 1
        if ch == sep and d == 0:
            parts.append("".join(cur)); cur = []
        else:
            cur.append(ch)
    parts.append("".join(cur))
    return [p.strip() for p in parts if p.strip()]


def _indent(line):
    return len(line) - len(line.lstrip(" "))


_SIG = re.compile(r"^(\s*)(cdef|cpdef|def)\s+(.*?)\(\s*(.*)\)\s*(nogil)?\s*(noexcept)?\s*(nogil)?\s*:\s*$", re.S)


class _Fn:
    def __init__(self, name, lineno, indent):
        self.name, self.lineno, self.indent = name, lineno, indent
        self.args = []      # (name, type descriptor)
        self.ret = None
        self.vars = {}      # name -> descriptor
        self.cdivision = False


def _eq_top(s):
    """index of the first top-level `=` (not ==, <=, >=, !=), or -1"""
    d = 0
    for i, ch in enumerate(s):
        if ch in "([{":
            d += 1
        elif ch in ")]}":
            d -= 1
        elif ch == "=" and d == 0:
            if s[i + 1:i + 2] == "=" or (i and s[i - 1] in "=<>!"):
                continue
            return i
    return -1


def _parse_decl(body, types, where):
    """`TYPE a, b = init, c` -> (descriptor, [(name, init|None)])."""
    items = _split_top(body)
    first = items[0]
    e0 = _eq_top(first)
    lhs = (first if e0 < 0 else first[:e0]).rstrip()
    m = re.match(r"^(.*?)([A-Za-z_]\w*)$", lhs, re.S)
    if not m or not m.group(1).strip():
        raise NotUnderstood(f"{where}: cannot parse declaration {body!r}")
    desc = types.parse(m.group(1), where)
    names = []
    for k, it in enumerate(items):
        txt = it[len(m.group(1)):] if k == 0 else it
        e = _eq_top(txt)
        if e >= 0:
            n, init = txt[:e], txt[e + 1:]
            names.append((n.strip(), init.strip()))
        else:
            names.append((txt.strip(), None))
    for n, _ in names:
        if not re.fullmatch(r"[A-Za-z_]\w*", n):
            raise NotUnderstood(f"{where}: cannot parse declared name {n!r} in {body!r}")
    return desc, names


def _conv_src(desc, expr, name="buffer"):
    k = desc[0]
    if k == "int":
        return f"_cint({expr}, {desc[1]}, {desc[2]})"
    if k == "float":
        return f"_cfloat({expr}, {desc[1]})"
    if k == "bool":
        return f"_cbool({expr})"
    if k == "buf":
        return f"_cbuf({expr}, {desc[1]!r}, {desc[2]}, {name!r})"
    return expr


def _casts(code, types, where):
    """`<T>primary` -> conversion call.  Only when `<` cannot be a comparison."""
    out, i = [], 0
    while True:
        m = re.search(r"<\s*([A-Za-z_][\w. ]*?)\s*>", code[i:])
        if not m:
            out.append(code[i:]); break
        s, e = i + m.start(), i + m.end()
        before = code[:s].rstrip()
        is_cast = (not before) or before[-1] in "=(,[+-*/%:<>&|~" or before.endswith(("return", " in", " not", " and", " or", " if", " else"))
        desc = types.scalar(m.group(1)) if is_cast else None
        if desc is None:
            out.append(code[i:e]); i = e; continue
        j = e
        while j < len(code) and code[j] == " ":
            j += 1
        k = j
        if k < len(code) and code[k] == "(":
            d = 0
            while k < len(code):
                d += code[k] in "([{"; d -= code[k] in ")]}"
                k += 1
                if d == 0:
                    break
        else:
            mm = re.match(r"[A-Za-z_]\w*|\d+\.?\d*(?:[eE][-+]?\d+)?", code[k:])
            if not mm:
                raise NotUnderstood(f"{where}: operand of cast <{m.group(1)}> in {code!r}")
            k += mm.end()
        while k < len(code) and code[k] in ".([":
            if code[k] == ".":
                mm = re.match(r"\.[A-Za-z_]\w*", code[k:])
                if not mm:
                    break
                k += mm.end()
            else:
                d = 0
                while k < len(code):
                    d += code[k] in "([{"; d -= code[k] in ")]}"
                    k += 1
                    if d == 0:
                        break
        out.append(code[i:s] + _conv_src(desc, "(" + code[j:k] + ")"))
        i = k
    return "".join(out)


def translate(src: str, relpath="<pyx>"):
    """-> (python source with the same line numbering, [_Fn], extern names)."""
    types = _Types()
    lines = src.split("\n")
    n = len(lines)
    out = [""] * n
    fns, externs = [], {}
    pending = {"cdivision": False}
    stack = []           # enclosing _Fn by indentation
    in_doc = None
    i = 0

    def where(k):
        return f"{relpath}:{k + 1}"

    def cur_fn(ind):
        while stack and stack[-1].indent >= ind:
            stack.pop()
        return stack[-1] if stack else None

    def declare(fn, desc, names, k, ind):
        stmts = []
        for nm, init in names:
            if fn is not None:
                if nm in fn.vars and fn.vars[nm] != desc:
                    raise NotUnderstood(f"{where(k)}: {nm} redeclared with another type")
                fn.vars[nm] = desc
            else:
                module_vars[nm] = desc
            if init is not None:
                if re.search(r"<\s*[A-Za-z_][\w. ]*\s*>", init):
                    init = _casts(init, types, where(k))
                stmts.append(f"{nm} = {_conv_src(desc, '(' + init + ')', nm)}")
        return " " * ind + "; ".join(stmts) if stmts else ""

    module_vars = {}
    while i < n:
        raw = lines[i]
        # ---- docstrings / triple-quoted strings pass through
        if in_doc:
            out[i] = raw
            if in_doc in raw:
                in_doc = None
            i += 1; continue
        stripped = raw.strip()
        for q in ('"""', "'''"):
            if q in raw and _strip_comment(raw).count(q) % 2 == 1:
                in_doc = q
        if in_doc:
            out[i] = raw; i += 1; continue
        code = _strip_comment(raw)
        if not code.strip():
            out[i] = raw; i += 1; continue
        for pat, what in _FORBIDDEN:
            if re.search(pat, code):
                raise NotUnderstood(f"{where(i)}: {what}: {stripped!r}")
        ind = _indent(code)
        body = code.strip()
        # ---- logical line (brackets / backslash continuation)
        j = i
        logical = code
        while (logical.rstrip().endswith("\\") or _depth(logical) > 0) and j + 1 < n:
            j += 1
            nxt = _strip_comment(lines[j])
            logical = (logical.rstrip()[:-1] if logical.rstrip().endswith("\\") else logical) + " " + nxt.strip()
        lbody = logical.strip()

        # ---- cimport / ctypedef / decorators
        if re.match(r"(cimport\s|from\s+\S+\s+cimport\s)", lbody):
            m = re.match(r"from\s+libc\.math\s+cimport\s+(.*)", lbody)
            if m:
                for nm in _split_top(m.group(1).strip("() ")):
                    nm = nm.split(" as ")[-1].strip() if " as " in nm else nm
                    base = nm
                    if base not in _MATH_H:
                        raise NotUnderstood(f"{where(i)}: libc.math name {base!r}")
                    externs[nm] = base
            elif re.match(r"from\s+(libc|libcpp|cpython|posix)\b", lbody):
                raise NotUnderstood(f"{where(i)}: cimport of C library names: {lbody!r}")
            i = j + 1; continue
        m = re.match(r"ctypedef\s+(.*?)\s+([A-Za-z_]\w*)$", lbody)
        if m:
            desc = types.parse(m.group(1), where(i))
            if desc[0] == "buf":
                raise NotUnderstood(f"{where(i)}: ctypedef of a buffer type")
            types.alias[m.group(2)] = desc
            i = j + 1; continue
        if lbody.startswith("@cython.") or lbody.startswith("@cython "):
            m = re.match(r"@cython\.(\w+)\s*\(\s*(\w+)\s*\)$", lbody)
            if not m or m.group(1) not in ("boundscheck", "wraparound", "cdivision", "nonecheck",
                                           "initializedcheck", "profile", "embedsignature", "infer_types"):
                raise NotUnderstood(f"{where(i)}: decorator {lbody!r}")
            if m.group(1) == "cdivision":
                pending["cdivision"] = (m.group(2) == "True")
            if m.group(1) == "wraparound" and m.group(2) == "False":
                pending["nowrap"] = True
            i = j + 1; continue

        # ---- cdef extern block
        m = re.match(r"cdef\s+extern\s+from\s+['\"]([^'\"]+)['\"]\s*(nogil)?\s*:$", lbody)
        if m:
            if m.group(1) not in ("math.h",):
                raise NotUnderstood(f"{where(i)}: cdef extern from {m.group(1)!r}")
            k = j + 1
            while k < n and (not lines[k].strip() or _indent(lines[k]) > ind):
                d = _strip_comment(lines[k]).strip()
                if d and d != "pass":
                    mm = re.match(r"[\w ]+?\s+\*?([A-Za-z_]\w*)\s*\(.*\)\s*(nogil)?$", d)
                    if not mm or mm.group(1) not in _MATH_H:
                        raise NotUnderstood(f"{where(k)}: extern declaration {d!r}")
                    externs[mm.group(1)] = mm.group(1)
                k += 1
            i = k; continue

        # ---- cdef: block
        if re.fullmatch(r"cdef\s*:", lbody):
            fn = cur_fn(ind)
            k = j + 1
            while k < n and (not lines[k].strip() or _indent(lines[k]) > ind):
                d = _strip_comment(lines[k]).strip()
                if d:
                    if _depth(d) != 0:
                        raise NotUnderstood(f"{where(k)}: multi-line declaration in cdef block")
                    desc, names = _parse_decl(d, types, where(k))
                    out[k] = declare(fn, desc, names, k, ind)
                k += 1
            i = k; continue

        # ---- function signatures
        msig = _SIG.match(" " * ind + lbody) if re.match(r"(cdef|cpdef|def)\s", lbody) and lbody.endswith(":") else None
        if msig and "(" in lbody:
            kind, head, argtxt = msig.group(2), msig.group(3).strip(), msig.group(4)
            if re.search(r"\bexcept\b", lbody.rsplit(")", 1)[-1]):
                raise NotUnderstood(f"{where(i)}: except clause in signature")
            toks = head.split()
            name = toks[-1]
            if not re.fullmatch(r"[A-Za-z_]\w*", name):
                raise NotUnderstood(f"{where(i)}: function name in {lbody!r}")
            rtoks = [t for t in toks[:-1] if t not in ("inline", "static")]
            fn = _Fn(name, i + 1, ind)
            if kind == "def" and rtoks:
                raise NotUnderstood(f"{where(i)}: typed def {lbody!r}")
            if rtoks:
                fn.ret = types.parse(" ".join(rtoks), where(i))
                if fn.ret[0] == "buf":
                    raise NotUnderstood(f"{where(i)}: buffer return type")
            pyargs = []
            for a in _split_top(argtxt):
                default = None
                if _eq_top(a) >= 0:
                    a, default = a[:_eq_top(a)].strip(), a[_eq_top(a) + 1:].strip()
                a = re.sub(r"\s+not\s+None$", "", a)
                mm = re.match(r"^(.*?)(\*{0,2}[A-Za-z_]\w*)$", a, re.S)
                if not mm:
                    raise NotUnderstood(f"{where(i)}: argument {a!r}")
                tp, nm = mm.group(1).strip(), mm.group(2)
                if tp:
                    fn.args.append((nm, types.parse(tp, where(i))))
                pyargs.append(nm + (f"={default}" if default is not None else ""))
            fn.cdivision = pending.get("cdivision", False)
            pending.clear(); pending["cdivision"] = False
            cur_fn(ind)
            stack.append(fn); fns.append(fn)
            out[i] = " " * ind + f"def {name}({', '.join(pyargs)}):"
            i = j + 1; continue
        if pending.get("cdivision") and not lbody.startswith("@"):
            raise NotUnderstood(f"{where(i)}: @cython.cdivision not followed by a function")

        # ---- single-line cdef declarations
        if re.match(r"cdef\s", lbody):
            if j != i:
                raise NotUnderstood(f"{where(i)}: multi-line cdef declaration")
            desc, names = _parse_decl(lbody[4:].strip(), types, where(i))
            out[i] = declare(cur_fn(ind), desc, names, i, ind)
            i += 1; continue
        if re.match(r"cpdef\s", lbody):
            raise NotUnderstood(f"{where(i)}: {lbody!r}")

        # ---- ordinary code lines: keep physical lines, strip nogil / casts
        cur_fn(ind)
        for k in range(i, j + 1):
            ln = lines[k]
            c = _strip_comment(ln)
            if re.match(r"\s*with\s+nogil\s*:\s*$", c):
                ln = " " * _indent(c) + "if True:"
            elif re.search(r"<\s*[A-Za-z_][\w. ]*\s*>", c):
                ln = _casts(c, types, where(k))
            out[k] = ln
        i = j + 1
    if in_doc:
        raise NotUnderstood(f"{relpath}: unterminated triple-quoted string")
    return "\n".join(out), fns, externs


# ---------------------------------------------------------------------------
# phase 2: AST
# ---------------------------------------------------------------------------
def _call(name, *args):
    return ast.Call(func=ast.Name(id=name, ctx=ast.Load()), args=list(args), keywords=[])


def _conv_ast(desc, value, name="buffer"):
    k = desc[0]
    c = ast.Constant
    if k == "int":
        return _call("_cint", value, c(desc[1]), c(desc[2]))
    if k == "float":
        return _call("_cfloat", value, c(desc[1]))
    if k == "bool":
        return _call("_cbool", value)
    if k == "buf":
        return _call("_cbuf", value, c(desc[1]), c(desc[2]), c(name))
    return value


class _Typer(ast.NodeTransformer):
    def __init__(self, fn: _Fn, relpath):
        self.fn, self.relpath = fn, relpath
        self.types = dict(fn.vars)
        for nm, d in fn.args:
            self.types[nm.lstrip("*")] = d

    def _w(self, node):
        return f"{self.relpath}:{getattr(node, 'lineno', '?')}"

    def visit_FunctionDef(self, node):
        if node.lineno != self.fn.lineno:   # nested function: its own scope, left untyped
            return node
        self.generic_visit(node)
        pre = [ast.Assign(targets=[ast.Name(id=nm, ctx=ast.Store())],
                          value=_conv_ast(d, ast.Name(id=nm, ctx=ast.Load()), nm))
               for nm, d in self.fn.args if d[0] != "object"]
        k = 1 if (node.body and isinstance(node.body[0], ast.Expr)
                  and isinstance(getattr(node.body[0], "value", None), ast.Constant)
                  and isinstance(node.body[0].value.value, str)) else 0
        node.body[k:k] = pre
        return node

    visit_AsyncFunctionDef = visit_FunctionDef

    def visit_Lambda(self, node):
        return node

    def visit_Assign(self, node):
        self.generic_visit(node)
        if len(node.targets) != 1:
            if any(isinstance(t, ast.Name) and t.id in self.types for t in node.targets):
                raise NotUnderstood(f"{self._w(node)}: chained assignment to a typed variable")
            return node
        t = node.targets[0]
        if isinstance(t, ast.Name):
            if t.id in self.types:
                node.value = _conv_ast(self.types[t.id], node.value, t.id)
            return node
        if isinstance(t, (ast.Tuple, ast.List)):
            post = []
            for e in t.elts:
                if isinstance(e, ast.Name) and e.id in self.types:
                    post.append(ast.Assign(targets=[ast.Name(id=e.id, ctx=ast.Store())],
                                           value=_conv_ast(self.types[e.id], ast.Name(id=e.id, ctx=ast.Load()), e.id)))
                elif isinstance(e, (ast.Tuple, ast.List, ast.Starred)):
                    raise NotUnderstood(f"{self._w(node)}: nested/starred unpacking")
            return [node] + post
        return node

    def visit_AugAssign(self, node):
        self.generic_visit(node)
        t = node.target
        if isinstance(t, ast.Name) and t.id in self.types:
            v = self._binop(ast.BinOp(left=ast.Name(id=t.id, ctx=ast.Load()), op=node.op, right=node.value))
            return ast.Assign(targets=[ast.Name(id=t.id, ctx=ast.Store())],
                              value=_conv_ast(self.types[t.id], v, t.id))
        if self.fn.cdivision and isinstance(node.op, (ast.Div, ast.FloorDiv, ast.Mod)):
            raise NotUnderstood(f"{self._w(node)}: augmented division on a non-scalar under cdivision")
        return node

    def visit_AnnAssign(self, node):
        raise NotUnderstood(f"{self._w(node)}: annotated assignment")

    def visit_NamedExpr(self, node):
        if node.target.id in self.types:
            raise NotUnderstood(f"{self._w(node)}: walrus on a typed variable")
        return self.generic_visit(node)

    def visit_For(self, node):
        self.generic_visit(node)
        for e in ast.walk(node.target):
            if isinstance(e, ast.Name) and e.id in self.types:
                d = self.types[e.id]
                if d[0] != "int":
                    raise NotUnderstood(f"{self._w(node)}: loop variable {e.id} of non-integer C type")
                it = node.iter
                if not (isinstance(it, ast.Call) and isinstance(it.func, ast.Name) and it.func.id == "range"):
                    raise NotUnderstood(f"{self._w(node)}: typed loop variable over a non-range iterable")
        return node

    def visit_With(self, node):
        for it in node.items:
            if it.optional_vars is not None:
                for e in ast.walk(it.optional_vars):
                    if isinstance(e, ast.Name) and e.id in self.types:
                        raise NotUnderstood(f"{self._w(node)}: with-target is a typed variable")
        return self.generic_visit(node)

    def visit_Return(self, node):
        self.generic_visit(node)
        if self.fn.ret is not None and self.fn.ret[0] != "object":
            if node.value is None:
                raise NotUnderstood(f"{self._w(node)}: bare return in a function with C return type")
            node.value = _conv_ast(self.fn.ret, node.value)
        return node

    def _binop(self, node):
        if self.fn.cdivision:
            f = {ast.Div: "_cdiv", ast.FloorDiv: "_cfloordiv", ast.Mod: "_cmod"}.get(type(node.op))
            if f:
                if isinstance(node.op, ast.Mod) and isinstance(node.left, ast.Constant) and isinstance(node.left.value, str):
                    return node
                return _call(f, node.left, node.right)
        return node

    def visit_BinOp(self, node):
        self.generic_visit(node)
        return self._binop(node)


def _apply_types(tree, fns, relpath):
    by_line = {f.lineno: f for f in fns}

    class Outer(ast.NodeTransformer):
        def visit_FunctionDef(self, node):
            f = by_line.get(node.lineno)
            if f is None:
                self.generic_visit(node)
                return node
            if f.name != node.name:
                raise NotUnderstood(f"{relpath}:{node.lineno}: signature bookkeeping mismatch")
            inner = [n for n in ast.walk(node) if isinstance(n, ast.FunctionDef) and n is not node
                     and n.lineno in by_line]
            if inner and (by_line[inner[0].lineno].vars or by_line[inner[0].lineno].args):
                raise NotUnderstood(f"{relpath}:{inner[0].lineno}: typed nested function")
            return _Typer(f, relpath).visit(node)

        def visit_ClassDef(self, node):
            self.generic_visit(node)
            return node
    tree = Outer().visit(tree)
    ast.fix_missing_locations(tree)
    return tree


# ---------------------------------------------------------------------------
# API
# ---------------------------------------------------------------------------
def repo_root():
    from harness import overlay
    return overlay.REPO


def python_source(relpath):
    """The de-cythonised Python text (phase 1 only; for inspection/tests)."""
    with open(os.path.join(repo_root(), relpath)) as f:
        return translate(f.read(), relpath)[0]


_CACHE = {}


def load_pyx(relpath: str) -> types.ModuleType:
    """Importable pure-Python module made from the current text of /repo/<relpath>."""
    import harness.overlay  # noqa: F401  (nipy .py from /repo, .so from site-packages)
    path = os.path.join(repo_root(), relpath)
    st = os.stat(path)
    key = (path, st.st_mtime_ns, st.st_size)
    if key in _CACHE:
        return _CACHE[key]
    with open(path) as f:
        src = f.read()
    py, fns, externs = translate(src, relpath)
    try:
        tree = ast.parse(py, filename=path)
    except SyntaxError as e:
        raise NotUnderstood(f"{relpath}:{e.lineno}: residual Cython syntax: {(e.text or '').strip()!r}") from e
    tree = _apply_types(tree, fns, relpath)
    code = compile(tree, path, "exec")
    pkg = os.path.dirname(relpath).replace(os.sep, ".")
    base = os.path.splitext(os.path.basename(relpath))[0]
    mod = types.ModuleType(f"{pkg}.{base}__decython" if pkg else base + "__decython")
    mod.__file__ = path
    mod.__package__ = pkg
    if pkg:
        importlib.import_module(pkg)
    g = mod.__dict__
    g.update(_cint=_cint, _cfloat=_cfloat, _cbool=_cbool, _cbuf=_cbuf, _cdiv=_cdiv,
             _cfloordiv=_cfloordiv, _cmod=_cmod)
    for nm, base_nm in externs.items():
        g[nm] = _MATH_H[base_nm]
    exec(code, g)
    mod.__decython__ = {"functions": {f.name: {"args": f.args, "ret": f.ret, "vars": dict(f.vars),
                                                "cdivision": f.cdivision} for f in fns},
                        "externs": sorted(externs)}
    _CACHE[key] = mod
    return mod
