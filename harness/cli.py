import sys, traceback

def main(argv):
    if not argv:
        print("usage: check <ID> [quick|thorough] [--replay FILE]"); return 2
    pid = argv[0]
    tier = "quick"
    replay = None
    i = 1
    while i < len(argv):
        if argv[i] == "--replay":
            replay = argv[i + 1]; i += 2
        else:
            tier = argv[i]; i += 1
    from harness.core import run_check
    try:
        return run_check(pid, tier, replay)
    except Exception:
        traceback.print_exc()
        return 2

if __name__ == "__main__":
    sys.exit(main(sys.argv[1:]))
