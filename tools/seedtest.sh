#!/bin/bash
# tools/seedtest.sh <patch.diff> <ID> [tier]  — run a check against a scratch worktree of /repo
# carrying the patch (does not touch /repo or /verif/evidence). Prints the verdict lines.
set -u
patch=$(readlink -f "$1"); id=$2; tier=${3:-quick}
wt=$(mktemp -d /tmp/wt-seed-XXXXXX); rmdir "$wt"
git -C /repo worktree add -q "$wt" HEAD || exit 2
if ! git -C "$wt" apply "$patch"; then echo "PATCH-DOES-NOT-APPLY"; git -C /repo worktree remove --force "$wt"; exit 2; fi
cd /verif
NIPY_VERIF_REPO="$wt" VERIF_EVIDENCE_DIR=/tmp/seed-evidence ./check "$id" "$tier" 2>&1 | grep -E "^VIOLATION|^KNOWN|^# (oracle|tie|C[0-9]+ tier)" | cut -c1-400
rc=${PIPESTATUS[0]}
git -C /repo worktree remove --force "$wt"; (cd /verif && /venv/bin/python -c "from harness.setup import regenerate; regenerate()" >/dev/null 2>&1)
echo "exit=$rc"
