#!/bin/bash
# tools/commit_prop.sh <ID> <message>: stage the files of one property (+ shared bookkeeping) and commit
cd /verif
id=$1; shift
for p in harness/props/$id.py harness/props/${id,,}_*.py lean/NipyVerif/Model/$id*.lean lean/NipyVerif/Lemmas/$id*.lean \
         lean/NipyVerif/Props/$id*.lean lean/NipyVerif/Gen/$id*.lean lean/NipyVerif/Gen/Audit$id.lean evidence/$id.json lean/Drivers/$id.lean proposed_fixes/$id* corpus/$id \
         harness/translate harness/decython.py known_findings.json seeded tools lean/lakefile.toml; do
  [ -e "$p" ] && git add -A "$p"
done
git commit -qm "$*" >/dev/null 2>&1 && git log --oneline | head -1
