#!/bin/bash
# tools/confirmseed.sh <seed-out-dir> : demo must exit 0 on /repo HEAD and non-zero on a scratch worktree with the patch
d=$1
NIPY_VERIF_REPO=/repo timeout 600 /venv/bin/python $d/demo.py >/dev/null 2>&1; a=$?
wt=$(mktemp -d /tmp/wt-demo-XXXXXX); rmdir $wt
git -C /repo worktree add -q $wt HEAD
git -C $wt apply $d/patch.diff || { echo "PATCH-DOES-NOT-APPLY"; git -C /repo worktree remove --force $wt; exit 2; }
NIPY_VERIF_REPO=$wt timeout 600 /venv/bin/python $d/demo.py >/dev/null 2>&1; b=$?
git -C /repo worktree remove --force $wt
echo "demo: HEAD rc=$a patched rc=$b"
[ $a -eq 0 ] && [ $b -ne 0 ]
