#!/usr/bin/env python3
"""run_baseline.py <tree>: run nipy's pinned test suite in <tree> and compare passing ids with stable_pass.txt (288 ids).
Exit 0 iff every baseline id still passes."""
import os, subprocess, sys, tempfile
import xml.etree.ElementTree as ET
tree = sys.argv[1]
base = set(open(os.path.join(os.path.dirname(os.path.abspath(__file__)), "stable_pass.txt")).read().split("\n")) - {""}
x = tempfile.mktemp(suffix=".xml")
subprocess.run(["/venv/bin/python", "-m", "pytest", "-ra", "-q", "-p", "no:cacheprovider", "--timeout=900",
                "--continue-on-collection-errors", f"--junitxml={x}"], cwd=tree, capture_output=True)
passed = set()
for tc in ET.parse(x).getroot().iter("testcase"):
    if not any(c.tag in ("failure", "error", "skipped") for c in tc):
        passed.add(f"{tc.get('classname')}::{tc.get('name')}")
os.unlink(x)
missing = sorted(base - passed)
print(f"baseline {len(base)} passing-now {len(passed)} missing {len(missing)}")
for m in missing[:40]:
    print("MISSING", m)
sys.exit(1 if missing else 0)
