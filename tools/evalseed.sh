#!/bin/bash
# tools/evalseed.sh <seed-out dir> <ID> [tier] — confirm an independently written change and run the check against it:
#  1. demo exits 0 on /repo HEAD, non-zero with the patch;  2. the 288 baseline tests still pass with the patch;
#  3. ./check <ID> <tier> against a scratch worktree carrying the patch.   Prints a one-line summary at the end.
set -u
d=$(readlink -f "$1"); id=$2; tier=${3:-quick}
[ -f "$d/patch.diff" ] && [ -f "$d/demo.py" ] || { echo "SUMMARY $(basename $d) missing patch.diff/demo.py"; exit 2; }
NIPY_VERIF_REPO=/repo timeout 900 /venv/bin/python "$d/demo.py" >/dev/null 2>&1; a=$?
wt=$(mktemp -d /tmp/wt-eval-XXXXXX); rmdir "$wt"
git -C /repo worktree add -q "$wt" HEAD || exit 2
if ! git -C "$wt" apply "$d/patch.diff"; then echo "SUMMARY $(basename $d) PATCH-DOES-NOT-APPLY"; git -C /repo worktree remove --force "$wt"; exit 2; fi
NIPY_VERIF_REPO="$wt" timeout 900 /venv/bin/python "$d/demo.py" >/tmp/evalseed-demo.$$ 2>&1; b=$?
NIPY_VERIF_REPO="$wt" /venv/bin/python /verif/tools/baseline.py > /tmp/evalseed-base.$$ 2>&1; c=$?
cd /verif
out=$(NIPY_VERIF_REPO="$wt" VERIF_EVIDENCE_DIR=/tmp/seed-evidence ./check "$id" "$tier" 2>&1); rc=$?
echo "$out" | grep -E "^VIOLATION|^KNOWN|^# (oracle|tie|widened|source)" | cut -c1-400
git -C /repo worktree remove --force "$wt"; (cd /verif && /venv/bin/python -c "from harness.setup import regenerate; regenerate()" >/dev/null 2>&1)
kind=$(echo "$out" | grep -q "^# oracle" && echo oracle || (echo "$out" | grep -q "^# tie" && echo tie-only || echo none))
echo "SUMMARY $(basename $d) demo-HEAD=$a demo-patched=$b baseline=$c($(head -1 /tmp/evalseed-base.$$)) check-$id-$tier=$rc detected-by=$kind"
rm -f /tmp/evalseed-demo.$$ /tmp/evalseed-base.$$
