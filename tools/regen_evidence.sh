#!/bin/bash
# tools/regen_evidence.sh [seed]: rewrite evidence/<id>.json for every claimed property from a quick run on /repo
cd "$(dirname "$(readlink -f "$0")")/.."
seed=${1:-1}
for p in $(cat harness/claimed.txt); do
  t0=$(date +%s)
  out=$(VERIF_SEED=$seed ./check $p quick 2>&1); rc=$?
  echo "$p rc=$rc $(( $(date +%s) - t0 ))s $(echo "$out" | grep -c '^VIOLATION') violations"
  [ $rc -ne 0 ] && echo "$out" | grep "^VIOL\|^# oracle\|^# tie\|HARNESS\|Error" | head -4 | cut -c1-250
done
