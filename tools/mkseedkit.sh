#!/bin/bash
# tools/mkseedkit.sh — (re)create /tmp/seedkit: what a seeding sub-agent gets besides the property text
# (importer/builder tools only; nothing of the checks).
mkdir -p /tmp/seedkit /tmp/seed-out
cp /verif/harness/overlay.py /verif/harness/cshim.py /verif/harness/decython.py /tmp/seedkit/
sed -i 's#^BUILD = .*#BUILD = "/tmp/seedkit/.build"#' /tmp/seedkit/cshim.py
cp /verif/tools/seedkit/README.txt /verif/tools/seedkit/run_baseline.py /tmp/seedkit/
python3 -c "
import json
b=json.load(open('/root/.vp/BASELINE.json'))
open('/tmp/seedkit/stable_pass.txt','w').write('\n'.join(b['stable_pass'])+'\n')"
