#!/usr/bin/env python3
"""tools/keepseed.py <seed-out dir> <name> <caught-by text> — copy a confirmed seeded change into /verif/seeded/<name>/"""
import json, os, shutil, sys
src, name, caught = sys.argv[1], sys.argv[2], sys.argv[3]
dst = os.path.join("/verif/seeded", name)
os.makedirs(dst, exist_ok=True)
for f in ("patch.diff", "demo.py"):
    shutil.copy(os.path.join(src, f), os.path.join(dst, f))
meta = json.load(open(os.path.join(src, "meta.json")))
meta["detected_by"] = caught
meta["confirmed_by_coordinator"] = ("demo exits 0 at /repo HEAD and non-zero with the patch; patch applies to HEAD; "
                                    "check run against a scratch worktree with the patch via tools/seedtest.sh")
json.dump(meta, open(os.path.join(dst, "meta.json"), "w"), indent=1)
print("kept", dst)
