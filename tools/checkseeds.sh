#!/bin/bash
# tools/checkseeds.sh — every kept seed patch / fix revert must still apply to /repo HEAD
cd /repo
for f in /verif/seeded/*/patch.diff /verif/seeded/fix-reverts/*.diff; do
  git apply --check "$f" 2>/dev/null || echo "DOES-NOT-APPLY $f"
done
