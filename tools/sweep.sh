#!/bin/bash
# tools/sweep.sh <tier> <seed...> : run every claimed check for the given seeds on /repo; prints one line per run
cd "$(dirname "$(readlink -f "$0")")/.."
tier=$1; shift
for s in "$@"; do
  for p in $(cat harness/claimed.txt); do
    t0=$(date +%s)
    out=$(VERIF_SEED=$s VERIF_JOBS=${VERIF_JOBS:-8} VERIF_EVIDENCE_DIR=/tmp/sweep-evidence ./check $p $tier 2>&1)
    rc=$?
    echo "seed=$s $p rc=$rc $(( $(date +%s) - t0 ))s $(echo "$out" | grep -c '^VIOLATION') violations $(echo "$out" | grep -c '^KNOWN') known"
    if [ $rc -ne 0 ]; then echo "$out" | grep "^VIOL\|^# oracle\|^# tie\|HARNESS\|Error" | head -5 | cut -c1-300; fi
  done
done
