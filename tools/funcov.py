#!/venv/bin/python
"""tools/funcov.py <ID> [ncases] — which functions of the property's anchored Python files do the
check's generated cases actually execute?  (A measured map of what the correspondence/oracle reaches;
not part of any verdict.)  Prints executed / defined per file and the names never executed.

Run:  cd /verif && /venv/bin/python tools/funcov.py C07 300
"""
import ast
import importlib
import json
import os
import random
import sys
import threading

VERIF = os.path.dirname(os.path.dirname(os.path.abspath(__file__)))
sys.path.insert(0, VERIF)
os.environ.setdefault("OMP_NUM_THREADS", "1")
import harness.overlay  # noqa: E402
from harness import fingerprint  # noqa: E402

REPO = os.environ.get("NIPY_VERIF_REPO", "/repo")


def defined(path):
    out = set()
    try:
        tree = ast.parse(open(path).read())
    except Exception:
        return out

    def walk(node, prefix):
        for ch in ast.iter_child_nodes(node):
            if isinstance(ch, (ast.FunctionDef, ast.AsyncFunctionDef)):
                out.add((prefix + ch.name, ch.lineno))
                walk(ch, prefix + ch.name + ".")
            elif isinstance(ch, ast.ClassDef):
                walk(ch, prefix + ch.name + ".")
            else:
                walk(ch, prefix)
    walk(tree, "")
    return out


def main():
    pid = sys.argv[1]
    n = int(sys.argv[2]) if len(sys.argv) > 2 else 300
    check = importlib.import_module(f"harness.props.{pid}").CHECK
    files = []
    for w in fingerprint.watch_list(pid) + list(getattr(check, "watch", ())):
        p = os.path.join(REPO, w)
        if os.path.isdir(p):
            for root, dirs, fs in os.walk(p):
                dirs[:] = [d for d in dirs if d != "tests"]
                files += [os.path.join(root, f) for f in fs if f.endswith(".py")]
        elif p.endswith(".py") and os.path.exists(p):
            files.append(p)
    files = sorted(set(files))
    hit = set()

    def prof(frame, event, arg):
        if event == "call":
            co = frame.f_code
            if co.co_filename in fset:
                hit.add((co.co_filename, co.co_firstlineno))
    fset = set(files)
    cases = check.corpus() + list(check.generate(random.Random(12345), "quick"))
    random.Random(1).shuffle(cases)
    cases = cases[:n]
    sys.setprofile(prof)
    threading.setprofile(prof)
    for c in cases:
        try:
            check.run_case(c)
        except Exception:
            pass
    sys.setprofile(None)
    tot_d = tot_h = 0
    report = {}
    for f in files:
        d = defined(f)
        # decorators shift co_firstlineno to the decorator line: match by nearest preceding line within 5
        hl = {ln for (fn, ln) in hit if fn == f}
        ex = {name for (name, ln) in d if any(ln - 6 <= h <= ln for h in hl)}
        miss = sorted(name for (name, ln) in d if name not in ex and not name.split(".")[-1].startswith("__repr")
                      and not name.split(".")[-1].startswith("__str"))
        tot_d += len(d); tot_h += len(ex)
        report[os.path.relpath(f, REPO)] = {"defined": len(d), "executed": len(ex), "never": miss}
        print(f"{os.path.relpath(f, REPO)}: {len(ex)}/{len(d)} executed; never: {', '.join(miss) or '-'}")
    print(f"TOTAL {pid}: {tot_h}/{tot_d} functions of the anchored .py files executed by {len(cases)} sampled quick cases")
    if "--json" in sys.argv:
        json.dump(report, open(f"/tmp/funcov-{pid}.json", "w"), indent=1)


if __name__ == "__main__":
    main()
