#!/usr/bin/env python3
"""Run nipy's pinned baseline in /repo (or NIPY_VERIF_REPO) and compare the passing ids with BASELINE.json."""
import json, os, subprocess, sys, tempfile
import xml.etree.ElementTree as ET
repo = os.environ.get("NIPY_VERIF_REPO", "/repo")
base = set(json.load(open("/root/.vp/BASELINE.json"))["stable_pass"])
x = tempfile.mktemp(suffix=".xml")
subprocess.run(["/venv/bin/python", "-m", "pytest", "-ra", "-q", "-p", "no:cacheprovider", "--timeout=900",
                "--continue-on-collection-errors", f"--junitxml={x}"], cwd=repo, capture_output=True)
passed = set()
for tc in ET.parse(x).getroot().iter("testcase"):
    if not any(c.tag in ("failure", "error", "skipped") for c in tc):
        passed.add(f"{tc.get('classname')}::{tc.get('name')}")
os.unlink(x)
missing = sorted(base - passed)
print(f"baseline {len(base)} passing-now {len(passed)} missing {len(missing)}")
for m in missing[:40]:
    print("MISSING", m)
sys.exit(1 if missing else 0)
