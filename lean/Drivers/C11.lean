import NipyVerif.Model.C11
def main : IO Unit := NipyVerif.driverLoop NipyVerif.C11.run
