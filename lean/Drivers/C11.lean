import NipyVerif.Model.C11B
def main : IO Unit := NipyVerif.driverLoop NipyVerif.C11.runB
