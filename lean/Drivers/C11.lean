import NipyVerif.Model.C11C
def main : IO Unit := NipyVerif.driverLoop NipyVerif.C11.runC
