import NipyVerif.Model.C15All
def main : IO Unit := NipyVerif.driverLoop NipyVerif.C15.runAll
