import NipyVerif.Model.C15
def main : IO Unit := NipyVerif.driverLoop NipyVerif.C15.run
