import NipyVerif.Model.C16Run
def main : IO Unit := NipyVerif.driverLoop NipyVerif.C16.runAll
