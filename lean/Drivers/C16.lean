import NipyVerif.Model.C16
def main : IO Unit := NipyVerif.driverLoop NipyVerif.C16.run
