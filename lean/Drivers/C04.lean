import NipyVerif.Model.C04C
def main : IO Unit := NipyVerif.driverLoop NipyVerif.C04.runC
