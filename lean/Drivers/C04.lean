import NipyVerif.Model.C04
def main : IO Unit := NipyVerif.driverLoop NipyVerif.C04.run
