import NipyVerif.Model.C03F
def main : IO Unit := NipyVerif.driverLoop NipyVerif.C03.runF
