import NipyVerif.Model.C03H
def main : IO Unit := NipyVerif.driverLoop NipyVerif.C03.runH
