import NipyVerif.Model.C03
def main : IO Unit := NipyVerif.driverLoop NipyVerif.C03.run
