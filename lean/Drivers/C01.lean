import NipyVerif.Model.C01B
def main : IO Unit := NipyVerif.driverLoop NipyVerif.C01.run2
