import NipyVerif.Model.C01W
def main : IO Unit := NipyVerif.driverLoop NipyVerif.C01.run3
