import NipyVerif.Model.C01
def main : IO Unit := NipyVerif.driverLoop NipyVerif.C01.run
