import NipyVerif.Model.C14W
def main : IO Unit := NipyVerif.driverLoop NipyVerif.C14.runW
