import NipyVerif.Model.C14
def main : IO Unit := NipyVerif.driverLoop NipyVerif.C14.run
