import NipyVerif.Model.C13
def main : IO Unit := NipyVerif.driverLoop NipyVerif.C13.run
