import NipyVerif.Model.C13
import NipyVerif.Model.C13B
import NipyVerif.Model.C13S
import NipyVerif.Model.C13K
def main : IO Unit := NipyVerif.driverLoop (fun toks => match toks with
  | "B" :: rest => NipyVerif.C13.runB rest
  | "S" :: rest => NipyVerif.C13.runS rest
  | "K" :: rest => NipyVerif.C13.runK rest
  | _ => NipyVerif.C13.run toks)
