import NipyVerif.Model.C08B
def main : IO Unit := NipyVerif.driverLoop NipyVerif.C08.runB
