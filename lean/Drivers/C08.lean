import NipyVerif.Model.C08
def main : IO Unit := NipyVerif.driverLoop NipyVerif.C08.run
