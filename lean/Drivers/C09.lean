import NipyVerif.Model.C09Opt
def main : IO Unit := NipyVerif.driverLoop NipyVerif.C09.runAll
