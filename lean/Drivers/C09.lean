import NipyVerif.Model.C09
def main : IO Unit := NipyVerif.driverLoop NipyVerif.C09.run
