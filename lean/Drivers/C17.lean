import NipyVerif.Model.C17All
def main : IO Unit := NipyVerif.driverLoop NipyVerif.C17.runAll
