import NipyVerif.Model.C17
def main : IO Unit := NipyVerif.driverLoop NipyVerif.C17.run
