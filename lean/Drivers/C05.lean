import NipyVerif.Model.C05D
def main : IO Unit := NipyVerif.driverLoop NipyVerif.C05.runAll
