import NipyVerif.Model.C05E
def main : IO Unit := NipyVerif.driverLoop NipyVerif.C05.runW3
