import NipyVerif.Model.C05
def main : IO Unit := NipyVerif.driverLoop NipyVerif.C05.run
