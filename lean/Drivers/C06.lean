import NipyVerif.Model.C06C
def main : IO Unit := NipyVerif.driverLoop NipyVerif.C06.runC
