import NipyVerif.Model.C06B
def main : IO Unit := NipyVerif.driverLoop NipyVerif.C06.runB
