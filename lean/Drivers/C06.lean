import NipyVerif.Model.C06
def main : IO Unit := NipyVerif.driverLoop NipyVerif.C06.run
