import NipyVerif.Model.C18B
def main : IO Unit := NipyVerif.driverLoop NipyVerif.C18.runB
