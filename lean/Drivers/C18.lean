import NipyVerif.Model.C18
def main : IO Unit := NipyVerif.driverLoop NipyVerif.C18.run
