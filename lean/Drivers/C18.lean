import NipyVerif.Model.C18C
def main : IO Unit := NipyVerif.driverLoop NipyVerif.C18.runC
