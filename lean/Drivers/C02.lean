import NipyVerif.Model.C02Run
def main : IO Unit := NipyVerif.driverLoop NipyVerif.C02.run
