import NipyVerif.Model.C02
def main : IO Unit := NipyVerif.driverLoop NipyVerif.C02.run
