import NipyVerif.Model.C12B
import NipyVerif.Model.C12F
import NipyVerif.Model.C12W
def main : IO Unit := NipyVerif.driverLoop
  (fun ts => match NipyVerif.C12.runF ts with
    | some s => s
    | none => match NipyVerif.C12.runW ts with
      | some s => s
      | none => NipyVerif.C12.runB ts)
