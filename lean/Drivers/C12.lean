import NipyVerif.Model.C12
def main : IO Unit := NipyVerif.driverLoop NipyVerif.C12.run
