import NipyVerif.Model.C07
def main : IO Unit := NipyVerif.driverLoop NipyVerif.C07.run
