import NipyVerif.Model.C07Mk
/-- dispatch over the model files of C07 (grid/regressors, CSV text, paradigms, assembly, kernels/drift/full-rank) -/
def runAll (ts : NipyVerif.Toks) : String :=
  match NipyVerif.C07.runCsv ts with
  | some r => r
  | none => match NipyVerif.C07.runPar ts with
    | some r => r
    | none => match NipyVerif.C07.runDm ts with
      | some r => r
      | none => match NipyVerif.C07.runMk ts with
        | some r => r
        | none => NipyVerif.C07.run ts
def main : IO Unit := NipyVerif.driverLoop runAll
