import NipyVerif.Model.C20
def main : IO Unit := NipyVerif.driverLoop NipyVerif.C20.run
