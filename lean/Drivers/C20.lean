import NipyVerif.Model.C20K
def main : IO Unit := NipyVerif.driverLoop NipyVerif.C20.runK
