import NipyVerif.Model.C20W
def main : IO Unit := NipyVerif.driverLoop NipyVerif.C20.runW
