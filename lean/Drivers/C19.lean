import NipyVerif.Model.C19
def main : IO Unit := NipyVerif.driverLoop NipyVerif.C19.run
