import NipyVerif.Model.C19C
def main : IO Unit := NipyVerif.driverLoop NipyVerif.C19.runC
