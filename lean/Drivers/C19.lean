import NipyVerif.Model.C19F
def main : IO Unit := NipyVerif.driverLoop NipyVerif.C19.runF
