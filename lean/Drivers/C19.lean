import NipyVerif.Model.C19D
def main : IO Unit := NipyVerif.driverLoop NipyVerif.C19.runD
