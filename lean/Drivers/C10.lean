import NipyVerif.Model.C10
def main : IO Unit := NipyVerif.driverLoop NipyVerif.C10.run
