import NipyVerif.Model.C10C
def main : IO Unit := NipyVerif.driverLoop NipyVerif.C10.runC
