import NipyVerif.Model.C10A
def main : IO Unit := NipyVerif.driverLoop NipyVerif.C10.runA
