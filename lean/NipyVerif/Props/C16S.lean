/-
C16 (part S) — cubic B-spline sampling equals its definition at every (off-grid) point, in every
boundary mode; the neighbour window of `_mirror_grid_neighbors` is the floor window; the reflect
mode is mirror symmetric.
-/
import NipyVerif.Lemmas.C16S

namespace NipyVerif.C16

open Finset

/-- `mirror_window_is_floor`: the C expression `(int)(x + ddim + 2) - ddim` (the offset makes the
    truncated argument non-negative, so that truncation toward zero acts as a floor) yields the window
    `⌊x⌋ - 1 … ⌊x⌋ + 2` for EVERY accepted coordinate, negative non-integers included, and the
    acceptance test is `-ddim ≤ x ∧ ⌊x⌋ ≤ 2 ddim`. -/
theorem mirror_window_is_floor (x : Rat) (ddim : Nat) :
    neighbors x ddim =
      if -((ddim : Nat) : Rat) ≤ x ∧ ⌊x⌋ ≤ 2 * (ddim : Int) then some (⌊x⌋ - 1, ⌊x⌋ + 2) else none := by
  unfold neighbors
  simp only
  have hcast : x + ((ddim : Nat) : Rat) + 2 = x + (((ddim : Int) + 2 : Int) : Rat) := by push_cast; ring
  by_cases hx : -((ddim : Nat) : Rat) ≤ x
  · have hnn : 0 ≤ x + ((ddim : Nat) : Rat) + 2 := by linarith
    rw [truncInt_of_nonneg _ hnn, hcast, Int.floor_add_intCast]
    have hfl : -(ddim : Int) ≤ ⌊x⌋ := by
      rw [Int.le_floor]; push_cast; exact hx
    by_cases h2 : ⌊x⌋ ≤ 2 * (ddim : Int)
    · rw [if_pos ⟨by omega, by omega⟩, if_pos ⟨hx, h2⟩]
      congr 1
      ext <;> simp <;> omega
    · rw [if_neg (by omega), if_neg (show ¬(-((ddim : Nat) : Rat) ≤ x ∧ ⌊x⌋ ≤ 2 * (ddim : Int)) from fun h => h2 h.2)]
  · rw [if_neg (show ¬(-((ddim : Nat) : Rat) ≤ x ∧ ⌊x⌋ ≤ 2 * (ddim : Int)) from fun h => hx h.1)]
    have hlt : x < -((ddim : Nat) : Rat) := not_le.mp hx
    rw [if_neg]
    intro hh
    by_cases hnn : 0 ≤ x + ((ddim : Nat) : Rat) + 2
    · rw [truncInt_of_nonneg _ hnn, hcast, Int.floor_add_intCast] at hh
      have : ⌊x⌋ < -(ddim : Int) := by
        rw [Int.floor_lt]; push_cast; exact hlt
      omega
    · rw [truncInt_of_neg _ (not_le.mp hnn)] at hh
      have : ⌈x + ((ddim : Nat) : Rat) + 2⌉ ≤ 0 := by
        rw [Int.ceil_le]; push_cast; linarith [not_le.mp hnn]
      omega

/-- what the truncation alone (without the offset) would give differs exactly at negative
    non-integers: `(int)x = ⌊x⌋ + 1` there — the defect family the offset avoids. -/
theorem trunc_ne_floor_of_neg_nonint (x : Rat) (hneg : x < 0) (hni : (⌊x⌋ : Rat) ≠ x) :
    truncInt x = ⌊x⌋ + 1 := by
  rw [truncInt_of_neg x hneg]
  rw [Int.ceil_eq_iff]
  have h1 := Int.floor_le x
  have h2 := Int.lt_floor_add_one x
  push_cast
  exact ⟨by have := lt_of_le_of_ne h1 hni; linarith, le_of_lt h2⟩

/-- `sample1d_eq_definition`: in every boundary mode the sampled value is
    `w · Σ_k c[mirror(k)] β³(x' − k)` over ANY range of consecutive nodes containing the floor window
    (`β³` vanishes outside `(−2, 2)`), where `(x', w)` is the boundary-transformed coordinate and
    weight; `0` where the mode refuses the coordinate. -/
theorem sample1d_eq_definition (c23 : Rat) (mode : Nat) (coef : Array Rat) (x : Rat) (lo : Int) (n : Nat) :
    sample1d c23 mode coef x =
      match applyBoundary mode (coef.size - 1) x with
      | none => 0
      | some (x', w) =>
          if -(((coef.size - 1 : Nat) : Nat) : Rat) ≤ x' ∧ ⌊x'⌋ ≤ 2 * ((coef.size - 1 : Nat) : Int) then
            (if lo ≤ ⌊x'⌋ - 1 ∧ ⌊x'⌋ + 2 < lo + (n : Int) then w * defSum c23 coef (coef.size - 1) x' lo n
             else w * windowSum c23 coef (coef.size - 1) x' (⌊x'⌋ - 1))
          else 0 := by
  unfold sample1d
  simp only
  cases hb : applyBoundary mode (coef.size - 1) x with
  | none => rfl
  | some p =>
      obtain ⟨x', w⟩ := p
      simp only
      rw [mirror_window_is_floor]
      by_cases hr : -(((coef.size - 1 : Nat) : Nat) : Rat) ≤ x' ∧ ⌊x'⌋ ≤ 2 * ((coef.size - 1 : Nat) : Int)
      · rw [if_pos hr, if_pos hr]
        simp only
        by_cases hw : lo ≤ ⌊x'⌋ - 1 ∧ ⌊x'⌋ + 2 < lo + (n : Int)
        · rw [if_pos hw, ← windowSum_eq_defSum c23 coef _ x' lo n hw.1 hw.2]; rfl
        · rw [if_neg hw]; rfl
      · rw [if_neg hr, if_neg hr]

/-- reflect mode inside its range: the plain statement -/
theorem sample1d_reflect_eq_definition (c23 : Rat) (coef : Array Rat) (x : Rat) (lo : Int) (n : Nat)
    (h1 : -(((coef.size - 1 : Nat) : Nat) : Rat) ≤ x) (h2 : x ≤ 2 * (((coef.size - 1 : Nat) : Nat) : Rat))
    (hlo : lo ≤ ⌊x⌋ - 1) (hhi : ⌊x⌋ + 2 < lo + (n : Int)) :
    sample1d c23 2 coef x = defSum c23 coef (coef.size - 1) x lo n := by
  rw [sample1d_eq_definition c23 2 coef x lo n]
  have hb : applyBoundary 2 (coef.size - 1) x = some (x, 1) := by
    unfold applyBoundary
    simp only
    rw [if_neg (by decide), if_neg (by decide), if_neg]
    rw [not_or, not_lt, not_lt]
    exact ⟨h1, h2⟩
  rw [hb]
  simp only
  have hf : ⌊x⌋ ≤ 2 * ((coef.size - 1 : Nat) : Int) := by
    have : ⌊x⌋ ≤ ⌊(2 * (((coef.size - 1 : Nat) : Nat) : Rat))⌋ := Int.floor_le_floor h2
    have e : (2 * (((coef.size - 1 : Nat) : Nat) : Rat)) = ((2 * ((coef.size - 1 : Nat) : Int) : Int) : Rat) := by
      push_cast; ring
    rw [e, Int.floor_intCast] at this
    exact this
  rw [if_pos ⟨h1, hf⟩, if_pos ⟨hlo, hhi⟩, one_mul]

/-- `sample1d_reflect_symm`: mirror symmetry `s(−x) = s(x)` of the reflect mode about the first grid
    point, for every `|x| ≤ ddim` (negative non-integers included). -/
theorem sample1d_reflect_symm (c23 : Rat) (coef : Array Rat) (x : Rat)
    (h : |x| ≤ (((coef.size - 1 : Nat) : Nat) : Rat)) :
    sample1d c23 2 coef (-x) = sample1d c23 2 coef x := by
  set d : Nat := coef.size - 1 with hd
  have hx := abs_le.mp h
  have hdnn : (0 : Rat) ≤ ((d : Nat) : Rat) := by positivity
  have fl1 : -(d : Int) ≤ ⌊x⌋ := by rw [Int.le_floor]; push_cast; exact hx.1
  have fl2 : ⌊x⌋ ≤ (d : Int) := by
    have := Int.floor_le_floor hx.2
    rwa [show (((d : Nat) : Rat)) = (((d : Int) : Int) : Rat) by push_cast; rfl, Int.floor_intCast] at this
  have fl3 : -(d : Int) ≤ ⌊-x⌋ := by rw [Int.le_floor]; push_cast; linarith [hx.2]
  have fl4 : ⌊-x⌋ ≤ (d : Int) := by
    have : -x ≤ ((d : Nat) : Rat) := by linarith [hx.1]
    have := Int.floor_le_floor this
    rwa [show (((d : Nat) : Rat)) = (((d : Int) : Int) : Rat) by push_cast; rfl, Int.floor_intCast] at this
  -- both sides as the definition sum over the symmetric node range  -(d+3) .. d+3
  rw [sample1d_reflect_eq_definition c23 coef (-x) (-((d : Int) + 3)) (2 * (d + 3) + 1)
        (by linarith [hx.2]) (by linarith [hx.1]) (by omega) (by push_cast; omega),
      sample1d_reflect_eq_definition c23 coef x (-((d : Int) + 3)) (2 * (d + 3) + 1)
        (by linarith [hx.1]) (by linarith [hx.2]) (by omega) (by push_cast; omega)]
  unfold defSum
  rw [← Finset.sum_range_reflect]
  apply Finset.sum_congr rfl
  intro j hj
  have hj' := Finset.mem_range.mp hj
  have e : (-((d : Int) + 3) + ((2 * (d + 3) + 1 - 1 - j : Nat) : Int)) = -(-((d : Int) + 3) + (j : Int)) := by
    omega
  rw [e, mirroredPosition_neg]
  congr 1
  rw [← basis_even]
  congr 1
  push_cast
  ring

/-! ## Non-vacuity -/

/-- `x = -3/4`, `ddim = 3`: the window is `-2 … 1` (floor `-1`), whereas `(int)x + 2` would give `-1 … 2` -/
example : neighbors (-3 / 4) 3 = some (-2, 1) := by decide +kernel
example : truncInt (-3 / 4) + 2 = 2 := by decide +kernel
example : sample1d (2 / 3) 2 #[1, 5, 2, 7] (-3 / 4) = sample1d (2 / 3) 2 #[1, 5, 2, 7] (3 / 4) := by decide +kernel

end NipyVerif.C16
